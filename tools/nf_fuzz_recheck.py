#!/venv/bin/python
"""nf_fuzz_recheck.py <fuzz output files...>: re-evaluate every UNSOUND report of tools/nf_fuzz.py with the current normaliser"""
import ast, os, re, sys
sys.path.insert(0, os.path.dirname(os.path.dirname(os.path.abspath(__file__))))
sys.path.insert(0, os.path.dirname(os.path.abspath(__file__)))
os.environ["SA_NO_REFEQ"] = "1"
import nf_fuzz as F

still = 0
total = 0
for path in sys.argv[1:]:
    text = open(path).read()
    for m in re.finditer(r"^UNSOUND \((.*?)\)\n--- original\n(.*?)\n--- rewritten\n(.*?)\n--- mutant\n(.*?)\n\n", text, re.S | re.M):
        total += 1
        head, orig, rew, mut = m.groups()
        def nf(src):
            fn = ast.parse(src).body[0]
            helpers = {x.name: x for x in ast.walk(fn) if isinstance(x, ast.FunctionDef) and x.name.startswith("_helper")}
            return F.nf_of(fn, helpers)
        try:
            a, b, c = nf(orig), nf(rew), nf(mut)
        except Exception as e:
            print("ERROR", head, type(e).__name__, e)
            continue
        if c == a or c == b:
            bo, bm = F.behaviour(orig), F.behaviour(mut)
            if not F.same_behaviour(bo, bm):
                still += 1
                print("STILL-UNSOUND", path, head, "(mutant == %s)" % ("original" if c == a else "rewritten"))
print("rechecked %d reports, %d still unsound" % (total, still))
