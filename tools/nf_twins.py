#!/venv/bin/python
"""Generated behaviour-preserving rewrites of every function of the package, each of which the normaliser (sa/nf.py) must see through.

T1 every if/else inverted (test negated, arms swapped)      T2 every returned expression first bound to a temporary
T3 `x op= e` written out as `x = x op e`                     T4 `if c: ...return  else: B`  de-nested to  `if c: ...return` ; B
T5 every `x = [e for t in it]` turned into an append loop    T6 every comparison `a < b` mirrored to `b > a`, `a == b` to `b == a`
usage: tools/nf_twins.py [substring of rel:qualname]"""
import ast
import copy
import os
import sys

sys.path.insert(0, os.path.dirname(os.path.dirname(os.path.abspath(__file__))))
os.environ["SA_NO_REFEQ"] = "1"
from sa.core import Repo  # noqa: E402
from sa.nf import normal_form, module_consts, Unsupported  # noqa: E402


class T1(ast.NodeTransformer):
    def visit_If(self, node):
        self.generic_visit(node)
        if node.orelse:
            node.test, node.body, node.orelse = ast.UnaryOp(op=ast.Not(), operand=node.test), node.orelse, node.body
        return node


class T2(ast.NodeTransformer):
    n = 0

    def visit_FunctionDef(self, node):
        return node if getattr(self, "_inside", False) else self._top(node)

    def _top(self, node):
        self._inside = True
        self.generic_visit(node)
        return node

    def visit_Lambda(self, node):
        return node

    def visit_Return(self, node):
        if node.value is None or isinstance(node.value, (ast.Name, ast.Constant)):
            return node
        T2.n += 1
        nm = "_ret_tmp_%d" % T2.n
        return [ast.Assign(targets=[ast.Name(id=nm, ctx=ast.Store())], value=node.value), ast.Return(value=ast.Name(id=nm, ctx=ast.Load()))]


class T3(ast.NodeTransformer):
    def visit_AugAssign(self, node):
        if isinstance(node.target, ast.Name):
            return ast.Assign(targets=[ast.Name(id=node.target.id, ctx=ast.Store())], value=ast.BinOp(left=ast.Name(id=node.target.id, ctx=ast.Load()), op=node.op, right=node.value))
        return node


def _ends_with_return(stmts):
    return bool(stmts) and isinstance(stmts[-1], (ast.Return, ast.Raise))


class T4(ast.NodeTransformer):
    def _fix(self, body):
        out = []
        for s in body:
            s = self.visit(s)
            if isinstance(s, ast.If) and s.orelse and _ends_with_return(s.body):
                tail = s.orelse
                s.orelse = []
                out.append(s)
                out.extend(tail)
            else:
                out.append(s)
        return out

    def generic_visit(self, node):
        for fld, val in ast.iter_fields(node):
            if isinstance(val, list) and val and isinstance(val[0], ast.stmt):
                setattr(node, fld, self._fix(val))
            elif isinstance(val, list):
                setattr(node, fld, [self.visit(x) if isinstance(x, ast.AST) else x for x in val])
            elif isinstance(val, ast.AST):
                setattr(node, fld, self.visit(val))
        return node


class T5(ast.NodeTransformer):
    def _fix(self, body):
        out = []
        for s in body:
            s = self.visit(s)
            if isinstance(s, ast.Assign) and len(s.targets) == 1 and isinstance(s.targets[0], ast.Name) and isinstance(s.value, ast.ListComp) and len(s.value.generators) == 1 \
                    and not any(isinstance(x, ast.Name) and x.id == s.targets[0].id for x in ast.walk(s.value)):
                g = s.value.generators[0]
                nm = s.targets[0].id
                app = ast.Expr(value=ast.Call(func=ast.Attribute(value=ast.Name(id=nm, ctx=ast.Load()), attr="append", ctx=ast.Load()), args=[s.value.elt], keywords=[]))
                inner = [app]
                for c in reversed(g.ifs):
                    inner = [ast.If(test=c, body=inner, orelse=[])]
                out.append(ast.Assign(targets=[ast.Name(id=nm, ctx=ast.Store())], value=ast.List(elts=[], ctx=ast.Load())))
                out.append(ast.For(target=g.target, iter=g.iter, body=inner, orelse=[]))
            else:
                out.append(s)
        return out

    generic_visit = T4.generic_visit


class T6(ast.NodeTransformer):
    def visit_Compare(self, node):
        self.generic_visit(node)
        if len(node.ops) == 1 and isinstance(node.ops[0], (ast.Lt, ast.LtE, ast.Gt, ast.GtE, ast.Eq, ast.NotEq)):
            mirror = {ast.Lt: ast.Gt, ast.LtE: ast.GtE, ast.Gt: ast.Lt, ast.GtE: ast.LtE, ast.Eq: ast.Eq, ast.NotEq: ast.NotEq}[type(node.ops[0])]
            return ast.Compare(left=node.comparators[0], ops=[mirror()], comparators=[node.left])
        return node


TRANSFORMS = [("T1-invert-ifs", T1), ("T2-temp-returns", T2), ("T3-augassign", T3), ("T4-early-return", T4), ("T5-comp-to-loop", T5), ("T6-mirror-compare", T6)]


def main():
    only = sys.argv[1] if len(sys.argv) > 1 else None
    repo = Repo()
    tally = {k: [0, 0, 0] for k, _ in TRANSFORMS}   # changed, proven, not proven
    bad = []
    for m in repo.all_modules():
        tree = ast.parse(m.source)
        consts = module_consts(tree)
        for fn in [n for n in ast.walk(tree) if isinstance(n, (ast.FunctionDef, ast.AsyncFunctionDef))]:
            if only and only not in "%s:%s" % (m.rel, fn.name):
                continue
            try:
                base = normal_form(fn, consts)
            except Unsupported:
                continue
            for name, T in TRANSFORMS:
                f2 = copy.deepcopy(fn)
                t = T()
                f2 = t.generic_visit(f2) if name != "T2-temp-returns" else t._top(f2)
                ast.fix_missing_locations(f2)
                if ast.dump(f2) == ast.dump(fn):
                    continue
                tally[name][0] += 1
                try:
                    ok = normal_form(f2, consts) == base
                except Unsupported:
                    ok = False
                tally[name][1 if ok else 2] += 1
                if not ok:
                    bad.append((name, m.rel, fn.name, fn.lineno))
    for k, (c, p, n) in tally.items():
        print("%-18s functions changed %4d   proven equivalent %4d   not proven %3d" % (k, c, p, n))
    for b in bad[:60]:
        print("NOT-PROVEN %s %s:%s (line %d)" % b)


if __name__ == "__main__":
    main()
