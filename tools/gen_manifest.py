#!/venv/bin/python
"""Regenerate /verif/MANIFEST.json from the property modules that exist."""
import json
import os
import sys

HERE = os.path.dirname(os.path.dirname(os.path.abspath(__file__)))
sys.path.insert(0, HERE)
from sa import props  # noqa: E402

NA = {}

ENGINES = [
    dict(name="E0 core", path="sa/core.py", kind_free_text="repository model (ast), anchors by qualified name, rule context, evidence, known findings"),
    dict(name="E1 tables", path="sa/tables.py", kind_free_text="finite-language view of regex syntax trees; embedded IUPAC/CODATA/roman reference tables; literal folding in sa/astu.py"),
    dict(name="E2 dims", path="sa/dims.py", kind_free_text="units-of-measure abstract interpreter (dimension monomials with symbolic exponents, unit-scale tracking)"),
    dict(name="E3 cfg", path="sa/cfg.py", kind_free_text="statement-level CFG, must-pass-through, guard chains, mode pruning"),
    dict(name="E4 linform", path="sa/astu.py", kind_free_text="linear forms and monomials over opaque atoms; nested canonical sum-of-products form (canon_expr)"),
    dict(name="E4b rational normal form", path="sa/ratform.py", kind_free_text="exact rational normal form (quotient of expanded polynomials over atoms) with inlined temporaries; algebraic identity by cross-multiplication"),
    dict(name="E5 siblings", path="sa/props", kind_free_text="extracted-fact comparison of sibling implementations"),
    dict(name="selftest", path="sa/selftest.py", kind_free_text="in-memory mutants and twins for every rule (thorough tier)"),
]


def main():
    checks = []
    na = []
    served = {e["name"]: [] for e in ENGINES}
    for i in range(1, 21):
        pid = "C%02d" % i
        if pid in NA:
            na.append(dict(property_id=pid, reason=NA[pid]))
            continue
        try:
            pm = props.load(pid)
        except ImportError:
            na.append(dict(property_id=pid, reason="static checker for this property is designed (DESIGN.md section 3) but not yet built; not claimed until it runs"))
            continue
        for e in getattr(pm, "ENGINES", ["E0 core"]):
            served.setdefault(e, []).append(pid)
        checks.append(dict(
            property_id=pid,
            quick_cmd="/venv/bin/python -m sa %s --tier quick" % pid,
            thorough_cmd="/venv/bin/python -m sa %s --tier thorough" % pid,
            evidence_file="/verif/evidence/%s.json" % pid,
            replay_cmd_template="/venv/bin/python -m sa %s --replay {path}" % pid,
            engine=", ".join(getattr(pm, "ENGINES", ["E0 core"])),
            level_claimed=dict(
                category="other",
                text=("Static analysis, partial claim: decides the structural clauses that are necessary conditions of the "
                      "property on every path/entry of the anchored constructs (exhaustive over the finite set of rule "
                      "instances), not the runtime behaviour itself. " + pm.CLAIM),
                design_ref="DESIGN.md section 3, %s" % pid,
            ),
            level_note=("Trusted: Python semantics of the inspected constructs, third-party libraries (pyparsing, sympy, "
                        "numpy, quantities, pyodesys/pyneqsys), the embedded reference tables. Does not decide: " + pm.DOES_NOT_DECIDE),
            technique=getattr(pm, "TECHNIQUE", "custom ast-based static analysis"),
        ))
    engines = []
    for e in ENGINES:
        d = dict(e)
        d["serves_properties"] = sorted(set(served.get(e["name"], []))) if e["name"] != "selftest" else [c["property_id"] for c in checks]
        if e["name"] == "E0 core":
            d["serves_properties"] = [c["property_id"] for c in checks]
        engines.append(d)
    man = dict(
        version=1,
        setup_cmd="/venv/bin/python -c \"import ast, sys; sys.path.insert(0, '/verif'); import sa.core, sa.cfg, sa.astu, sa.tables; print('sa ready')\"",
        hooks=dict(
            guard="BJODAH_CHEMPY_VERIF",
            enable="none needed: the checks read /repo/chempy/**/*.py as text; no instrumentation of /repo exists (guard variable unused)",
            baseline_off_cmd="cd /repo && /venv/bin/python -m pytest -ra -q -p no:cacheprovider --timeout=900 --continue-on-collection-errors",
            source_commits=[],
            add_only=True,
        ),
        engines=engines,
        checks=checks,
        not_applicable=na,
        notes=("Technique family: static analysis only. Commands run from /verif, read /repo's working tree at call time, "
               "exit 0 holds / 1 VIOLATION / 2 ANALYSIS-ERROR (undecided; never a pass). Known findings: /verif/known_findings.json."),
    )
    with open(os.path.join(HERE, "MANIFEST.json"), "w") as fh:
        json.dump(man, fh, indent=1)
        fh.write("\n")
    print("MANIFEST.json: %d checks, %d not_applicable" % (len(checks), len(na)))


if __name__ == "__main__":
    main()
