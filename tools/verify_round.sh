#!/bin/bash
# verify_round.sh <root> [jobs]: for every <root>/<ID>/{break,refactor1,refactor2}/patch.diff run verify_seed.sh / verify_refactor.sh (fresh scratch
# worktree each, removed afterwards), write verify.log next to the patch and print one summary line per patch
ROOT=$1; JOBS=${2:-5}
one() {
  d=$1; id=$(basename $(dirname $d)); kind=$(basename $d)
  [ -f $d/patch.diff ] || { echo "$id-$kind NO-PATCH"; return; }
  if [ ! -f $d/verify.log ] || [ -n "$FORCE" ]; then
    if [[ "$kind" == break* ]]; then /verif/tools/verify_seed.sh $d r_${id}_$kind > $d/verify.log 2>&1; else /verif/tools/verify_refactor.sh $d r_${id}_$kind > $d/verify.log 2>&1; fi
  fi
  suite=$(grep -A1 "== suite with change" $d/verify.log | tail -1 | cut -d, -f1-2)
  dw=$(grep -A4 "== demo with change" $d/verify.log | grep "^exit=" | head -1)
  do=$(grep -A4 "== demo without change" $d/verify.log | grep "^exit=" | head -1)
  caught=$(grep -E "^--- C[0-9]+ rc=" $d/verify.log | tr '\n' ' ')
  first=$(grep -E "^chempy|ANALYSIS-ERROR" $d/verify.log | head -1 | cut -c1-200)
  echo "$id-$kind suite=[$suite] with:$dw without:$do alarms=[$caught] $first"
}
export -f one
ls -d $ROOT/C*/break $ROOT/C*/breakA $ROOT/C*/breakB $ROOT/C*/refactor1 $ROOT/C*/refactor2 2>/dev/null | xargs -P $JOBS -I{} bash -c 'one {}'
