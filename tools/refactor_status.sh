#!/bin/bash
# usage: refactor_status.sh [outdir]   -- for every saved behaviour-preserving refactoring: scratch copy of /repo's tree, apply, run all
# checks (no suite run; the suite result was established when the patch was saved), list alarms and the functions not proven equivalent.
OUT=${1:-/tmp/rstat}; mkdir -p $OUT
one() {
  d=$1; OUT=$2; L=$(basename $d); WT=/tmp/rs_$L
  rm -rf $WT; mkdir -p $WT; (cd /repo && git archive HEAD) | tar -x -C $WT
  if ! (cd $WT && patch -s -p1 < $d/patch.diff); then echo "$L PATCH-FAILS" > $OUT/$L.txt; rm -rf $WT; return; fi
  cd /verif
  { for p in C01 C02 C03 C04 C05 C06 C07 C08 C09 C10 C11 C12 C13 C14 C15 C16 C17 C18 C19 C20; do
      out=$(SA_REPO=$WT SA_NO_EVIDENCE=1 /venv/bin/python -m sa $p --tier thorough --no-selftest 2>&1); rc=$?
      if [ $rc -ne 0 ]; then echo "--- $p rc=$rc"; echo "$out" | grep -E "^chempy|ANALYSIS-ERROR" | cut -c1-300 | head -6; fi
    done
    SA_REPO=$WT /venv/bin/python - <<P
import os, sys, subprocess
sys.path.insert(0, '/verif')
from sa import core
files = [l[6:].strip() for l in open('$d/patch.diff') if l.startswith('+++ b/')]
repo = core.Repo("$WT")
for f in files:
    m = repo.mod(f)
    eq = getattr(m, 'equiv', {})
    for q, s in sorted(eq.items()):
        if s != 'identical':
            print('FUNC', f, q, s)
P
  } > $OUT/$L.txt 2>&1
  rm -rf $WT
}
export -f one
ls -d /verif/seeded_refactors/*/ | xargs -P 14 -I{} bash -c 'one {} '$OUT
grep -L -- "^---" $OUT/*.txt | wc -l
