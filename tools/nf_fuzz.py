#!/venv/bin/python
"""Differential fuzzer for the normaliser (sa/nf.py): soundness of "equal normal forms  =>  same behaviour".

Random small functions are generated over a fixed vocabulary (ints a, b; a list xs; a dict d; effect call emit(v); local list ys), a random
behaviour-preserving rewrite is applied (tools/nf_twins.py's transforms and some more), then one random *mutation* (operator, constant, dropped
statement, swapped arms, negated test ...).  Whenever the normaliser declares original and mutant equal, both are executed on a grid of inputs
(return value, emit trace, final xs / d, exception type are compared): a difference is an unsoundness of the normaliser and is printed with the
two sources.  (These toy functions are generated here; nothing of /repo is executed.)  Also counted: rewrites not seen through (incompleteness).

usage: tools/nf_fuzz.py [n_programs] [seed]
"""
import ast
import copy
import itertools
import os
import random
import sys

sys.path.insert(0, os.path.dirname(os.path.dirname(os.path.abspath(__file__))))
sys.path.insert(0, os.path.dirname(os.path.abspath(__file__)))
os.environ["SA_NO_REFEQ"] = "1"
from sa.nf import normal_form, Unsupported  # noqa: E402
import nf_twins  # noqa: E402

R = random.Random()


# ------------------------------------------------------------------------------------------------------------ generator
class Gen:
    def __init__(self):
        self.ints = ["a", "b"]
        self.tmp = 0
        self.have_ys = False

    def const(self):
        return str(R.choice([-1, 0, 1, 2, 3]))

    def iexpr(self, depth=0):
        r = R.random()
        if depth > 2 or r < 0.3:
            return R.choice(self.ints + [self.const()])
        if r < 0.55:
            return "(%s %s %s)" % (self.iexpr(depth + 1), R.choice(["+", "-", "*"]), self.iexpr(depth + 1))
        if r < 0.62:
            return "(-%s)" % self.iexpr(depth + 1)
        if r < 0.70:
            return "%s(%s, %s)" % (R.choice(["min", "max"]), self.iexpr(depth + 1), self.iexpr(depth + 1))
        if r < 0.76:
            return "abs(%s)" % self.iexpr(depth + 1)
        if r < 0.82:
            return "len(xs)"
        if r < 0.88:
            return "d.get(%s, %s)" % (self.iexpr(depth + 1), self.const())
        if r < 0.89:
            return "pf(%s)" % self.iexpr(depth + 1)
        if r < 0.91:
            return "%s(%s)" % (R.choice(["twice", "clip"]), self.iexpr(depth + 1))
        if r < 0.94:   # and / or as a value
            return "(%s %s %s)" % (R.choice([self.iexpr(depth + 1), "(not %s)" % self.iexpr(depth + 1), "(%s)" % self.cond(depth + 1)]), R.choice(["and", "or"]), self.iexpr(depth + 1))
        return "(%s if %s else %s)" % (self.iexpr(depth + 1), self.cond(depth + 1), self.iexpr(depth + 1))

    def cond(self, depth=0):
        if depth == 0:
            seen = self.__dict__.setdefault("seen_conds", [])
            if seen and R.random() < 0.15:
                return R.choice(seen)       # the same test again (decided on the path, unless something it mentions changed)
            if R.random() < 0.03:
                return R.choice(["True", "False", "not True"])
            c = self._cond(0)
            seen.append(c)
            return c
        return self._cond(depth)

    def _cond(self, depth=0):
        r = R.random()
        if depth > 2 or r < 0.5:
            return "%s %s %s" % (self.iexpr(depth + 1), R.choice(["<", "<=", ">", ">=", "==", "!="]), self.iexpr(depth + 1))
        if r < 0.6:
            return "not (%s)" % self.cond(depth + 1)
        if r < 0.8:
            return "(%s) %s (%s)" % (self.cond(depth + 1), R.choice(["and", "or"]), self.cond(depth + 1))
        if r < 0.9:
            return "%s in xs" % self.iexpr(depth + 1)
        return "%s %s d" % (self.iexpr(depth + 1), R.choice(["in", "not in"]))

    def newvar(self):
        self.tmp += 1
        return "t%d" % self.tmp

    def newvar_n(self):
        self.tmp += 1
        return self.tmp

    def block(self, depth, in_loop, n=None):
        out = []
        for _ in range(n or R.randint(1, 4)):
            out.extend(self.stmt(depth, in_loop))
        return out

    def stmt(self, depth, in_loop):
        r = R.random()
        ind = lambda lines: ["    " + l for l in lines]
        if r < 0.25:
            if R.random() < 0.5 or len(self.ints) > 5:
                v = R.choice(self.ints)
            else:
                v = self.newvar()
            line = "%s = %s" % (v, self.iexpr())
            if v not in self.ints:
                self.ints.append(v)
            return [line]
        if r < 0.33:
            return ["%s %s= %s" % (R.choice(self.ints), R.choice(["+", "-", "*"]), self.iexpr())]
        if r < 0.43:
            return ["emit(%s)" % self.iexpr()]
        if r < 0.50:
            return ["d[%s] = %s" % (self.iexpr(), self.iexpr())]
        if r < 0.56:
            self.have_ys = True
            return ["ys.append(%s)" % self.iexpr()]
        if r < 0.60:
            return ["d.setdefault(%s, %s)" % (self.iexpr(), self.iexpr())]
        if r < 0.80 and depth < 2:
            saved = list(self.ints)
            a = self.block(depth + 1, in_loop, R.randint(1, 3))
            ints_a = self.ints
            self.ints = list(saved)
            lines = ["if %s:" % self.cond()] + ind(a)
            if R.random() < 0.6:
                b = self.block(depth + 1, in_loop, R.randint(1, 3))
                lines += ["else:"] + ind(b)
                self.ints = [v for v in ints_a if v in self.ints]   # defined on both paths
            else:
                self.ints = saved
            return lines
        if r < 0.90 and depth < 2:
            saved = list(self.ints)
            v = self.newvar()
            rr = R.random()
            if rr < 0.15:    # a loop over a generator expression (consumed item by item)
                w = self.newvar()
                self.ints.append(w)
                e = self.iexpr(1)
                c = (" if %s" % self.cond(1)) if R.random() < 0.4 else ""
                self.ints.remove(w)
                head = "for %s in (%s for %s in xs%s):" % (v, e, w, c)
                self.ints.append(v)
            elif rr < 0.5:
                head = "for %s in xs:" % v
                self.ints.append(v)
            else:
                i = self.newvar()
                head = "for %s, %s in enumerate(xs):" % (i, v)
                self.ints += [i, v]
            body = self.block(depth + 1, True, R.randint(1, 3))
            self.ints = saved
            return [head] + ind(body)
        if r < 0.92 and in_loop:
            return ["if %s:" % self.cond()] + ind([R.choice(["break", "continue"])])
        if r < 0.94:
            return ["if %s:" % self.cond()] + ind(["return %s" % self.iexpr()])
        return self.extra(depth, in_loop)

    def extra(self, depth, in_loop):
        """rarer constructs"""
        ind = lambda lines: ["    " + l for l in lines]
        k = R.randrange(32)
        if k == 28:      # a mutating call whose value is used, next to reads of the same object's state
            v, w = self.newvar(), self.newvar()
            self.ints += [v, w]
            form = R.choice(["%s = ys.append(%s) or len(ys)", "%s = (ys.extend([%s]), len(ys))[1]", "%s = len(ys) + (ys.pop() if ys else %s)"])
            return ["%s = len(ys)" % v, form % (w, self.iexpr())]
        if k == 29:      # a call made for its effect on what it is given
            v = self.newvar()
            self.ints.append(v)
            return ["%s = len(ys)" % v, "grow(ys, %s)" % self.iexpr()] if R.random() < 0.5 else ["grow(ys, %s)" % self.iexpr(), "%s = len(ys)" % v]
        if k == 30:      # mutation through the variable of a loop over a container's items
            v = self.newvar()
            self.ints.append(v)
            return ["rows = [[%s, 1], [2, %s]]" % (self.iexpr(), self.iexpr()), "%s = rows[0][1]" % v, "for row in rows:"] + ind(["row[1] *= %s" % self.const()]) + ["emit(rows[0][1] + %s)" % v]
        if k == 31:      # return / test containing a mutation
            v = self.newvar()
            self.ints.append(v)
            return ["%s = len(ys)" % v, "if ys.append(%s) is None and len(ys) > %s:" % (self.iexpr(), self.const())] + ind(["emit(%s)" % v])
        if k == 25:      # alias of a fresh list that is only mutated through the alias
            v = self.newvar()
            self.ints.append(v)
            return ["ws = []", "vs = ws", "vs.append(%s)" % self.iexpr(), "%s = len(ws)" % v]
        if k == 26:      # chained assignment of one fresh object
            v = self.newvar()
            self.ints.append(v)
            return ["ps = qs = []", "ps.append(%s)" % self.iexpr(), "%s = len(qs) + len(ps)" % v]
        if k == 27:      # a container of aliases
            v = self.newvar()
            self.ints.append(v)
            return ["ms = []", "both = (ms, ys)", "for coll in both:"] + ind(["coll.append(%s)" % self.iexpr()]) + ["%s = len(ms)" % v]
        if k == 19:      # attribute of an object: store, then read
            return ["o.n = %s" % self.iexpr(), "emit(o.n + %s)" % self.iexpr()] if R.random() < 0.5 else ["emit(o.n)", "o.n %s= %s" % (R.choice(["+", "-", "*"]), self.iexpr())]
        if k == 20:      # dict built in a loop, then read
            x, v = self.newvar(), self.newvar()
            saved = list(self.ints)
            self.ints.append(x)
            e = self.iexpr(1)
            self.ints = saved
            self.ints.append(v)
            return ["r = {}", "for %s in xs:" % x] + ind(["r[%s] = %s" % (x, e)]) + ["%s = len(r) + sum(r.values())" % v]
        if k == 21:      # extend with a generator
            x = self.newvar()
            saved = list(self.ints)
            self.ints.append(x)
            e = self.iexpr(1)
            c = (" if %s" % self.cond(1)) if R.random() < 0.5 else ""
            self.ints = saved
            return ["ys.extend(%s for %s in xs%s)" % (e, x, c)]
        if k == 22 and depth < 2:      # context manager that reports entering and leaving
            return ["with cm(%s):" % self.const()] + ind(self.block(depth + 1, in_loop, R.randint(1, 2)))
        if k == 23 and depth < 2:      # try / finally
            return ["try:"] + ind(self.block(depth + 1, in_loop, R.randint(1, 2))) + ["finally:"] + ind(["emit(%s)" % self.iexpr()])
        if k == 24:      # string iteration
            c_ = self.newvar()
            return ["for %s in 'ab':" % c_] + ind(["emit(%s + str(%s))" % (c_, self.iexpr())])
        if k in (17, 18) and depth < 2:    # case analysis on an integer (len / count)
            subj = R.choice(["len(xs)", "xs.count(%s)" % self.const(), "len(d)"])
            t1 = "%s %s %s" % (subj, R.choice(["==", "<", ">", "<=", ">=", "!="]), R.choice(["0", "1", "2"]))
            t2 = "%s %s %s" % (subj, R.choice(["==", "<", ">", "<=", ">="]), R.choice(["0", "1", "2", "3"]))
            a_, b_, c_ = self.block(depth + 1, in_loop, 1), self.block(depth + 1, in_loop, 1), self.block(depth + 1, in_loop, 1)
            if R.random() < 0.5:
                return ["if %s:" % t1] + ind(a_) + ["elif %s:" % t2] + ind(b_) + ["else:"] + ind(c_)
            return ["if %s:" % t1] + ind(["if %s:" % t2] + ind(a_) + ["else:"] + ind(b_)) + ["else:"] + ind(c_)
        if k in (15, 16):    # formatted strings
            forms = ["emit('%%s|%%r' %% (%s, %s))" % (self.iexpr(), self.iexpr()), "emit('n=%%d v=%%s' %% (len(xs), %s))" % self.iexpr(), "emit('{}-{}'.format(%s, %s))" % (self.iexpr(), self.iexpr()),
                     "emit('v%%s' %% %s)" % R.choice(self.ints), "emit('100%%%% %%s' %% %s)" % self.iexpr()]
            return [R.choice(forms)]
        if k == 9:      # explicit raise under a condition
            return ["if %s:" % self.cond()] + ind(["raise %s(%s)" % (R.choice(["ValueError", "KeyError"]), self.iexpr())])
        if k == 10 and not in_loop:     # witness search returning from inside the loop
            x = self.newvar()
            saved = list(self.ints)
            self.ints.append(x)
            c = self.cond(1)
            self.ints = saved
            return ["if %s:" % self.cond()] + ind(["for %s in xs:" % x] + ind(["if %s:" % c] + ind(["return %s" % R.choice(["True", "False", x])])) + ["return %s" % R.choice(["True", "False", "None"])])
        if k == 11:     # closure reading and a local, called later (the local may change in between)
            v = R.choice(self.ints)
            h = "cl%d" % self.newvar_n()
            lines = ["def %s(q):" % h] + ind(["return q + %s" % v])
            if R.random() < 0.5:
                lines += ["%s = %s" % (v, self.iexpr())]
            w = self.newvar()
            lines += ["%s = %s(%s)" % (w, h, self.iexpr())]
            self.ints.append(w)
            return lines
        if k == 12:     # lambda
            v = R.choice(self.ints)
            w = self.newvar()
            self.ints.append(w)
            return ["%s = (lambda q: q * %s)(%s)" % (w, v, self.iexpr())]
        if k == 13:     # any / all
            x = self.newvar()
            saved = list(self.ints)
            self.ints.append(x)
            c = self.cond(1)
            self.ints = saved
            return ["if %s(%s for %s in xs):" % (R.choice(["any", "all"]), c, x)] + ind(self.block(depth + 1, in_loop, 1))
        if k == 14:     # loop over a literal zip
            p_, q_ = self.newvar(), self.newvar()
            saved = list(self.ints)
            self.ints += [p_, q_]
            body = self.block(depth + 1, True, R.randint(1, 2))
            self.ints = saved
            return ["for %s, %s in zip((1, 2), (%s, %s)):" % (p_, q_, self.const(), self.const())] + ind(body)
        if k == 0:      # alias of the local list, mutated through the alias
            return ["zs = ys", "zs.append(%s)" % self.iexpr()]
        if k == 1:      # tuple unpacking
            v, w = self.newvar(), self.newvar()
            line = "%s, %s = %s, %s" % (v, w, self.iexpr(), self.iexpr()) if R.random() < 0.5 else "%s, %s = pair(%s)" % (v, w, self.iexpr())
            self.ints += [v, w]
            return [line]
        if k == 2 and R.random() < 0.35:      # two-target comprehension over pairs; the variable names are re-used from one to the next (shadowing)
            v = self.newvar()
            saved = list(self.ints)
            self.ints += ["ck", "cv"]
            e = self.iexpr(1)
            prev = [x_ for x_ in getattr(self, "comp_results", []) if x_ in saved]
            if prev and R.random() < 0.6:     # an earlier comprehension's result inside this one: after inlining, a comprehension nested in a comprehension
                e = "%s %s %s" % (e, R.choice("+-*"), R.choice(prev))
            c = (" if %s" % self.cond(1)) if R.random() < 0.4 else ""
            self.ints = saved
            src = R.choice(["zip(xs, xs[1:])", "enumerate(xs)", "sorted(d.items())"])
            kind = R.choice(["sum([%s for ck, cv in %s%s])", "sum(%s for ck, cv in %s%s)", "len({ck: %s for ck, cv in %s%s})"])
            self.ints.append(v)
            self.comp_results = getattr(self, "comp_results", []) + [v]
            return ["%s = %s" % (v, kind % (e, src, c))]
        if k == 2:      # comprehension / reduction
            v = self.newvar()
            x = self.newvar()
            saved = list(self.ints)
            self.ints.append(x)
            e = self.iexpr(1)
            c = (" if %s" % self.cond(1)) if R.random() < 0.5 else ""
            self.ints = saved
            kind = R.choice(["sum([%s for %s in xs%s])", "len([%s for %s in xs%s])", "sum(%s for %s in xs%s)"])
            if R.random() < 0.25:    # the source filtered by filter(...)
                flt = R.choice(["filter(None, xs)", "filter(lambda q_: q_ > %s, xs)" % self.const(), "filter(lambda q_: q_ %% 2 == 0, xs)"])
                kind = kind.replace(" in xs", " in " + flt.replace("%", "%%"))
            self.ints.append(v)
            return ["%s = %s" % (v, kind % (e, x, c))]
        if k == 3 and depth < 2:      # try / except around a call that may raise
            v = self.newvar()
            body = ["%s = chk(%s)" % (v, self.iexpr())] + (self.block(depth + 1, in_loop, 1) if R.random() < 0.5 else [])
            handler = ["%s = %s" % (v, self.iexpr())] + (["emit(%s)" % self.iexpr()] if R.random() < 0.5 else [])
            self.ints.append(v)
            return ["try:"] + ind(body) + ["except ValueError:"] + ind(handler)
        if k == 4 and depth < 2:      # bounded while loop
            i = self.newvar()
            body = self.block(depth + 1, True, R.randint(1, 2))
            return ["%s = 0" % i, "while %s < %s:" % (i, R.choice(["2", "3", "len(xs)"]))] + ind(["%s += 1" % i] + body)
        if k == 5 and depth < 2:      # search loop with else
            x = self.newvar()
            saved = list(self.ints)
            self.ints.append(x)
            c = self.cond(1)
            self.ints = saved
            return ["for %s in xs:" % x] + ind(["if %s:" % c] + ind(["break"])) + ["else:"] + ind(self.block(depth + 1, in_loop, 1))
        if k == 6:      # accumulate into a fresh list, then use it
            v, x = self.newvar(), self.newvar()
            saved = list(self.ints)
            self.ints.append(x)
            e = self.iexpr(1)
            self.ints = saved
            self.ints.append(v)
            return ["acc = []", "for %s in xs:" % x] + ind(["acc.append(%s)" % e]) + ["%s = len(acc) + sum(acc)" % v]
        if k == 7:      # division / power: exact arithmetic on Fractions
            v = R.choice(self.ints)
            return ["%s = %s %s" % (v, self.iexpr(), R.choice(["/ 2", "/ 3", "** 2", "* 0.5"]))]
        # dict update in a loop
        x = self.newvar()
        saved = list(self.ints)
        self.ints.append(x)
        e = self.iexpr(1)
        self.ints = saved
        return ["for %s in xs:" % x] + ind(["if %s in d:" % x] + ind(["d[%s] += %s" % (x, e)]) + ["else:"] + ind(["d[%s] = %s" % (x, e)]))

    def function(self):
        body = ["ys = []"] + self.block(0, False, R.randint(2, 5)) + ["return (%s, ys)" % self.iexpr()]
        src = "def f(a, b, xs, d, o=None):\n" + "\n".join("    " + l for l in body) + "\n"
        if R.random() < 0.15:
            import re
            src = re.sub(r"^(\s*)emit\((.*)\)$", r"\1yield \2", src, flags=re.M)   # a generator: the effects are what it yields
        return src


# ------------------------------------------------------------------------------------------------------------ rewrites (behaviour preserving)
class DeMorgan(ast.NodeTransformer):
    """De Morgan on the tests of if / while / conditional expressions (as a value, `a or b` is not `not (not a and not b)`)"""
    def _dual(self, t):
        if isinstance(t, ast.BoolOp) and R.random() < 0.7:
            dual = ast.Or() if isinstance(t.op, ast.And) else ast.And()
            return ast.UnaryOp(op=ast.Not(), operand=ast.BoolOp(op=dual, values=[ast.UnaryOp(op=ast.Not(), operand=self._dual(v)) for v in t.values]))
        if isinstance(t, ast.UnaryOp) and isinstance(t.op, ast.Not):
            return ast.UnaryOp(op=ast.Not(), operand=self._dual(t.operand))
        return t

    def visit_If(self, node):
        self.generic_visit(node)
        node.test = self._dual(node.test)
        return node

    visit_While = visit_If

    def visit_IfExp(self, node):
        self.generic_visit(node)
        node.test = self._dual(node.test)
        return node


class NegCompare(ast.NodeTransformer):
    """a < b  ->  not (a >= b)   (ints only in this vocabulary)"""
    def visit_Compare(self, node):
        self.generic_visit(node)
        comp = {ast.Lt: ast.GtE, ast.LtE: ast.Gt, ast.Gt: ast.LtE, ast.GtE: ast.Lt, ast.Eq: ast.NotEq, ast.NotEq: ast.Eq, ast.In: ast.NotIn, ast.NotIn: ast.In}
        if len(node.ops) == 1 and type(node.ops[0]) in comp and R.random() < 0.6:
            return ast.UnaryOp(op=ast.Not(), operand=ast.Compare(left=node.left, ops=[comp[type(node.ops[0])]()], comparators=node.comparators))
        return node


class MinMaxToIf(ast.NodeTransformer):
    def visit_Call(self, node):
        self.generic_visit(node)
        if isinstance(node.func, ast.Name) and node.func.id in ("min", "max") and len(node.args) == 2 and R.random() < 0.7:
            a, b = node.args
            op = ast.Lt() if node.func.id == "min" else ast.Gt()
            return ast.IfExp(test=ast.Compare(left=copy.deepcopy(b), ops=[op], comparators=[copy.deepcopy(a)]), body=b, orelse=a)
        return node


class TempIntro(ast.NodeTransformer):
    """the value of an assignment / emit first goes to a fresh temporary"""
    k = 0

    def visit_Assign(self, node):
        if isinstance(node.targets[0], ast.Name) and R.random() < 0.5 and not isinstance(node.value, (ast.Name, ast.Constant, ast.List)):
            TempIntro.k += 1
            nm = "_tmp%d" % TempIntro.k
            return [ast.Assign(targets=[ast.Name(id=nm, ctx=ast.Store())], value=node.value), ast.Assign(targets=node.targets, value=ast.Name(id=nm, ctx=ast.Load()))]
        return node


class IfExpToIf(ast.NodeTransformer):
    """x = (p if c else q)  ->  if c: x = p else: x = q"""
    def visit_Assign(self, node):
        if isinstance(node.targets[0], ast.Name) and isinstance(node.value, ast.IfExp) and R.random() < 0.8:
            v = node.value
            return ast.If(test=v.test, body=[ast.Assign(targets=copy.deepcopy(node.targets), value=v.body)], orelse=[ast.Assign(targets=copy.deepcopy(node.targets), value=v.orelse)])
        return node


class ExtractHelper(ast.NodeTransformer):
    """emit(e) -> a nested procedure called with the free names of e"""
    k = 0

    def __init__(self):
        self.helpers = []

    def visit_Expr(self, node):
        if isinstance(node.value, ast.Call) and isinstance(node.value.func, ast.Name) and node.value.func.id == "emit" and R.random() < 0.6:
            e = node.value.args[0]
            names = sorted({x.id for x in ast.walk(e) if isinstance(x, ast.Name) and x.id not in _VOCAB and not x.id.startswith("cl")})
            ExtractHelper.k += 1
            hn = "_helper%d" % ExtractHelper.k
            fd = ast.parse("def %s(%s):\n    emit(0)\n" % (hn, ", ".join(names))).body[0]
            fd.body[0].value.args[0] = e
            self.helpers.append(fd)
            return ast.Expr(value=ast.Call(func=ast.Name(id=hn, ctx=ast.Load()), args=[ast.Name(id=n, ctx=ast.Load()) for n in names], keywords=[]))
        return node


class ToFString(ast.NodeTransformer):
    """'..%s..%r..' % (a, b) and '..{}..'.format(a) as f-strings ({a!s} or {a} at random, %d of len(xs) as {len(xs):d} or {len(xs)})"""
    def visit_BinOp(self, node):
        self.generic_visit(node)
        import re
        if isinstance(node.op, ast.Mod) and isinstance(node.left, ast.Constant) and isinstance(node.left.value, str) and R.random() < 0.8:
            parts = re.split(r"(%[srd]|%%)", node.left.value)
            args = list(node.right.elts) if isinstance(node.right, ast.Tuple) else [node.right]
            vals, k = [], 0
            for p_ in parts:
                if p_ == "%%":
                    vals.append(ast.Constant(value="%"))
                elif p_ in ("%s", "%r", "%d"):
                    a = args[k]
                    k += 1
                    if p_ == "%d":
                        spec = ast.JoinedStr(values=[ast.Constant(value="d")]) if R.random() < 0.5 else None
                        vals.append(ast.FormattedValue(value=a, conversion=-1, format_spec=spec))
                    else:
                        vals.append(ast.FormattedValue(value=a, conversion=114 if p_ == "%r" else R.choice([-1, 115]), format_spec=None))
                elif p_:
                    vals.append(ast.Constant(value=p_))
            return ast.JoinedStr(values=vals)
        return node


_VOCAB = ("min", "max", "abs", "len", "pf", "d", "xs", "sum", "chk", "pair", "any", "all", "zip", "emit", "ys", "zs", "acc", "o", "r", "cm", "str", "sorted", "ws", "vs", "ps", "qs", "ms", "both", "coll", "twice", "clip", "grow", "rows", "row", "ck", "cv", "filter", "q_")


class ExtractMutator(ast.NodeTransformer):
    """ys.append(e) / d[k] = v  ->  _helperN(ys, e) / _helperN(d, k, v): a procedure that mutates what it is given"""
    def __init__(self):
        self.helpers = []

    def visit_FunctionDef(self, node):
        if node.name.startswith("cl") or node.name.startswith("_helper"):
            return node
        return self.generic_visit(node)

    def visit_Expr(self, node):
        v = node.value
        if isinstance(v, ast.Call) and isinstance(v.func, ast.Attribute) and v.func.attr == "append" and isinstance(v.func.value, ast.Name) and len(v.args) == 1 and R.random() < 0.6 \
                and not any(isinstance(x, (ast.Lambda, ast.Yield)) for x in ast.walk(v)):
            ExtractHelper.k += 1
            hn = "_helper%d" % ExtractHelper.k
            fd = ast.parse("def %s(c_, v_):\n    c_.append(v_)\n" % hn).body[0]
            self.helpers.append(fd)
            return ast.Expr(value=ast.Call(func=ast.Name(id=hn, ctx=ast.Load()), args=[v.func.value, v.args[0]], keywords=[]))
        return node

    def visit_Assign(self, node):
        t = node.targets[0]
        if len(node.targets) == 1 and isinstance(t, ast.Subscript) and isinstance(t.value, ast.Name) and R.random() < 0.6 \
                and not any(isinstance(x, (ast.Lambda, ast.Yield)) for x in ast.walk(node)):
            ExtractHelper.k += 1
            hn = "_helper%d" % ExtractHelper.k
            fd = ast.parse("def %s(c_, k_, v_):\n    c_[k_] = v_\n" % hn).body[0]
            self.helpers.append(fd)
            return ast.Expr(value=ast.Call(func=ast.Name(id=hn, ctx=ast.Load()), args=[ast.Name(id=t.value.id, ctx=ast.Load()), t.slice, node.value], keywords=[]))
        return node


class ExtractValueHelper(ast.NodeTransformer):
    """v = e  ->  v = _helperN(free names of e), the helper returning e -- written with an early return when e is a conditional expression, and as a
    loop-free or a looping procedure at random"""
    def __init__(self):
        self.helpers = []

    def visit_FunctionDef(self, node):
        if node.name.startswith("cl") or node.name.startswith("_helper"):
            return node
        return self.generic_visit(node)

    def visit_Lambda(self, node):
        return node

    def visit_Assign(self, node):
        if not (len(node.targets) == 1 and isinstance(node.targets[0], ast.Name)) or R.random() > 0.5:
            return node
        e = node.value
        if isinstance(e, (ast.Name, ast.Constant, ast.List, ast.Lambda)) or any(isinstance(x, (ast.Lambda, ast.ListComp, ast.GeneratorExp)) for x in ast.walk(e)):
            return node
        names = sorted({x.id for x in ast.walk(e) if isinstance(x, ast.Name) and x.id not in _VOCAB and not x.id.startswith("cl")})
        ExtractHelper.k += 1
        hn = "_helper%d" % ExtractHelper.k
        if isinstance(e, ast.IfExp):
            body = "    if c_:\n        return 1\n    return 2\n"
        elif R.random() < 0.3:
            body = "    r_ = 0\n    for i_ in (1,):\n        r_ = 3\n    return r_\n"
        else:
            body = "    return 0\n"
        fd = ast.parse("def %s(%s):\n%s" % (hn, ", ".join(names), body)).body[0]
        if isinstance(e, ast.IfExp):
            fd.body[0].test = e.test
            fd.body[0].body[0].value = e.body
            fd.body[1].value = e.orelse
        elif len(fd.body) == 3:
            fd.body[1].body[0].value = e
        else:
            fd.body[0].value = e
        self.helpers.append(fd)
        call = ast.Call(func=ast.Name(id=hn, ctx=ast.Load()), args=[ast.Name(id=n, ctx=ast.Load()) for n in names], keywords=[])
        return ast.Assign(targets=node.targets, value=call)


def rewrite(fn):
    """apply a random selection of behaviour-preserving rewrites; returns (new fn, helper defs to register)"""
    f2 = copy.deepcopy(fn)
    helpers = {}
    names = []
    choices = [("T1", nf_twins.T1), ("T3", nf_twins.T3), ("T4", nf_twins.T4), ("T6", nf_twins.T6), ("DeMorgan", DeMorgan), ("NegCompare", NegCompare),
               ("MinMaxToIf", MinMaxToIf), ("TempIntro", TempIntro), ("IfExpToIf", IfExpToIf), ("ExtractHelper", ExtractHelper), ("ExtractValueHelper", ExtractValueHelper), ("ToFString", ToFString), ("ExtractMutator", ExtractMutator)]
    for name, T in R.sample(choices, R.randint(1, 4)):
        t = T()
        f2 = t.generic_visit(f2)
        names.append(name)
        if name in ("ExtractHelper", "ExtractValueHelper", "ExtractMutator") and t.helpers:
            f2.body = t.helpers + f2.body
            for h in t.helpers:
                helpers[h.name] = h
    ast.fix_missing_locations(f2)
    # line numbers identify helper definitions (Normaliser._same_def): re-parse for consistent positions
    src = ast.unparse(f2)
    f3 = ast.parse(src).body[0]
    helpers = {n.name: n for n in ast.walk(f3) if isinstance(n, ast.FunctionDef) and n.name.startswith("_helper")}
    return f3, helpers, names


# ------------------------------------------------------------------------------------------------------------ mutations (behaviour changing, mostly)
def mutate(fn):
    f2 = copy.deepcopy(fn)
    sites = []
    for n in ast.walk(f2):
        if isinstance(n, ast.BinOp) and isinstance(n.op, (ast.Add, ast.Sub, ast.Mult)):
            sites.append(("binop", n))
        elif isinstance(n, ast.Compare) and len(n.ops) == 1:
            sites.append(("cmp", n))
        elif isinstance(n, ast.Constant) and isinstance(n.value, int) and not isinstance(n.value, bool):
            sites.append(("const", n))
        elif isinstance(n, ast.BoolOp):
            sites.append(("boolop", n))
        elif isinstance(n, ast.UnaryOp) and isinstance(n.op, ast.Not):
            sites.append(("not", n))
        elif isinstance(n, ast.If):
            sites.append(("if", n))
        elif isinstance(n, ast.IfExp):
            sites.append(("ifexp", n))
        elif isinstance(n, ast.Call) and isinstance(n.func, ast.Name) and n.func.id in ("min", "max"):
            sites.append(("minmax", n))
        elif isinstance(n, ast.Name) and isinstance(n.ctx, ast.Load) and n.id in ("a", "b"):
            sites.append(("name", n))
        elif isinstance(n, (ast.Break, ast.Continue)):
            sites.append(("jump", n))
        elif isinstance(n, ast.Name) and isinstance(n.ctx, ast.Load) and n.id in ("ck", "cv"):
            sites.append(("compname", n))
        if isinstance(n, ast.BinOp) and isinstance(n.op, (ast.Sub, ast.Div, ast.Pow)):
            sites.append(("swapoperands", n))
        for fld in ("body", "orelse"):
            lst = getattr(n, fld, None)
            if isinstance(lst, list) and len(lst) > 1 and isinstance(lst[0], ast.stmt):
                sites.append(("del:" + fld, n))
                sites.append(("swapstmts:" + fld, n))
    if not sites:
        return None, ""
    kind, n = R.choice(sites)
    if kind == "binop":
        n.op = R.choice([o for o in (ast.Add, ast.Sub, ast.Mult) if not isinstance(n.op, o)])()
    elif kind == "cmp":
        ops = [ast.Lt, ast.LtE, ast.Gt, ast.GtE, ast.Eq, ast.NotEq] if not isinstance(n.ops[0], (ast.In, ast.NotIn)) else [ast.In, ast.NotIn]
        n.ops = [R.choice([o for o in ops if not isinstance(n.ops[0], o)])()]
    elif kind == "const":
        n.value = n.value + R.choice([-1, 1])
    elif kind == "boolop":
        n.op = ast.Or() if isinstance(n.op, ast.And) else ast.And()
    elif kind == "not":
        n.op = ast.UAdd()   # drops the negation (UAdd on a bool keeps truthiness)
        n.operand = ast.Call(func=ast.Name(id="bool", ctx=ast.Load()), args=[n.operand], keywords=[])
    elif kind == "if":
        if n.orelse and R.random() < 0.5:
            n.body, n.orelse = n.orelse, n.body
        else:
            n.test = ast.UnaryOp(op=ast.Not(), operand=n.test)
    elif kind == "ifexp":
        n.body, n.orelse = n.orelse, n.body
    elif kind == "minmax":
        n.func.id = "max" if n.func.id == "min" else "min"
    elif kind == "name":
        n.id = "b" if n.id == "a" else "a"
    elif kind == "compname":
        n.id = "cv" if n.id == "ck" else "ck"
    elif kind == "swapoperands":
        n.left, n.right = n.right, n.left
    elif kind == "jump":
        n.__class__ = ast.Continue if isinstance(n, ast.Break) else ast.Break
    elif kind.startswith("del:"):
        lst = getattr(n, kind[4:])
        i = R.randrange(len(lst))
        if isinstance(lst[i], ast.FunctionDef):
            return None, ""
        del lst[i]
    elif kind.startswith("swapstmts:"):
        lst = getattr(n, kind[10:])
        i = R.randrange(len(lst) - 1)
        if isinstance(lst[i], ast.FunctionDef) or isinstance(lst[i + 1], ast.FunctionDef):
            return None, ""
        lst[i], lst[i + 1] = lst[i + 1], lst[i]
    ast.fix_missing_locations(f2)
    try:
        src = ast.unparse(f2)
        f3 = ast.parse(src).body[0]
    except Exception:
        return None, ""
    return f3, kind


# ------------------------------------------------------------------------------------------------------------ execution oracle
from fractions import Fraction as _Fr  # noqa: E402

GRID = list(itertools.product([_Fr(-1), _Fr(0), _Fr(2)], [_Fr(0), _Fr(1), _Fr(3)], [[], [_Fr(1)], [_Fr(2), _Fr(-1), _Fr(0)], [_Fr(0), _Fr(0), _Fr(3), _Fr(1)]],
                              [{}, {_Fr(0): _Fr(1), _Fr(2): _Fr(5), _Fr(-1): _Fr(0)}]))


def _chk(v):
    if v < 0:
        raise ValueError("negative")
    return v + 1


def _pair(v):
    return (v - 1, v * 2)


class _Timeout(BaseException):
    pass


def _alarm(*_a):
    raise _Timeout()


def behaviour(src):
    import signal
    signal.signal(signal.SIGALRM, _alarm)
    signal.setitimer(signal.ITIMER_REAL, 3.0)
    try:
        return _behaviour(src)
    except _Timeout:
        return ("timeout",)
    finally:
        signal.setitimer(signal.ITIMER_REAL, 0)


def _behaviour(src):
    out = []
    for a, b, xs, d in GRID:
        trace = []
        import contextlib
        import types

        @contextlib.contextmanager
        def _cm(tag, trace=trace):
            trace.append(("enter", tag))
            try:
                yield tag
            finally:
                trace.append(("exit", tag))
        obj = types.SimpleNamespace(n=a + 1)
        env = {"emit": trace.append, "pf": lambda v: v * v - 1, "chk": _chk, "pair": _pair, "cm": _cm}
        exec(PRELUDE, env)
        exec(PRELUDE_OPAQUE, env)
        try:
            env["Fr"] = _Fr
            exec(src.replace("0.5", "Fr(1, 2)"), env)   # exact arithmetic: the normaliser reasons over the reals
            xs2, d2 = list(xs), dict(d)
            try:
                r = env["f"](a, b, xs2, d2, obj)
                if isinstance(r, types.GeneratorType):
                    r = list(r)
                out.append(("ok", repr(r), tuple(trace), tuple(xs2), tuple(sorted(d2.items())), obj.n))
            except Exception as e:   # noqa
                out.append(("exc", type(e).__name__, tuple(trace), tuple(xs2), tuple(sorted(d2.items())), obj.n))
        except Exception as e:   # noqa
            return ("compile-error", type(e).__name__)
    return tuple(out)


def same_behaviour(x, y) -> bool:
    """equal on every input on which both finish or both raise; an input on which exactly one of them lets an exception escape is not held against the
    normaliser: it assumes that evaluating a side-effect free expression does not raise (a binding that is never used may be dropped, an expression may
    be evaluated later or on a path on which the program did not evaluate it)"""
    if x == y:
        return True
    if not (isinstance(x, tuple) and isinstance(y, tuple) and len(x) == len(y)) or (x and isinstance(x[0], str)) or (y and isinstance(y[0], str)):
        return False
    for p, q in zip(x, y):
        if p == q:
            continue
        if (p[0] == "exc") != (q[0] == "exc"):
            continue
        if p[0] == "exc" and q[0] == "exc" and p[1] == q[1]:
            continue   # same exception: how far the effects got before it is a matter of evaluation order of pure expressions
        return False
    return True


def nf_of(fn, helpers):
    """nf_of_ under a watchdog: a normalisation that does not finish is reported (and counted as unsupported)"""
    import signal
    signal.signal(signal.SIGALRM, _alarm)
    signal.setitimer(signal.ITIMER_REAL, 120.0)
    try:
        return nf_of_(fn, helpers)
    except _Timeout:
        print("NF-HANG (no result after 120 s)\n%s\n" % ast.unparse(fn))
        sys.stdout.flush()
        raise Unsupported("watchdog")
    finally:
        signal.setitimer(signal.ITIMER_REAL, 0)


PRELUDE = '''
def twice(v):
    return v + v


def clip(v):
    if v < 0:
        return 0
    w = v
    return w
'''
PRELUDE_OPAQUE = '''
def grow(seq, v):
    seq.append(v)
'''
_PRELUDE_HELPERS = {n.name: n for n in ast.parse(PRELUDE).body if isinstance(n, ast.FunctionDef)}


def nf_of_(fn, helpers):
    helpers = dict(_PRELUDE_HELPERS, **helpers)   # small module-level helpers that are the same on both sides are seen through (refeq.py does the same)
    """normal form of the function and, as units of their own (as refeq.py treats them), of the functions nested in it"""
    nested = []

    def rec(node):
        for ch in ast.iter_child_nodes(node):
            if isinstance(ch, ast.FunctionDef):
                if ch.name not in helpers:
                    nested.append((ch.name, normal_form(ch, {}, helpers)))
                rec(ch)
            elif not isinstance(ch, ast.Lambda):
                rec(ch)
    rec(fn)
    return (normal_form(fn, {}, helpers), tuple(sorted(nested, key=lambda kv: kv[0])))


def main():
    n = int(sys.argv[1]) if len(sys.argv) > 1 else 300
    seed = int(sys.argv[2]) if len(sys.argv) > 2 else 1
    R.seed(seed)
    stats = dict(programs=0, rewrites=0, rewrites_seen_through=0, mutants=0, same_nf=0, same_nf_equivalent=0, unsound=0, unsupported=0, rewrite_bug=0)
    for k in range(n):
        src = Gen().function()
        try:
            fn = ast.parse(src).body[0]
        except SyntaxError:
            continue
        stats["programs"] += 1
        try:
            base = nf_of(fn, {})
        except (Unsupported, RecursionError):
            stats["unsupported"] += 1
            continue
        base_beh = behaviour(src)
        if base_beh and base_beh[0] in ("compile-error", "timeout"):
            continue
        for _ in range(3):
            f2, helpers, rnames = rewrite(fn)
            src2 = ast.unparse(f2)
            beh2 = behaviour(src2)
            if beh2 != base_beh:
                stats["rewrite_bug"] += 1    # the fuzzer's own rewrite changed behaviour (e.g. a name use-before-def): not the normaliser's business
                if os.environ.get("NF_FUZZ_SHOW_REWRITE_BUGS"):
                    print("REWRITE-BUG %s\n%s\n--\n%s\n" % (rnames, src, src2))
                continue
            stats["rewrites"] += 1
            try:
                nf2 = nf_of(f2, helpers)
            except (Unsupported, RecursionError):
                stats["unsupported"] += 1
                continue
            if nf2 == base:
                stats["rewrites_seen_through"] += 1
            elif os.environ.get("NF_FUZZ_SHOW_INCOMPLETE"):
                print("NOT-SEEN-THROUGH %s\n%s\n--\n%s\n" % (rnames, src, src2))
            for _ in range(4):
                m, kind = mutate(f2)
                if m is None:
                    continue
                srcm = ast.unparse(m)
                stats["mutants"] += 1
                try:
                    mh = {x.name: x for x in ast.walk(m) if isinstance(x, ast.FunctionDef) and x.name.startswith("_helper")}
                    nfm = nf_of(m, mh)
                except (Unsupported, RecursionError):
                    continue
                if nfm == base or nfm == nf2:
                    stats["same_nf"] += 1
                    behm = behaviour(srcm)
                    if behm == ("timeout",) or any(isinstance(r_, tuple) and r_[0] == "exc" and r_[1] in ("NameError", "UnboundLocalError") for r_ in behm):
                        stats["same_nf"] -= 1
                        stats["invalid_mutants"] = stats.get("invalid_mutants", 0) + 1   # reads a name that is not bound: outside the normaliser's assumptions
                        continue
                    if same_behaviour(behm, base_beh):
                        stats["same_nf_equivalent"] += 1
                    else:
                        stats["unsound"] += 1
                        print("UNSOUND (seed %d, program %d, rewrites %s, mutation %s)\n--- original\n%s\n--- rewritten\n%s\n--- mutant\n%s\n" % (seed, k, rnames, kind, src, src2, srcm))
    print("nf_fuzz:", " ".join("%s=%d" % kv for kv in stats.items()))
    return 1 if stats["unsound"] else 0


if __name__ == "__main__":
    sys.exit(main())
