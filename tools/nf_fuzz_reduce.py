#!/venv/bin/python
"""nf_fuzz_reduce.py <a.py> <b.py>: shrink a pair of functions for which the normaliser says "equal" although they behave differently
(greedy removal of statements common to both, keeping `equal normal form and different behaviour`)"""
import ast, os, sys
sys.path.insert(0, os.path.dirname(os.path.dirname(os.path.abspath(__file__))))
sys.path.insert(0, os.path.dirname(os.path.abspath(__file__)))
os.environ["SA_NO_REFEQ"] = "1"
import nf_fuzz as F


def holds(a, b):
    try:
        fa, fb = ast.parse(a).body[0], ast.parse(b).body[0]
        ha = {x.name: x for x in ast.walk(fa) if isinstance(x, ast.FunctionDef) and x.name.startswith("_helper")}
        hb = {x.name: x for x in ast.walk(fb) if isinstance(x, ast.FunctionDef) and x.name.startswith("_helper")}
        if F.nf_of(fa, ha) != F.nf_of(fb, hb):
            return False
    except Exception:
        return False
    ba, bb = F.behaviour(a), F.behaviour(b)
    if ba == ("timeout",) or bb == ("timeout",) or (ba and isinstance(ba[0], str)) or (bb and isinstance(bb[0], str)):
        return False
    if any(r[0] == "exc" and r[1] in ("NameError", "UnboundLocalError") for r in ba + bb):
        return False
    return not F.same_behaviour(ba, bb)


def blocks(lines):
    """(start, end) of every statement (with its indented block) except the def line"""
    out = []
    for i, l in enumerate(lines):
        if i == 0 or not l.strip():
            continue
        ind = len(l) - len(l.lstrip())
        j = i + 1
        while j < len(lines) and (not lines[j].strip() or len(lines[j]) - len(lines[j].lstrip()) > ind):
            j += 1
        out.append((i, j))
    return out


def main():
    a = open(sys.argv[1]).read().rstrip("\n").split("\n")
    b = open(sys.argv[2]).read().rstrip("\n").split("\n")
    assert holds("\n".join(a) + "\n", "\n".join(b) + "\n"), "the pair does not show the problem"
    changed = True
    while changed:
        changed = False
        for (i, j) in sorted(blocks(a), key=lambda ij: ij[0] - ij[1]):
            seg = a[i:j]
            if len(seg) == 1 and seg[0].strip() == "pass":
                continue
            # the same statement must exist in b
            for k in range(1, len(b) - len(seg) + 1):
                if b[k:k + len(seg)] == seg:
                    a2, b2 = a[:i] + a[j:], b[:k] + b[k + len(seg):]
                    # keep blocks non-empty: replace by pass
                    a3, b3 = a[:i] + [" " * (len(seg[0]) - len(seg[0].lstrip())) + "pass"] + a[j:], b[:k] + [" " * (len(seg[0]) - len(seg[0].lstrip())) + "pass"] + b[k + len(seg):]
                    for x, y in ((a2, b2), (a3, b3)):
                        if holds("\n".join(x) + "\n", "\n".join(y) + "\n"):
                            a, b = x, y
                            changed = True
                            break
                    break
            if changed:
                break
    print("\n".join(a)); print("-----"); print("\n".join(b))


main()
