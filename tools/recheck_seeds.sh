#!/bin/bash
# recheck_seeds.sh : apply every /verif/seeded/*/patch.diff to a scratch worktree of /repo (one at a time), run all checks (quick) against it
# and print which properties report.  The worktree is removed afterwards.  Development aid; nothing registered depends on it.
WT=/tmp/seed_recheck_wt
git -C /repo worktree remove --force $WT 2>/dev/null
git -C /repo worktree add -q --detach $WT HEAD || exit 1
cd /verif
for d in seeded/*/; do
  n=$(basename $d)
  if ! git -C $WT apply --check $PWD/$d/patch.diff 2>/dev/null; then echo "$n: PATCH-DOES-NOT-APPLY"; continue; fi
  git -C $WT apply $PWD/$d/patch.diff
  out=""
  for p in C01 C02 C03 C04 C05 C07 C08 C09 C10 C11 C12 C13 C14 C15 C16 C17 C18 C19 C20; do
    r=$(SA_REPO=$WT SA_NO_EVIDENCE=1 /venv/bin/python -m sa $p --tier quick 2>&1)
    rc=$?
    if [ $rc -eq 1 ]; then out="$out $p:$(echo "$r" | grep -m1 -o "C[0-9]*-[A-Z][0-9a-z]* \[[^]]*\]" | head -1 | tr ' ' '_')"; fi
    if [ $rc -eq 2 ]; then out="$out $p:ANALYSIS-ERROR"; fi
  done
  echo "$n:${out:- MISSED}"
  git -C $WT apply -R $PWD/$d/patch.diff
done
git -C /repo worktree remove --force $WT
