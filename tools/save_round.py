#!/venv/bin/python
"""save_round.py <root> <round>: copy <root>/Cxx/{break,refactor1,refactor2} (with the verify.log written by tools/verify_round.sh) into
seeded/Cxx-r<round>-break and seeded_refactors/Cxx-r<round>-refactorN with a meta.json each"""
import json, os, re, shutil, sys
root, rnd = sys.argv[1], sys.argv[2]
for i in range(1, 21):
    pid = "C%02d" % i
    base = os.path.join(root, pid)
    for bk in ("break", "breakA", "breakB"):
      src = base + "/" + bk
      if os.path.isfile(src + "/patch.diff"):
        dst = "/verif/seeded/%s-r%s-%s" % (pid, rnd, bk)
        os.makedirs(dst, exist_ok=True)
        for f in ("patch.diff", "demo.py", "notes.md"):
            if os.path.isfile(src + "/" + f):
                shutil.copy(src + "/" + f, dst + "/" + f)
        log = open(src + "/verify.log").read() if os.path.isfile(src + "/verify.log") else ""
        alarms = re.findall(r"^--- (C\d+) rc=(\d)", log, re.M)
        suite = re.search(r"== suite with change\n(.*)", log)
        dw = re.search(r"== demo with change\n(?:.*\n)*?exit=(\d+)", log)
        do = re.search(r"== demo without change\n(?:.*\n)*?exit=(\d+)", log)
        meta = dict(property=pid, name="%s-r%s-%s" % (pid, rnd, bk), round=int(rnd),
                    origin="independent sub-agent given only the property text and a scratch worktree of /repo HEAD",
                    confirmed=dict(how="tools/verify_round.sh -> tools/verify_seed.sh: fresh scratch worktree, repository suite, demo with/without the change, every check with SA_REPO=<scratch>",
                                   suite_with_change=suite.group(1).strip() if suite else "", demo_with_change="exit %s" % (dw.group(1) if dw else "?"),
                                   demo_without_change="exit %s" % (do.group(1) if do else "?")),
                    detected_by=", ".join("%s(rc=%s)" % a for a in alarms) or "MISSED at the time of the round")
        json.dump(meta, open(dst + "/meta.json", "w"), indent=1)
        open(dst + "/meta.json", "a").write("\n")
    for k in (1, 2):
        src = base + "/refactor%d" % k
        if os.path.isfile(src + "/patch.diff"):
            dst = "/verif/seeded_refactors/%s-r%s-refactor%d" % (pid, rnd, k)
            os.makedirs(dst, exist_ok=True)
            for f in ("patch.diff", "notes.md"):
                if os.path.isfile(src + "/" + f):
                    shutil.copy(src + "/" + f, dst + "/" + f)
            log = open(src + "/verify.log").read() if os.path.isfile(src + "/verify.log") else ""
            alarms = re.findall(r"^--- (C\d+) rc=(\d)", log, re.M)
            suite = re.search(r"== suite with change\n(.*)", log)
            meta = dict(property=pid, name="%s-r%s-refactor%d" % (pid, rnd, k), round=int(rnd), kind="behaviour-preserving refactoring (must stay silent)",
                        origin="independent sub-agent (held-out round), differential-tested by the agent against the clean tree",
                        suite_with_change=suite.group(1).strip() if suite else "",
                        alarms_when_first_seen=", ".join("%s(rc=%s)" % a for a in alarms) or "none")
            json.dump(meta, open(dst + "/meta.json", "w"), indent=1)
            open(dst + "/meta.json", "a").write("\n")
print(len(os.listdir("/verif/seeded")), len(os.listdir("/verif/seeded_refactors")))
