#!/venv/bin/python
"""nf_regress.py: pairs of toy functions that the normaliser once gave the same normal form although they behave differently (each found by
tools/nf_fuzz.py or by reading a normal-form diff), and must keep apart; plus a few pairs it must keep equal.  Exit 1 on any regression."""
import ast, os, sys
sys.path.insert(0, os.path.join(os.path.dirname(os.path.abspath(__file__)), ".."))
from sa import nf   # noqa: E402

DIFFERENT = [
    # inner comprehension re-using the outer one's variable names: both of its variables got the same index (k and v conflated)
    ("def f(sub, st):\n    tot = sum([sub[k].m * v for k, v in st.items()])\n    return {k: sub[k].m * v / tot for k, v in st.items()}\n",
     "def f(sub, st):\n    tot = sum([sub[v].m * k for k, v in st.items()])\n    return {k: sub[k].m * v / tot for k, v in st.items()}\n"),
    ("def f(xs):\n    return [(lambda a, b: a - b)(x, 1) for x in xs]\n", "def f(xs):\n    return [(lambda a, b: b - a)(x, 1) for x in xs]\n"),
    # aliasing: the second name is the same list
    ("def f():\n    x = []\n    y = x\n    y.append(1)\n    return x\n", "def f():\n    x = []\n    y = []\n    y.append(1)\n    return x\n"),
    ("def f():\n    p = q = []\n    p.append(1)\n    return q\n", "def f():\n    p = []\n    q = []\n    p.append(1)\n    return q\n"),
    # a parameter rebound in a loop
    ("def f(a, b, xs):\n    for x in xs:\n        a = a + 1\n    return a\n", "def f(a, b, xs):\n    for x in xs:\n        b = b + 1\n    return a\n"),
    # value-context boolean
    ("def f(a, b):\n    return not a or b\n", "def f(a, b):\n    return not (a and not b)\n"),
    # an unused call in a try body is the point of the try
    ("def f(x):\n    try:\n        t = chk(x)\n    except ValueError:\n        return 0\n    return 1\n", "def f(x):\n    return 1\n"),
    # re-testing after a mutation
    ("def f(d, k):\n    if k in d:\n        d.pop(k)\n    if k in d:\n        return 1\n    return 0\n", "def f(d, k):\n    if k in d:\n        d.pop(k)\n        return 1\n    return 0\n"),
    # a read of an object's state must not move across an expression that mutates the object
    ("def f(b):\n    ms = [b]\n    t = len(ms)\n    u = ms.append(1)\n    return t\n", "def f(b):\n    ms = [b]\n    u = ms.append(1)\n    t = len(ms)\n    return t\n"),
    ("def f(b):\n    ms = [b]\n    t = len(ms)\n    return (ms.append(1), t)\n", "def f(b):\n    ms = [b]\n    return (ms.append(1), len(ms))\n"),
    ("def f(b):\n    ms = [b]\n    t = len(ms)\n    if ms.pop():\n        return t\n    return 0\n", "def f(b):\n    ms = [b]\n    if ms.pop():\n        return len(ms)\n    return 0\n"),
    ("def f(b):\n    ms = [b]\n    both = (ms, b)\n    t = len(ms)\n    [c.append(1) for c in both]\n    return t\n", "def f(b):\n    ms = [b]\n    both = (ms, b)\n    [c.append(1) for c in both]\n    t = len(ms)\n    return t\n"),
    ("def f(b, g):\n    ms = [b]\n    t = len(ms)\n    g(ms.append(1))\n    return t\n", "def f(b, g):\n    ms = [b]\n    g(ms.append(1))\n    return len(ms)\n"),
    ("def f(b, g):\n    ms = [b]\n    t = len(ms)\n    for x in ms.pop():\n        g(x)\n    return t\n", "def f(b, g):\n    ms = [b]\n    for x in ms.pop():\n        g(x)\n    return len(ms)\n"),
    ("def f(b, ys):\n    ms = []\n    both = (ms, ys)\n    for coll in both:\n        coll.append(b)\n    t = len(ms)\n    return t\n", "def f(b, ys):\n    ms = []\n    both = (ms, ys)\n    t = len(ms)\n    for coll in both:\n        coll.append(b)\n    return t\n"),
    # a call made for its effect may change what it is given
    ("def f(b, g):\n    ms = [b]\n    t = len(ms)\n    g(ms)\n    return t\n", "def f(b, g):\n    ms = [b]\n    g(ms)\n    return len(ms)\n"),
    ("def f(ms, g):\n    t = len(ms)\n    g(ms)\n    return t\n", "def f(ms, g):\n    g(ms)\n    return len(ms)\n"),
    # folding (A, B)[1] to B must not drop the effect of A
    ("def f(a, ys):\n    t = (ys.extend([a + 1]), len(ys))[1]\n    return ys\n", "def f(a, ys):\n    t = (ys.extend([a + 2]), len(ys))[1]\n    return ys\n"),
    # `yes_no = yes, no = [], []`: one pair of lists, whichever name reaches them
    ("def f(xs, pred):\n    yes_no = yes, no = [], []\n    for r in xs:\n        yes.append(r) if pred(r) else no.append(r)\n    return tuple(len(c) for c in yes_no)\n",
     "def f(xs, pred):\n    yes, no = [], []\n    for r in xs:\n        yes.append(r) if pred(r) else no.append(r)\n    return tuple(len(c) for c in ([], []))\n"),
    ("def f(xs):\n    pair_ = ([], [])\n    a, b = pair_\n    a.append(1)\n    return pair_\n", "def f(xs):\n    a = []\n    a.append(1)\n    return ([], [])\n"),
    # helpers that are seen through: a store made inside one (through an alias of its parameter), a mutation of a variable it closes over
    ("def f(a, b, xs):\n    def _helper1(c_, k_, v_):\n        c_[k_] = v_\n    r = {}\n    for t1 in xs:\n        _helper1(r, t1, a - t1)\n    t2 = len(r)\n    return t2\n",
     "def f(a, b, xs):\n    def _helper1(c_, k_, v_):\n        c_[k_] = v_\n    r = {}\n    t2 = len(r)\n    for t1 in xs:\n        _helper1(r, t1, a - t1)\n    return t2\n"),
    ("def f(a):\n    def _helper2(t1):\n        return (ys.extend([t1 - 1]), len(ys))[1]\n    ys = []\n    t2 = _helper2(a)\n    return (a, ys)\n",
     "def f(a):\n    def _helper2(t1):\n        return (ys.extend([t1 - 0]), len(ys))[1]\n    ys = []\n    t2 = _helper2(a)\n    return (a, ys)\n"),
    # a fresh list handed to a call made for its effect is one object, not the display `[]` (len([]) folded to 0)
    ("def f(a):\n    ys = []\n    grow(ys, 2)\n    t1 = len(ys)\n    return (t1 * a + -(0 + t1), ys)\n", "def f(a):\n    ys = []\n    grow(ys, 2)\n    t1 = len(ys)\n    return (t1 * a + -(0 * t1), ys)\n"),
    # an unreachable yield still makes the function a generator function
    ("def f(a):\n    if True:\n        return 2\n    yield a\n", "def f(a):\n    if True:\n        return 2\n"),
]
SAME = [
    ("def f(sub, st):\n    tot = sum([sub[k].m * v for k, v in st.items()])\n    return {k: sub[k].m * v / tot for k, v in st.items()}\n",
     "def f(sub, st):\n    tot = sum([sub[p].m * q for p, q in st.items()])\n    return {a: sub[a].m * b / tot for a, b in st.items()}\n"),
    ("def f(xs):\n    r = []\n    for x in xs:\n        r.append(x + 1)\n    return r\n", "def f(xs):\n    return [1 + y for y in xs]\n"),
    ("def f(xs, g):\n    for t in (x * x for x in xs if x > 0):\n        g(t)\n", "def f(xs, g):\n    for y in xs:\n        if y > 0:\n            g(y * y)\n"),
    ("def f(c):\n    x = c.items\n    for term in c.items:\n        term[1] *= 2\n    return x\n", "def f(c):\n    for term in c.items:\n        term[1] *= 2\n    return c.items\n"),
    ("def f(xs, pred):\n    yes_no = yes, no = [], []\n    for r in xs:\n        yes.append(r) if pred(r) else no.append(r)\n    return tuple(len(c) for c in yes_no)\n",
     "def f(xs, pred):\n    kept, dropped = [], []\n    for r in xs:\n        if pred(r):\n            kept.append(r)\n        else:\n            dropped.append(r)\n    return tuple(len(c) for c in (kept, dropped))\n"),
    ("def f(d, g):\n    return [(g(v) if v != 1 else '') + g(k) for k, v in filter(itemgetter(1), d.items())]\n",
     "def f(d, g):\n    def _helper1(k, v):\n        if v != 1:\n            c = g(v)\n        else:\n            c = ''\n        return c + g(k)\n    return [_helper1(k, v) for k, v in d.items() if v]\n"),
    ("def f(kw, a, b):\n    for k, v in (('x', a), ('y', b)):\n        kw.setdefault(k, v)\n    return kw\n",
     "def f(kw, a, b):\n    if 'x' not in kw:\n        kw['x'] = a\n    if 'y' not in kw:\n        kw['y'] = b\n    return kw\n"),
    ("def f(s, toks, g):\n    out = []\n    for line in s.split('\\n'):\n        t = line.strip()\n        if t == '':\n            continue\n        if any(t.startswith(k) for k in toks):\n            continue\n        out.append(g(line))\n    return out\n",
     "def f(s, toks, g):\n    return [g(r) for r in s.split('\\n') if r.strip() != '' and not any(r.strip().startswith(k) for k in toks)]\n"),
    ("def f(s):\n    return dict.fromkeys(s, 1)\n", "def f(s):\n    return {k: 1 for k in s}\n"),
    ("def f(s, g):\n    return OrderedDict([(k, g(k)) for k in s])\n", "def f(s, g):\n    d = OrderedDict()\n    for k in s:\n        d[k] = g(k)\n    return d\n"),
]


def form(src):
    fn = ast.parse(src).body[0]
    helpers = {x.name: x for x in ast.walk(fn) if isinstance(x, ast.FunctionDef) and x is not fn and x.name.startswith("_helper")}   # seen through, as one-sided helpers are
    return nf.normal_form(fn, None, helpers)


def main():
    bad = 0
    for a, b in DIFFERENT:
        try:
            same = form(a) == form(b)
        except nf.Unsupported:
            same = False
        if same:
            bad += 1
            print("CONFLATED\n%s--\n%s" % (a, b))
    for a, b in SAME:
        try:
            same = form(a) == form(b)
        except nf.Unsupported:
            same = False
        if not same:
            bad += 1
            print("NOT-SEEN-THROUGH\n%s--\n%s" % (a, b))
    print("nf_regress: %d pairs kept apart, %d kept equal, %d regressions" % (len(DIFFERENT), len(SAME), bad))
    return 1 if bad else 0


if __name__ == "__main__":
    sys.exit(main())
