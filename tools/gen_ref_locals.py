#!/venv/bin/python
"""Record the reference spelling (ordered local names) of every non-test function of /repo/chempy."""
import ast, json, os, sys
sys.path.insert(0, os.path.dirname(os.path.dirname(os.path.abspath(__file__))))
from sa.core import Repo
from sa.canon import ordered_locals, outer_functions, REF
repo = Repo()
out = {}
for rel in repo.files():
    tree = ast.parse(repo.source(rel))
    d = {}
    for qual, fn in outer_functions(tree):
        ls = ordered_locals(fn)
        if ls:
            d.setdefault(qual, ls)
    if d:
        out[rel] = d
json.dump(out, open(REF, "w"), indent=0, sort_keys=True)
print("ref_locals.json: %d files, %d functions" % (len(out), sum(len(v) for v in out.values())))
