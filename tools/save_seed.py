#!/venv/bin/python
"""save_seed.py <src-dir> <name> <property> <caught-by|MISSED> <needs...>  -> /verif/seeded/<name>/"""
import json, os, shutil, sys
src, name, prop, caught = sys.argv[1:5]
needs = " ".join(sys.argv[5:])
dst = os.path.join("/verif/seeded", name)
os.makedirs(dst, exist_ok=True)
for f in ("patch.diff", "demo.py", "notes.md"):
    if os.path.isfile(os.path.join(src, f)):
        shutil.copy(os.path.join(src, f), os.path.join(dst, f))
meta = dict(
    property=prop, name=name, needs_to_manifest=needs,
    origin="independent sub-agent given only the property text and a scratch worktree of /repo (HEAD incl. the fix: commits)",
    confirmed=dict(
        how="tools/verify_seed.sh: patch applied to a fresh scratch worktree of /repo HEAD; repository suite (6 failed, 506 passed = baseline) ; "
            "demo.py exits 1 with the change and 0 without; every check run with SA_REPO=<scratch> --tier thorough",
        suite_with_change="6 failed, 506 passed, 31 skipped, 1 xfailed, 4 xpassed (identical to the unchanged tree)",
        demo_with_change="FAIL (exit 1)", demo_without_change="PASS (exit 0)"),
    detected_by=caught,
)
json.dump(meta, open(os.path.join(dst, "meta.json"), "w"), indent=1)
print("saved", dst)
