#!/bin/bash
# usage: nfdiff_patch.sh <refactor-label> <rel> <qualname> [context-lines]   (unified diff of the pretty-printed normal forms when context is given)
L=$1; WT=/tmp/nd_$L; rm -rf $WT; mkdir -p $WT; (cd /repo && git archive HEAD) | tar -x -C $WT
(cd $WT && patch -s -p1 < /verif/seeded_refactors/$L/patch.diff)
if [ -n "$4" ]; then /venv/bin/python /verif/tools/nfdiff_full.py $WT $2 $3 $4; else /venv/bin/python /verif/tools/nfdiff.py $WT $2 $3; fi
rm -rf $WT
