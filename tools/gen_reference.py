#!/venv/bin/python
"""Refresh /verif/reference (the tree the rules are confirmed on) from /repo's committed HEAD.

Run ONLY after a legitimate change of /repo (a `fix:` commit) and then re-run every check: the reference is what functions of later trees
are proven equivalent to (sa/refeq.py), so it must itself pass every rule."""
import os
import shutil
import subprocess
import sys

HERE = os.path.dirname(os.path.dirname(os.path.abspath(__file__)))
REPO = os.environ.get("SA_REPO", "/repo")
dst = os.path.join(HERE, "reference")
files = subprocess.run(["git", "-C", REPO, "ls-files", "chempy"], capture_output=True, text=True, check=True).stdout.split()
files = [f for f in files if f.endswith(".py") and "/tests/" not in f]
if os.path.isdir(os.path.join(dst, "chempy")):
    shutil.rmtree(os.path.join(dst, "chempy"))
for f in files:
    os.makedirs(os.path.join(dst, os.path.dirname(f)), exist_ok=True)
    blob = subprocess.run(["git", "-C", REPO, "show", "HEAD:" + f], capture_output=True, check=True).stdout
    with open(os.path.join(dst, f), "wb") as fh:
        fh.write(blob)
head = subprocess.run(["git", "-C", REPO, "rev-parse", "HEAD"], capture_output=True, text=True, check=True).stdout.strip()
with open(os.path.join(dst, "COMMIT"), "w") as fh:
    fh.write(head + "\n")
print("reference: %d files at %s" % (len(files), head))
