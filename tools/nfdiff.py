#!/venv/bin/python
"""nfdiff.py <tree-root> <rel> <qualname> : show where the normal forms of the reference and the current function differ (development aid)"""
import ast, sys, os
sys.path.insert(0, os.path.dirname(os.path.dirname(os.path.abspath(__file__))))
from sa.refeq import ref_tree, _units
from sa.nf import normal_form, module_consts
from sa.canon import canonicalise

root, rel, qual = sys.argv[1:4]
cur = ast.parse(open(os.path.join(root, rel)).read())
canonicalise(cur, rel)
ref = ref_tree(rel)
cu, ru = _units(cur), _units(ref)

from sa.refeq import _equivalent
a, b = _equivalent(ru[qual], cu[qual], ref, cur, ru, cu, qual, forms_only=True)

def first_diff(x, y, path=()):
    if x == y:
        return None
    if isinstance(x, tuple) and isinstance(y, tuple) and len(x) == len(y):
        for i, (p, q) in enumerate(zip(x, y)):
            d = first_diff(p, q, path + (i,))
            if d:
                return d
    return path, x, y

d = first_diff(a, b)
if d is None:
    print("EQUAL")
else:
    path, x, y = d
    print("path", path)
    print("REF:", repr(x)[:1500])
    print("CUR:", repr(y)[:1500])
