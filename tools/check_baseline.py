#!/venv/bin/python
"""Run the repository's pinned test-suite and compare with /root/.vp/BASELINE.json stable_pass."""
import json, subprocess, sys, tempfile, xml.etree.ElementTree as ET, os
b = json.load(open('/root/.vp/BASELINE.json'))
out = tempfile.mktemp(suffix='.xml')
subprocess.run(['/venv/bin/python', '-m', 'pytest', '-ra', '-q', '-p', 'no:cacheprovider', '--timeout=900', '--continue-on-collection-errors', '--junitxml=' + out], cwd='/repo', stdout=subprocess.DEVNULL, stderr=subprocess.DEVNULL)
passed = set()
for tc in ET.parse(out).getroot().iter('testcase'):
    if not any(ch.tag in ('failure', 'error', 'skipped') for ch in tc):
        passed.add('%s::%s' % (tc.get('classname'), tc.get('name')))
os.unlink(out)
missing = [t for t in b['stable_pass'] if t not in passed]
print('stable_pass: %d, passing now: %d, missing: %d' % (len(b['stable_pass']), len(passed), len(missing)))
for t in missing[:20]:
    print('  MISSING', t)
sys.exit(1 if missing else 0)
