#!/bin/bash
# verify_batch.sh <root> : for every <root>/<ID>/<A|B>/patch.diff run verify_seed.sh and print a summary line
ROOT=$1
for d in $ROOT/C*/[AB]; do
  [ -f $d/patch.diff ] || continue
  [ -f $d/demo.py ] || continue
  id=$(basename $(dirname $d))$(basename $d)
  [ -f $d/verify.log ] && [ -z "$FORCE" ] && { echo "$id (cached) $(grep '^SUMMARY' $d/verify.log)"; continue; }
  /verif/tools/verify_seed.sh $d $id > $d/verify.log 2>&1
  suite=$(grep -A1 "== suite with change" $d/verify.log | tail -1 | cut -d, -f1-2)
  dw=$(grep -A4 "== demo with change" $d/verify.log | grep "^exit=" | head -1)
  do=$(grep -A4 "== demo without change" $d/verify.log | grep "^exit=" | head -1)
  caught=$(grep -E "^--- C[0-9]+ rc=" $d/verify.log | tr '\n' ' ')
  first=$(grep -E "^chempy|ANALYSIS-ERROR" $d/verify.log | head -1 | cut -c1-230)
  echo "SUMMARY suite=[$suite] with:$dw without:$do caught=[$caught] $first" >> $d/verify.log
  echo "$id $(grep '^SUMMARY' $d/verify.log)"
done
