#!/bin/bash
# usage: verify_seed.sh <dir-with-patch.diff-and-demo.py> [label]
# Applies the patch to a FRESH scratch worktree of /repo HEAD, runs the repository suite, the demo with and
# without the change, and every check (SA_REPO=<scratch>), then removes the worktree.
SRC=$1; LABEL=${2:-$(basename $SRC)}
WT=/tmp/vs_$LABEL
git -C /repo worktree remove --force $WT 2>/dev/null
git -C /repo worktree add -q --detach $WT HEAD || exit 9
cd $WT
if ! git apply $SRC/patch.diff; then echo "PATCH DOES NOT APPLY"; git -C /repo worktree remove --force $WT; exit 8; fi
echo "== diff stat"; git diff --stat | tail -4
echo "== suite with change"; /venv/bin/python -m pytest -q -p no:cacheprovider --timeout=900 chempy 2>&1 | tail -1
echo "== demo with change"; /venv/bin/python - < $SRC/demo.py 2>&1 | tail -3; echo "exit=${PIPESTATUS[0]}"
git apply -R $SRC/patch.diff
echo "== demo without change"; /venv/bin/python - < $SRC/demo.py 2>&1 | tail -2; echo "exit=${PIPESTATUS[0]}"
git apply $SRC/patch.diff
echo "== checks against the changed tree"
cd /verif
for p in C01 C02 C03 C04 C05 C06 C07 C08 C09 C10 C11 C12 C13 C14 C15 C16 C17 C18 C19 C20; do
  out=$(SA_REPO=$WT SA_NO_EVIDENCE=1 /venv/bin/python -m sa $p --tier thorough --no-selftest 2>&1); rc=$?
  if [ $rc -ne 0 ]; then echo "--- $p rc=$rc"; echo "$out" | grep -E "^chempy|ANALYSIS-ERROR" | cut -c1-420 | head -6; fi
done
git -C /repo worktree remove --force $WT
echo "== done"
