#!/venv/bin/python
"""Systematic mutation scan of the checker (development aid, not a registered check).

For one property: take the functions the rules actually consulted (ctx.functions_seen), generate small
syntactic mutants of each (operator flips, constant nudges, dropped statements, swapped arguments ...) in
memory, run the property's rules on each mutated tree and list the mutants NO rule reports.  Survivors are
either behaviour-preserving or point at a statement no rule covers.

usage: tools/mutscan.py C03 [--jobs 16] [--only <function substring>]
"""
import ast
import copy
import os
import sys
from concurrent.futures import ProcessPoolExecutor

sys.path.insert(0, os.path.dirname(os.path.dirname(os.path.abspath(__file__))))
from sa import props  # noqa: E402
from sa.core import Repo, run_rules, AnalysisError  # noqa: E402

CMP = {ast.Lt: ast.LtE, ast.LtE: ast.Lt, ast.Gt: ast.GtE, ast.GtE: ast.Gt, ast.Eq: ast.NotEq, ast.NotEq: ast.Eq,
       ast.Is: ast.IsNot, ast.IsNot: ast.Is, ast.In: ast.NotIn, ast.NotIn: ast.In}
BIN = {ast.Add: ast.Sub, ast.Sub: ast.Add, ast.Mult: ast.Div, ast.Div: ast.Mult, ast.Pow: ast.Mult, ast.FloorDiv: ast.Div}


CRASH_SWAP = {"isinstance", "getattr", "hasattr", "setattr", "issubclass", "map", "filter", "reduce", "super"}


def _sole_binding(fn, st):
    """Deleting `st` leaves a later read of its target unbound (a loud NameError, not a silent change)."""
    if not isinstance(st, ast.Assign) or not all(isinstance(t, ast.Name) for t in st.targets):
        return False
    names = {t.id for t in st.targets}
    for n in ast.walk(fn):
        if n is st:
            continue
        tg = []
        if isinstance(n, ast.Assign):
            tg = n.targets
        elif isinstance(n, (ast.AugAssign, ast.AnnAssign, ast.For)):
            tg = [n.target]
        elif isinstance(n, ast.arg) and n.arg in names:
            return False
        for t in tg:
            for x in ast.walk(t):
                if isinstance(x, ast.Name) and isinstance(x.ctx, ast.Store) and x.id in names and not isinstance(n, ast.AugAssign):
                    return False
    return True


def gen_mutants(fn):
    """yield (description, mutated copy of fn)"""
    nodes = list(ast.walk(fn))
    for i, n in enumerate(nodes):
        if isinstance(n, ast.Compare):
            for j, op in enumerate(n.ops):
                if type(op) in CMP:
                    f2 = copy.deepcopy(fn)
                    m = list(ast.walk(f2))[i]
                    m.ops[j] = CMP[type(op)]()
                    yield "L%d cmp %s->%s in `%s`" % (n.lineno, type(op).__name__, CMP[type(op)].__name__, ast.unparse(n)[:50]), f2
        elif isinstance(n, ast.BinOp) and type(n.op) in BIN:
            if isinstance(n.left, ast.Constant) and isinstance(n.left.value, str):
                continue
            f2 = copy.deepcopy(fn)
            m = list(ast.walk(f2))[i]
            m.op = BIN[type(n.op)]()
            yield "L%d binop %s->%s in `%s`" % (n.lineno, type(n.op).__name__, BIN[type(n.op)].__name__, ast.unparse(n)[:50]), f2
        elif isinstance(n, ast.AugAssign) and type(n.op) in BIN:
            f2 = copy.deepcopy(fn)
            m = list(ast.walk(f2))[i]
            m.op = BIN[type(n.op)]()
            yield "L%d augop %s->%s in `%s`" % (n.lineno, type(n.op).__name__, BIN[type(n.op)].__name__, ast.unparse(n)[:50]), f2
        elif isinstance(n, ast.BoolOp):
            f2 = copy.deepcopy(fn)
            m = list(ast.walk(f2))[i]
            m.op = ast.Or() if isinstance(n.op, ast.And) else ast.And()
            yield "L%d boolop flip in `%s`" % (n.lineno, ast.unparse(n)[:50]), f2
        elif isinstance(n, ast.UnaryOp) and isinstance(n.op, (ast.Not, ast.USub)):
            f2 = copy.deepcopy(fn)
            lst = list(ast.walk(f2))
            m = lst[i]
            # replace the UnaryOp by its operand in the parent
            for p in lst:
                for fld, val in ast.iter_fields(p):
                    if val is m:
                        setattr(p, fld, m.operand)
                    elif isinstance(val, list) and any(x is m for x in val):
                        val[:] = [m.operand if x is m else x for x in val]
            yield "L%d drop unary %s in `%s`" % (n.lineno, type(n.op).__name__, ast.unparse(n)[:50]), f2
        elif isinstance(n, ast.Constant) and isinstance(n.value, (int, float)) and not isinstance(n.value, bool):
            f2 = copy.deepcopy(fn)
            m = list(ast.walk(f2))[i]
            m.value = n.value + 1 if isinstance(n.value, int) else n.value * 1.5
            yield "L%d const %r->%r" % (n.lineno, n.value, m.value), f2
        elif isinstance(n, ast.Constant) and n.value in (True, False):
            f2 = copy.deepcopy(fn)
            m = list(ast.walk(f2))[i]
            m.value = not n.value
            yield "L%d const %r->%r" % (n.lineno, n.value, m.value), f2
        elif isinstance(n, ast.Call) and len(n.args) >= 2 and not any(isinstance(a, ast.Starred) for a in n.args[:2]):
            if ast.unparse(n.args[0]) != ast.unparse(n.args[1]) and ast.unparse(n.func) not in CRASH_SWAP:
                f2 = copy.deepcopy(fn)
                m = list(ast.walk(f2))[i]
                m.args[0], m.args[1] = m.args[1], m.args[0]
                yield "L%d swap args of `%s`" % (n.lineno, ast.unparse(n)[:60]), f2
    # statement deletions
    for i, n in enumerate(nodes):
        for fld in ("body", "orelse"):
            body = getattr(n, fld, None)
            if not isinstance(body, list) or not body or not isinstance(body[0], ast.stmt):
                continue
            for k, st in enumerate(body):
                if isinstance(st, (ast.FunctionDef, ast.ClassDef, ast.Import, ast.ImportFrom, ast.Return, ast.Pass)):
                    continue
                if isinstance(st, ast.Expr) and isinstance(st.value, ast.Constant):
                    continue  # docstring
                if _sole_binding(fn, st):
                    continue
                f2 = copy.deepcopy(fn)
                m = list(ast.walk(f2))[i]
                getattr(m, fld)[k] = ast.Pass()
                yield "L%d delete `%s`" % (st.lineno, ast.unparse(st).splitlines()[0][:60]), f2


def replace_fn_source(src, fn, fn2):
    new = ast.unparse(fn2)
    lines = src.splitlines(keepends=True)
    start = min([fn.lineno] + [d.lineno for d in fn.decorator_list]) - 1
    indent = " " * fn.col_offset
    body = "".join(indent + ln + "\n" if ln.strip() else "\n" for ln in new.splitlines())
    return "".join(lines[:start]) + body + "".join(lines[fn.end_lineno:])


def _run(args):
    pid, rel, qual, desc, newsrc, base = args
    pm = props.load(pid)
    try:
        compile(newsrc, rel, "exec")
    except SyntaxError:
        return (rel, qual, desc, "invalid")
    repo = Repo(None, {rel: newsrc})
    try:
        ctx = run_rules(repo, pm, "thorough")
    except AnalysisError as e:
        return (rel, qual, desc, "undecided: " + str(e).splitlines()[0][:80])
    except Exception as e:
        return (rel, qual, desc, "crash: %s" % e)
    new = [i for i in ctx.violations() if (i.rule, i.anchor, i.key) not in base]
    if new:
        return (rel, qual, desc, "caught %s [%s]" % (new[0].rule, new[0].key[:50]))
    return (rel, qual, desc, "SURVIVED")


def _run_union(args):
    pids, rel, qual, desc, newsrc, bases = args
    try:
        compile(newsrc, rel, "exec")
    except SyntaxError:
        return (rel, qual, desc, "invalid")
    repo = Repo(None, {rel: newsrc})
    undecided = None
    for pid in pids:
        pm = props.load(pid)
        try:
            ctx = run_rules(repo, pm, "thorough")
        except AnalysisError as e:
            undecided = "undecided(%s): %s" % (pid, str(e).splitlines()[0][:60])
            continue
        except Exception as e:
            undecided = "crash(%s): %s" % (pid, e)
            continue
        new = [i for i in ctx.violations() if (i.rule, i.anchor, i.key) not in bases[pid]]
        if new:
            return (rel, qual, desc, "caught %s [%s]" % (new[0].rule, new[0].key[:50]))
    return (rel, qual, desc, undecided or "SURVIVED")


def main_all():
    """every function consulted by any property, every mutant run against all properties that consult the function"""
    repo = Repo()
    seen_by = {}
    bases = {}
    for pid in props.ALL:
        pm = props.load(pid)
        ctx = run_rules(repo, pm, "thorough")
        bases[pid] = {(i.rule, i.anchor, i.key) for i in ctx.violations()}
        for fq in ctx.functions_seen:
            rel, _, qual = fq.partition(":")
            if not rel.endswith(".py") or not qual:
                continue
            m = repo.mod(rel)
            outer = None
            parts = qual.split(".")
            for i in range(1, len(parts) + 1):
                q = ".".join(parts[:i])
                if q in m.functions and isinstance(m.functions[q], (ast.FunctionDef, ast.AsyncFunctionDef)):
                    outer = q
                    break
            if outer:
                seen_by.setdefault((rel, outer), set()).add(pid)
    tasks = []
    for (rel, outer), pids in sorted(seen_by.items()):
        m = repo.mod(rel)
        tree = ast.parse(m.source)
        fn = None
        for n in ast.walk(tree):
            if isinstance(n, (ast.FunctionDef, ast.AsyncFunctionDef)) and n.lineno == m.functions[outer].lineno and n.name == m.functions[outer].name:
                fn = n
        if fn is None:
            continue
        for desc, f2 in gen_mutants(fn):
            tasks.append((sorted(pids), rel, outer, desc, replace_fn_source(m.source, fn, f2), bases))
    print("ALL: %d mutants over %d functions" % (len(tasks), len(seen_by)))
    with ProcessPoolExecutor(max_workers=16) as ex:
        results = list(ex.map(_run_union, tasks, chunksize=4))
    tally = {}
    per_fn = {}
    for rel, qual, desc, res in results:
        k = res.split(" ")[0].split("(")[0].rstrip(":")
        tally[k] = tally.get(k, 0) + 1
        d = per_fn.setdefault((rel, qual), {})
        d[k] = d.get(k, 0) + 1
    print("tally:", tally)
    for (rel, qual), d in sorted(per_fn.items(), key=lambda kv: -kv[1].get("SURVIVED", 0)):
        print("%4d survived / %4d  %s:%s  (seen by %s)" % (d.get("SURVIVED", 0), sum(d.values()), rel, qual, ",".join(sorted(seen_by[(rel, qual)]))))
    if "--list" in sys.argv:
        for rel, qual, desc, res in results:
            if res == "SURVIVED":
                print("SURVIVED %s:%s  %s" % (rel, qual, desc))


def _nf_one(args):
    rel, qual, lineno, descs_and_src = args
    from sa.nf import normal_form, module_consts, Unsupported
    out = []
    for desc, newsrc in descs_and_src:
        try:
            t2 = ast.parse(newsrc)
        except SyntaxError:
            continue
        f2 = None
        for n in ast.walk(t2):
            if isinstance(n, (ast.FunctionDef, ast.AsyncFunctionDef)) and n.name == qual.split(".")[-1] and n.lineno == lineno:
                f2 = n
        if f2 is None:
            continue
        out.append((desc, f2, t2))
    return rel, qual, out


def main_nfcheck():
    """soundness probe of the normaliser: every syntactic mutant of every function must have a normal form different from the original's
    (a mutant with the same normal form is either really equivalent or shows a hole in the normaliser)"""
    from sa.nf import normal_form, module_consts, Unsupported
    repo = Repo()
    n_mut = n_same = n_unsup = 0
    same = []
    for m in repo.all_modules():
        tree = ast.parse(m.source)
        consts = module_consts(tree)
        for fn in [n for n in ast.walk(tree) if isinstance(n, (ast.FunctionDef, ast.AsyncFunctionDef))]:
            def deep(f):
                # the function and, as units of their own, the functions nested in it
                return tuple(normal_form(x, consts) for x in ast.walk(f) if isinstance(x, (ast.FunctionDef, ast.AsyncFunctionDef)))
            try:
                base = deep(fn)
            except Unsupported:
                n_unsup += 1
                continue
            for desc, f2 in gen_mutants(fn):
                n_mut += 1
                try:
                    ast.fix_missing_locations(f2)
                    nf2 = deep(f2)
                except Unsupported:
                    continue
                except Exception as e:
                    same.append((m.rel, fn.name, desc, "CRASH %s" % e))
                    continue
                if nf2 == base:
                    n_same += 1
                    same.append((m.rel, fn.name, desc, ""))
    print("nfcheck: %d mutants, %d with an unchanged normal form, %d functions unsupported" % (n_mut, n_same, n_unsup))
    for rel, q, desc, extra in same:
        print("SAME-NF %s:%s  %s %s" % (rel, q, desc, extra))


def main():
    if sys.argv[1].upper() == "ALL":
        return main_all()
    if sys.argv[1].upper() == "NFCHECK":
        return main_nfcheck()
    pid = sys.argv[1].upper()
    jobs = 16
    only = None
    if "--only" in sys.argv:
        only = sys.argv[sys.argv.index("--only") + 1]
    pm = props.load(pid)
    repo = Repo()
    base_ctx = run_rules(repo, pm, "thorough")
    base = {(i.rule, i.anchor, i.key) for i in base_ctx.violations()}
    tasks = []
    seen = set()
    for fq in sorted(base_ctx.functions_seen):
        rel, _, qual = fq.partition(":")
        if not rel.endswith(".py") or not qual:
            continue
        if only and only not in fq:
            continue
        m = repo.mod(rel)
        # mutate the outermost function only once (nested ones are part of it)
        outer = qual
        parts = qual.split(".")
        for i in range(1, len(parts) + 1):
            q = ".".join(parts[:i])
            if q in m.functions and isinstance(m.functions[q], (ast.FunctionDef, ast.AsyncFunctionDef)):
                outer = q
                break
        if (rel, outer) in seen or outer not in m.functions:
            continue
        seen.add((rel, outer))
        # parse the raw source again: Module trees are canonicalised in place
        tree = ast.parse(m.source)
        fn = None
        for n in ast.walk(tree):
            if isinstance(n, (ast.FunctionDef, ast.AsyncFunctionDef)) and n.lineno == m.functions[outer].lineno and n.name == m.functions[outer].name:
                fn = n
        if fn is None:
            continue
        for desc, f2 in gen_mutants(fn):
            tasks.append((pid, rel, outer, desc, replace_fn_source(m.source, fn, f2), base))
    print("%s: %d mutants over %d functions" % (pid, len(tasks), len(seen)))
    with ProcessPoolExecutor(max_workers=jobs) as ex:
        results = list(ex.map(_run, tasks, chunksize=4))
    tally = {}
    for rel, qual, desc, res in results:
        k = res.split(" ")[0].rstrip(":")
        tally[k] = tally.get(k, 0) + 1
    print("tally:", tally)
    for rel, qual, desc, res in results:
        if res == "SURVIVED":
            print("SURVIVED %s:%s  %s" % (rel, qual, desc))


if __name__ == "__main__":
    main()
