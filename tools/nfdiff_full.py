import ast, sys, os
sys.path.insert(0, '/verif')
from sa.refeq import ref_tree, _units, _equivalent
from sa.canon import canonicalise
root, rel, qual = sys.argv[1:4]
cur = ast.parse(open(os.path.join(root, rel)).read())
canonicalise(cur, rel)
ref = ref_tree(rel)
cu, ru = _units(cur), _units(ref)
a, b = _equivalent(ru[qual], cu[qual], ref, cur, ru, cu, qual, forms_only=True)
def pp(x, ind=0, out=None):
    s = repr(x)
    if len(s) < 150 or not isinstance(x, tuple):
        out.append(' '*ind + s[:400]); return
    out.append(' '*ind + '(')
    for y in x: pp(y, ind+2, out)
    out.append(' '*ind + ')')
A=[];B=[]
pp(a,0,A); pp(b,0,B)
import difflib
for l in difflib.unified_diff(A,B,'ref','cur',n=int(sys.argv[4]) if len(sys.argv)>4 else 6, lineterm=''):
    print(l)
