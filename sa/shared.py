"""Rules shared by every property: they run over the property's anchored files (properties.jsonl: anchors.files)."""
from __future__ import annotations

import json
import os

from .astu import U
from .core import Rule
from .idioms import name_slot_mismatches

_HERE = os.path.dirname(os.path.dirname(os.path.abspath(__file__)))


def anchor_files(pid):
    with open(os.path.join(_HERE, "properties.jsonl")) as fh:
        for line in fh:
            d = json.loads(line)
            if d["id"] == pid:
                return [f for f in d["anchors"]["files"] if f.endswith(".py")]
    return []


def slot_rule(pid):
    files = anchor_files(pid)

    def rule(ctx):
        """A bare name passed positionally into a parameter of a different name, while the callee has a parameter of that very
        name (e.g. f(units, constants) for def f(constants, units)), is an argument swap: both values are accepted silently."""
        for rel in files:
            if not ctx.repo.has(rel):
                continue
            m = ctx.mod(rel)
            bad = name_slot_mismatches(m, ctx.repo)
            n = name_slot_mismatches.last_examined[0]
            for c, an, slot, callee, caller in bad:
                ctx.violation("%s:%s" % (rel, caller), "slot:%s:%s->%s" % (callee.split(":")[-1], an, slot),
                              "`%s` passes `%s` into the parameter `%s` of %s, which also has a parameter named `%s` (swapped arguments)" % (U(c)[:80], an, slot, callee, an), node=c)
            if not bad:
                ctx.holds(rel, "argument-slots", examined=n)

    return Rule("%s-A1" % pid, rule, 1, "argument slots: same-named variables land in same-named parameters (resolved in-package call sites of the anchored files)")


def _class_methods(tree):
    """class name -> (bases as written, {method name}) for the classes defined at module level"""
    import ast
    out = {}
    for n in tree.body:
        if isinstance(n, ast.ClassDef):
            out[n.name] = ([U(b) for b in n.bases], {x.name for x in n.body if isinstance(x, (ast.FunctionDef, ast.AsyncFunctionDef))})
    return out


def _module_bindings(tree):
    import ast
    out = set()
    for n in tree.body:
        if isinstance(n, (ast.FunctionDef, ast.AsyncFunctionDef, ast.ClassDef)):
            out.add(n.name)
        elif isinstance(n, (ast.Assign, ast.AnnAssign, ast.AugAssign)):
            tg = n.targets if isinstance(n, ast.Assign) else [n.target]
            for t in tg:
                for x in ast.walk(t):
                    if isinstance(x, ast.Name):
                        out.add(x.id)
        elif isinstance(n, (ast.Import, ast.ImportFrom)):
            for a in n.names:
                out.add((a.asname or a.name).split(".")[0])
        elif isinstance(n, (ast.If, ast.Try)):
            for x in ast.walk(n):
                if isinstance(x, (ast.FunctionDef, ast.AsyncFunctionDef, ast.ClassDef)):
                    out.add(x.name)
                elif isinstance(x, ast.Name) and isinstance(x.ctx, ast.Store):
                    out.add(x.id)
                elif isinstance(x, ast.alias):
                    out.add((x.asname or x.name).split(".")[0])
    return out


def resolution_rule(pid):
    files = anchor_files(pid)

    def rule(ctx):
        """The rules (and the reference-equivalence front end) look at the functions they are anchored in; a *new* definition elsewhere can change what
        those functions mean without touching them: a method added to a subclass that overrides a method its base class had in the reference tree, or a new
        module-level name that shadows a builtin the module uses.  Such a definition is reported (the analysed code no longer resolves as analysed)."""
        import ast
        import builtins
        from .refeq import ref_tree
        for rel in files:
            if not ctx.repo.has(rel):
                continue
            ref = ref_tree(rel)
            if ref is None:
                continue
            cur = ctx.mod(rel).tree
            rc, cc = _class_methods(ref), _class_methods(cur)
            examined = 0
            bad = False

            def inherited(cls, seen=()):
                """method names a class of the reference module inherits from bases defined in the same module"""
                out = set()
                for b in rc.get(cls, ([], set()))[0]:
                    b = b.split(".")[-1]
                    if b in rc and b not in seen:
                        out |= rc[b][1] | inherited(b, seen + (cls,))
                return out
            for cls, (bases, meths) in cc.items():
                if cls not in rc:
                    continue
                examined += 1
                inh = inherited(cls)
                for name in sorted(meths - rc[cls][1]):
                    if name in inh:
                        bad = True
                        ctx.violation("%s:%s.%s" % (rel, cls, name), "new-override", "`%s.%s` is new and overrides the method of that name inherited from %s in the reference tree: "
                                      "code analysed through the base class no longer runs for %s objects" % (cls, name, "/".join(rc[cls][0]), cls))
            used = {x.id for x in ast.walk(ref) if isinstance(x, ast.Name) and isinstance(x.ctx, ast.Load)}
            for name in sorted(_module_bindings(cur) - _module_bindings(ref)):
                examined += 1
                if hasattr(builtins, name) and name in used:
                    bad = True
                    ctx.violation("%s:%s" % (rel, name), "shadows-builtin", "the new module-level name `%s` shadows the builtin of that name, which functions of this module use" % name)
            if not bad:
                ctx.holds(rel, "name-resolution", examined=max(examined, 1))

    return Rule("%s-A2" % pid, rule, 1, "name resolution of the analysed code unchanged: no new override of an inherited method, no new module-level name shadowing a used builtin")


# Small helpers one call away from the anchored functions that no rule of the property states anything about.  A change of behaviour in one of them
# changes what the analysed callers compute (round 5 of the seeded changes found four such cases).  They are guarded as a whole: the helper must be
# identical to, or provably equivalent with (sa/nf.py), its version in the reference tree.  One line of reason per entry.
GUARDED_HELPERS = {
    "C03": [("chempy/chemistry.py", "Reaction._init_stoich", "turns the reac/prod containers of every Reaction into its stoichiometry dicts")],
    "C08": [("chempy/equilibria.py", "EqSystem.phase_transfer_reaction_idxs", "selects the reactions that get precipitation switching conditions")],
    "C09": [("chempy/units.py", "is_quantity", "decides whether a value is treated as carrying units at all")],
    "C10": [("chempy/units.py", "is_quantity", "decides whether a rate constant is de-dimensionalised")],
    "C11": [("chempy/_util.py", "intdiv", "integer division used for the cancellation coefficient")],
    "C12": [("chempy/chemistry.py", "Reaction._init_stoich", "a set of species means coefficient 1 each; dict coefficients are kept as given"),
            ("chempy/util/parsing.py", "get_parsing_context", "names available to the `eval` of the parameter part of a reaction string")],
    "C13": [("chempy/util/parsing.py", "_subs", "applies the prefix / infix substitution tables to the rendered name")],
    "C16": [("chempy/util/_expr.py", "_implicit_conversion", "converts the other operand of every Expr operator"),
            ("chempy/kinetics/rates.py", "_pure_number", "reduces a dimensionless quantity before math functions read its magnitude")],
    "C20": [("chempy/units.py", "is_quantity", "decides whether a parameter is printed with a unit"),
            ("chempy/printing/string.py", "str_", "the printer entry point used for every rendered fragment")],
}


def guarded_helpers_rule(pid):
    table = GUARDED_HELPERS.get(pid, [])

    def rule(ctx):
        """Each guarded helper is textually identical to its reference version or proven equivalent to it (normal forms, sa/nf.py); a helper that no
        longer exists is not reported (its callers changed then, and they are analysed)."""
        import os
        if os.environ.get("SA_NO_REFEQ"):
            for rel, qual, why in table:
                ctx.holds("%s:%s" % (rel, qual), "guarded-helper", note="reference equivalence disabled")
            return
        for rel, qual, why in table:
            a = "%s:%s" % (rel, qual)
            if not ctx.repo.has(rel):
                ctx.holds(a, "guarded-helper", note="file absent")
                continue
            m = ctx.mod(rel)
            st = (getattr(m, "equiv", None) or {}).get(qual)
            if st in ("identical", "equivalent") or st is None:
                ctx.holds(a, "guarded-helper", status=st or "absent")
            else:
                ctx.violation(a, "guarded-helper-changed", "`%s` (%s) is not provably equivalent to its reference version and no rule of this property speaks about its shape: "
                              "review the change (status: %s)" % (qual, why, st))

    return Rule("%s-A3" % pid, rule, len(table), "guarded helpers one call away from the anchors are (provably equivalent to) their reference versions")


def _escaping_stores(fn, module_names):
    """what a function writes that outlives the call: attributes of self / cls, and stores into / mutator calls on names that are not its own
    locals or parameters (module-level tables, function attributes)"""
    import ast
    a = fn.args
    local = {p.arg for p in a.posonlyargs + a.args + a.kwonlyargs} | ({a.vararg.arg} if a.vararg else set()) | ({a.kwarg.arg} if a.kwarg else set())
    for n in ast.walk(fn):
        if isinstance(n, ast.Name) and isinstance(n.ctx, ast.Store):
            local.add(n.id)
    out = set()

    def root(e):
        while isinstance(e, (ast.Attribute, ast.Subscript)):
            e = e.value
        return e.id if isinstance(e, ast.Name) else None
    for n in ast.walk(fn):
        if isinstance(n, (ast.Attribute, ast.Subscript)) and isinstance(n.ctx, ast.Store):
            r = root(n)
            if r in ("self", "cls") and isinstance(n, ast.Attribute) and isinstance(n.value, ast.Name):
                out.add("%s.%s" % (r, n.attr))
            elif r is not None and r not in local and r not in ("self", "cls"):
                out.add("%s[...]" % r if isinstance(n, ast.Subscript) else "%s.%s" % (r, getattr(n, "attr", "?")))
        elif isinstance(n, ast.Call) and isinstance(n.func, ast.Attribute) and n.func.attr in ("append", "extend", "update", "add", "setdefault", "insert", "pop", "clear", "remove"):
            r = root(n.func.value)
            if r is not None and r not in local and r not in ("self", "cls") and r in module_names:
                out.add("%s.%s()" % (r, n.func.attr))
        elif isinstance(n, (ast.Global, ast.Nonlocal)):
            for nm in n.names:
                out.add("global %s" % nm)
    return out


def new_state_rule(pid):
    files = anchor_files(pid)

    def rule(ctx):
        """A value computed from an object's current parameters and then kept on the object (or in a module-level table) is a cache; unless it is
        invalidated wherever those parameters can change, later results are computed from stale data.  Every function of the anchored files that also
        exists in the reference tree may write only the attributes / module-level tables it wrote there."""
        from .refeq import ref_tree, _units
        for rel in files:
            if not ctx.repo.has(rel):
                continue
            ref = ref_tree(rel)
            if ref is None:
                continue
            cur = ctx.mod(rel).tree
            cu, ru = _units(cur), _units(ref)
            names_cur, names_ref = _module_bindings(cur), _module_bindings(ref)
            n = 0
            bad = False
            for q, f in cu.items():
                if q not in ru:
                    continue
                n += 1
                new = _escaping_stores(f, names_cur) - _escaping_stores(ru[q], names_ref)
                for w in sorted(new):
                    bad = True
                    ctx.violation("%s:%s" % (rel, q), "new-state:%s" % w, "`%s` now writes `%s`, which outlives the call and which its reference version did not write: "
                                  "a value kept across calls (a cache?) must be invalidated wherever its inputs can change" % (q, w), node=f)
            if not bad:
                ctx.holds(rel, "no-new-state", examined=max(n, 1))

    return Rule("%s-A4" % pid, rule, 1, "no new state kept across calls: functions write only the attributes / module-level tables their reference versions wrote")
