"""Rules shared by every property: they run over the property's anchored files (properties.jsonl: anchors.files)."""
from __future__ import annotations

import json
import os

from .astu import U
from .core import Rule
from .idioms import name_slot_mismatches

_HERE = os.path.dirname(os.path.dirname(os.path.abspath(__file__)))


def anchor_files(pid):
    with open(os.path.join(_HERE, "properties.jsonl")) as fh:
        for line in fh:
            d = json.loads(line)
            if d["id"] == pid:
                return [f for f in d["anchors"]["files"] if f.endswith(".py")]
    return []


def slot_rule(pid):
    files = anchor_files(pid)

    def rule(ctx):
        """A bare name passed positionally into a parameter of a different name, while the callee has a parameter of that very
        name (e.g. f(units, constants) for def f(constants, units)), is an argument swap: both values are accepted silently."""
        for rel in files:
            if not ctx.repo.has(rel):
                continue
            m = ctx.mod(rel)
            bad = name_slot_mismatches(m, ctx.repo)
            n = name_slot_mismatches.last_examined[0]
            for c, an, slot, callee, caller in bad:
                ctx.violation("%s:%s" % (rel, caller), "slot:%s:%s->%s" % (callee.split(":")[-1], an, slot),
                              "`%s` passes `%s` into the parameter `%s` of %s, which also has a parameter named `%s` (swapped arguments)" % (U(c)[:80], an, slot, callee, an), node=c)
            if not bad:
                ctx.holds(rel, "argument-slots", examined=n)

    return Rule("%s-A1" % pid, rule, 1, "argument slots: same-named variables land in same-named parameters (resolved in-package call sites of the anchored files)")
