"""Substitute reference functions for current functions that are proven equivalent to them (see nf.py).

`/verif/reference/` is a copy of the non-test sources of the tree the rules were written against and confirmed on (commit in
reference/COMMIT; refresh with tools/gen_reference.py after a legitimate change of /repo, then re-run all checks).  For every module the
rules load, each function that also exists in the reference module and is not textually identical to it is normalised (nf.py) together
with its reference version; when the normal forms agree the reference function's tree takes the place of the current one before any rule
looks at the module.  Nested functions are units of their own.  Nothing else is touched: module-level tables, class attributes, new or
removed functions and every function whose equivalence is not established are analysed as they are.
"""
from __future__ import annotations

import ast
import copy
import os
from typing import Dict, Optional

from .nf import normal_form, module_consts, Unsupported, _is_simple_helper

REF_ROOT = os.path.join(os.path.dirname(os.path.dirname(os.path.abspath(__file__))), "reference")
_REF_CACHE: Dict[str, Optional[ast.Module]] = {}


def ref_tree(rel: str):
    if rel not in _REF_CACHE:
        p = os.path.join(REF_ROOT, rel)
        if os.path.isfile(p):
            with open(p, encoding="utf-8") as fh:
                _REF_CACHE[rel] = ast.parse(fh.read(), filename=p)
        else:
            _REF_CACHE[rel] = None
    return _REF_CACHE[rel]


def _units(tree):
    """qualified name -> FunctionDef for every function (methods, nested functions) of a module"""
    out = {}

    def rec(node, prefix):
        for ch in ast.iter_child_nodes(node):
            if isinstance(ch, (ast.FunctionDef, ast.AsyncFunctionDef)):
                q = prefix + ch.name
                if q not in out:
                    out[q] = ch
                    rec(ch, q + ".")
            elif isinstance(ch, ast.ClassDef):
                rec(ch, prefix + ch.name + ".")
            elif isinstance(ch, (ast.If, ast.Try, ast.With, ast.For, ast.While, ast.ExceptHandler)):
                rec(ch, prefix)
    rec(tree, "")
    return out


def _opaque_names(form):
    """distinct variable names of a normal form in order of first occurrence"""
    out = []

    def rec(x):
        if isinstance(x, tuple):
            if len(x) == 2 and x[0] in ("v", "c") and isinstance(x[1], str):
                if x not in out:
                    out.append(x)
                return
            for y in x:
                rec(y)
    rec(form)
    return out


def _rename(fn, mapping):
    fn2 = copy.deepcopy(fn)
    for n in ast.walk(fn2):
        if isinstance(n, ast.Name) and n.id in mapping:
            n.id = mapping[n.id]
        elif isinstance(n, ast.arg) and n.arg in mapping:
            return None  # never rename parameters
    return fn2


def equivalent(ref_fn, cur_fn, ref_mod, cur_mod, ref_units, cur_units, qual) -> bool:
    return _equivalent(ref_fn, cur_fn, ref_mod, cur_mod, ref_units, cur_units, qual)


def _equivalent(ref_fn, cur_fn, ref_mod, cur_mod, ref_units, cur_units, qual, forms_only=False):
    rc, cc = module_consts(ref_mod), module_consts(cur_mod)
    # helpers: functions that exist on one side only: module level, nested in this function or in an enclosing one, methods of the same class
    def helpers(units_mine, units_other):
        h, meths = {}, {}
        anc = []
        parts = qual.split(".")
        for i in range(1, len(parts) + 1):
            anc.append(".".join(parts[:i]))
        cls = None
        for i in range(len(parts) - 1, 0, -1):
            pre = ".".join(parts[:i])
            if pre not in units_mine:   # a class, not a function
                cls = pre
                break
        for q, f in units_mine.items():
            if q in units_other:
                # a small loop-free module-level function that is the same on both sides is seen through on both sides
                if "." not in q and q != qual and len(f.body) <= 8 and _is_simple_helper(f) and ast.dump(f) == ast.dump(units_other[q]):
                    h[f.name] = f
                continue
            if "." not in q:
                h[f.name] = f
                continue
            parent = q.rsplit(".", 1)[0]
            if parent in anc and parent in units_mine:
                h[f.name] = f
            elif cls is not None and parent == cls:
                meths[f.name] = f
        return h, meths
    hr, mr = helpers(ref_units, cur_units)
    hc, mc = helpers(cur_units, ref_units)
    if forms_only:
        return normal_form(ref_fn, rc, hr, mr), normal_form(cur_fn, cc, hc, mc)
    try:
        nr = normal_form(ref_fn, rc, hr, mr)
        ncur = normal_form(cur_fn, cc, hc, mc)
    except (Unsupported, RecursionError):
        return False
    return nr == ncur


class _CannotSubstitute(Exception):
    pass


def _replace_nested(holder, name, new_node):
    """replace the FunctionDef called `name` that is defined directly in `holder` (not inside a deeper function)"""
    for fld in ("body", "orelse", "finalbody", "handlers"):
        lst = getattr(holder, fld, None)
        if not isinstance(lst, list):
            continue
        for i, st in enumerate(lst):
            if isinstance(st, (ast.FunctionDef, ast.AsyncFunctionDef)):
                if st.name == name:
                    lst[i] = new_node
                    return True
            elif isinstance(st, (ast.If, ast.Try, ast.With, ast.For, ast.While, ast.ExceptHandler, ast.ClassDef)):
                if not isinstance(st, ast.ClassDef) and _replace_nested(st, name, new_node):
                    return True
    return False


def substitute(tree: ast.Module, rel: str) -> dict:
    """in place; returns {qualname: 'identical' | 'equivalent' | 'different' | 'new'}"""
    ref = ref_tree(rel)
    status = {}
    if ref is None:
        return status
    cu, ru = _units(tree), _units(ref)
    eq = {}
    for q, f in cu.items():
        if q not in ru:
            status[q] = "new"
            continue
        if ast.dump(f) == ast.dump(ru[q]):
            status[q] = "identical"
            eq[q] = True
            continue
        ok = equivalent(ru[q], f, ref, tree, ru, cu, q)
        eq[q] = ok
        status[q] = "equivalent" if ok else "different"
    if not any(v == "equivalent" for v in status.values()):
        return status

    def children(q, units):
        """function units directly inside unit q (possibly through classes defined in q, but not through other functions)"""
        out = []
        for q2 in units:
            if not q2.startswith(q + "."):
                continue
            mid = q2[len(q) + 1:].split(".")[:-1]
            pre = q
            ok = True
            for part in mid:
                pre = pre + "." + part
                if pre in units:      # an intermediate *function*: q2 is a grandchild
                    ok = False
                    break
            if ok:
                out.append(q2)
        return out

    def holder_of(base, q, q2):
        """the node whose body directly contains the def of q2 (base itself, or a class nested in it)"""
        node = base
        for part in q2[len(q) + 1:].split(".")[:-1]:
            nxt = None
            for st in ast.walk(node):
                if isinstance(st, ast.ClassDef) and st.name == part:
                    nxt = st
                    break
            if nxt is None:
                return None
            node = nxt
        return node

    def build(q):
        """the node to use for unit q"""
        cur_node, ref_node = cu[q], ru.get(q)
        use_ref = ref_node is not None and eq.get(q)
        base = copy.deepcopy(ref_node) if use_ref else cur_node
        src_units = ru if use_ref else cu
        for q2 in children(q, src_units):
            if q2 in cu and q2 in ru:
                h = holder_of(base, q, q2)
                if h is None or not _replace_nested(h, q2.split(".")[-1], build(q2)):
                    raise _CannotSubstitute(q2)
            elif use_ref:
                raise _CannotSubstitute(q2)   # the reference has a nested function the current tree lacks
        if use_ref:
            for q2 in children(q, cu):
                if q2 not in ru and status.get(q2) == "new":
                    pass   # a new nested helper whose calls were inlined while proving q equivalent
        return base

    # top-level units: module functions and methods
    for q in [x for x in cu if "." not in x or (x.rsplit(".", 1)[0] not in cu)]:
        if q not in ru:
            continue
        needs = any(status.get(x) == "equivalent" for x in cu if x == q or x.startswith(q + "."))
        if not needs:
            continue
        try:
            new = build(q)
        except _CannotSubstitute:
            continue
        if new is cu[q]:
            continue
        holder = tree
        parts = q.split(".")
        for p_ in parts[:-1]:
            nxt = None
            for st in ast.walk(holder):
                if isinstance(st, ast.ClassDef) and st.name == p_:
                    nxt = st
                    break
            holder = nxt if nxt is not None else holder
        _replace_nested(holder, parts[-1], new)
    return status
