"""C03 -- mass-action rate = net stoichiometry x k * prod c^nu."""
from __future__ import annotations

import ast
from fractions import Fraction

from ..astu import U, dotted, walk_shallow, call_name, calls_in, linform, lin_str, monomial, mono_str, names_in, kwarg
from ..core import AnalysisError, Mutant, Rule, Twin
from ..idioms import subscript_stores, is_not_in_test, for_loops, target_names, iter_is_unfiltered, none_default, yield_counts

ID = "C03"
CHEM = "chempy/chemistry.py"
RSYS = "chempy/reactionsystem.py"
RATES = "chempy/kinetics/rates.py"
ODE = "chempy/kinetics/ode.py"
STOICH = "chempy/util/stoich.py"
ENGINES = ["E0 core", "E4 linform", "E5 siblings"]
TECHNIQUE = "linear/monomial normal forms of the stoichiometry and rate expressions over opaque atoms; loop-shape and index-role checks (ast)"
CLAIM = ("Decides: the five stoichiometry views and the coefficient matrix are the stated signed sums; the concentration product "
         "reads only active reactants with exponent = coefficient; Reaction.rate multiplies the rate by net stoichiometry of the same "
         "key list; ReactionSystem.rates / dCdt_list accumulate over all reactions with aligned indices; CSTR term = F*(c_feed - c)."
         ' One rate per reaction in the array form; defaults of the rate entry points; accumulation starts empty. Shared rule A1: no swapped same-named arguments at resolved in-package call sites.')
DOES_NOT_DECIDE = "values for numeric/symbolic inputs beyond Python arithmetic (trusted); custom rate expressions"
ASSUMPTIONS = ["dict.get(k, 0) and numpy indexing semantics"]

F1 = Fraction(1)


def _atom_for(loopvar):
    def atom(node):
        # self.prod.get(k, 0) -> prod[k]; reac.get(sb, 0) -> reac[sb]
        if isinstance(node, ast.Call) and isinstance(node.func, ast.Attribute) and node.func.attr == "get" and len(node.args) == 2:
            d = U(node.func.value)
            if d.startswith("self."):
                d = d[5:]
            dflt = node.args[1]
            ok0 = isinstance(dflt, ast.Constant) and dflt.value == 0
            return "%s[%s]%s" % (d, U(node.args[0]), "" if ok0 else "{default=%s}" % U(dflt))
        if isinstance(node, ast.Subscript):
            d = U(node.value)
            if d.startswith("self."):
                d = d[5:]
            return "%s[%s]{no-default}" % (d, U(node.slice))
        return U(node)
    return atom


VIEWS = {
    "net_stoich": {"prod": 1, "reac": -1, "inact_prod": 1, "inact_reac": -1},
    "all_reac_stoich": {"reac": 1, "inact_reac": 1},
    "active_reac_stoich": {"reac": 1},
    "all_prod_stoich": {"prod": 1, "inact_prod": 1},
    "active_prod_stoich": {"prod": 1},
}


def _gen_of_return(fn):
    rets = [n for n in walk_shallow(fn) if isinstance(n, ast.Return)]
    if len(rets) != 1:
        raise AnalysisError("%s: expected a single return" % fn.name)
    v = rets[0].value
    if isinstance(v, ast.Call) and call_name(v) in ("tuple", "list") and len(v.args) == 1:
        v = v.args[0]
    if not isinstance(v, (ast.GeneratorExp, ast.ListComp)):
        raise AnalysisError("%s: return value is not a comprehension" % fn.name)
    return rets[0], v


def r1_stoich_views(ctx):
    for name, want in VIEWS.items():
        fn = ctx.func(CHEM, "Reaction." + name)
        a = CHEM + ":Reaction." + name
        ret, gen = _gen_of_return(fn)
        g = gen.generators[0]
        kv = target_names(g.target)[0]
        src_ok = U(g.iter) == fn.args.args[1].arg and not g.ifs and len(gen.generators) == 1
        lf = linform(gen.elt, _atom_for(kv))
        wantlf = {"%s[%s]" % (d, kv): Fraction(c) for d, c in want.items()}
        ctx.check(src_ok and lf == wantlf, a, "linear-form",
                  "%s must be %s for every key of its argument; found %s over `%s`" % (name, lin_str(wantlf), lin_str(lf), U(g.iter)),
                  node=ret, found=lin_str(lf), expected=lin_str(wantlf))
    # precipitate view: non-zero arm == net stoichiometry
    fn = ctx.func(CHEM, "Reaction._xprecipitate_stoich")
    a = CHEM + ":Reaction._xprecipitate_stoich"
    ret, gen = _gen_of_return(fn)
    g = gen.generators[0]
    kv = target_names(g.target)[0]
    e = gen.elt
    ok = isinstance(e, ast.IfExp) and isinstance(e.body, ast.Constant) and e.body.value == 0
    lf = linform(e.orelse, _atom_for(kv)) if ok else {}
    wantlf = {"%s[%s]" % (d, kv): Fraction(c) for d, c in VIEWS["net_stoich"].items()}
    ctx.check(ok and lf == wantlf, a, "nonzero-arm=net", "the non-masked arm must be the net stoichiometry; found %s" % lin_str(lf), node=ret)
    # coefficient matrix
    fn = ctx.func(STOICH, "get_coeff_mtx")
    a = STOICH + ":get_coeff_mtx"
    stores = [n for n in walk_shallow(fn) if isinstance(n, ast.Assign) and isinstance(n.targets[0], ast.Subscript) and U(n.targets[0].value) == "A"]
    if len(stores) != 1:
        raise AnalysisError("get_coeff_mtx: expected one store into A")
    st = stores[0]
    loops = for_loops(fn)
    roles = {}
    for lp in loops:
        if isinstance(lp.iter, ast.Call) and call_name(lp.iter) == "enumerate":
            tn = target_names(lp.target)
            roles[U(lp.iter.args[0])] = tn
    sub_t = roles.get("substances")
    st_t = roles.get("stoichs")
    if not sub_t or not st_t or len(st_t) != 3:
        raise AnalysisError("get_coeff_mtx: loop shape changed")
    ri, sb = sub_t
    ci, rn, pn = st_t
    lf = linform(st.value, _atom_for(sb))
    ctx.check(lf == {"%s[%s]" % (pn, sb): F1, "%s[%s]" % (rn, sb): -F1}, a, "prod-minus-reac",
              "matrix entry must be prod - reac of the pair (%s, %s) unpacked in that order; found %s" % (rn, pn, lin_str(lf)), node=st)
    ctx.check(U(st.targets[0].slice) in ("(%s, %s)" % (ri, ci), "%s, %s" % (ri, ci)), a, "row=substance,col=reaction",
              "entry stored at [%s]; rows are substances, columns reactions" % U(st.targets[0].slice), node=st)
    # ReactionSystem._stoichs and its five wrappers
    fn = ctx.func(RSYS, "ReactionSystem._stoichs")
    a = RSYS + ":ReactionSystem._stoichs"
    comps = [n for n in ast.walk(fn) if isinstance(n, ast.ListComp)]
    ok = False
    for c in comps:
        g = c.generators[0]
        if U(g.iter) == "self.rxns" and not g.ifs and U(c.elt).replace("(", "").replace(")", "") == "getattr%s, attrkeys" % U(g.target):
            ok = True
    d = none_default(fn, "keys")
    ctx.check(d is not None and U(d) == "self.substances.keys()", a, "default-keys", "keys must default to self.substances.keys() via `if keys is None:`; found %s" % (U(d) if d is not None else None), node=fn)
    ctx.check(ok, a, "row-per-reaction", "_stoichs must build one row getattr(rxn, attr)(keys) for every reaction in self.rxns", node=fn)
    for w, m in (("net_stoichs", "net_stoich"), ("all_reac_stoichs", "all_reac_stoich"), ("active_reac_stoichs", "active_reac_stoich"),
                 ("all_prod_stoichs", "all_prod_stoich"), ("active_prod_stoichs", "active_prod_stoich")):
        fn = ctx.func(RSYS, "ReactionSystem." + w)
        ret = [n for n in walk_shallow(fn) if isinstance(n, ast.Return)][-1]
        ctx.check(U(ret.value) == "self._stoichs('%s', keys)" % m, RSYS + ":ReactionSystem." + w, "wrapper",
                  "%s must return self._stoichs('%s', keys); found %s" % (w, m, U(ret.value)), node=ret)


def _conc_product(ctx, fn, anchor, loop_src_suffix, conc_of):
    """Check an accumulate-product loop over `<x>.reac.items()`.  conc_of(key var, fn) gives the
    expected concentration atom."""
    loops = [lp for lp in for_loops(fn) if isinstance(lp.iter, ast.Call) and isinstance(lp.iter.func, ast.Attribute) and lp.iter.func.attr == "items"]
    if not loops:
        raise AnalysisError("%s: no loop over .items()" % anchor)
    lp = loops[0]
    src = U(lp.iter.func.value)
    ctx.check(src.endswith(loop_src_suffix) and src.split(".")[-1] == "reac", anchor, "active-reactants-only",
              "the concentration product ranges over `%s`; it must range over the active reactants `.reac` only" % src, node=lp)
    k, v = target_names(lp.target)
    augs = [s for s in walk_shallow(lp) if isinstance(s, (ast.AugAssign, ast.Assign)) and not isinstance(getattr(s, "value", None), ast.Call) or
            (isinstance(s, ast.AugAssign))]
    upd = [s for s in lp.body if isinstance(s, ast.AugAssign) and isinstance(s.op, ast.Mult)]
    upd += [s for s in lp.body if isinstance(s, ast.Assign) and isinstance(s.value, ast.BinOp) and isinstance(s.value.op, ast.Mult)
            and U(s.value.left) == U(s.targets[0])]
    if len(upd) != 1:
        ctx.violation(anchor, "product-update", "expected exactly one `acc *= conc ** coeff` in the loop, found %d" % len(upd), node=lp)
        return None
    s = upd[0]
    acc = U(s.target) if isinstance(s, ast.AugAssign) else U(s.targets[0])
    val = s.value if isinstance(s, ast.AugAssign) else s.value.right
    want_atom = conc_of(k, lp)
    c, p = monomial(val)
    ok = c == 1 and set(p) == {want_atom} and p[want_atom] == {v: F1}
    ctx.check(ok, anchor, "factor=conc**coeff", "each factor must be %s ** %s; found %s" % (want_atom, v, mono_str((c, p))), node=s)
    ctx.check(not any(isinstance(x, (ast.If, ast.Break, ast.Continue)) for x in walk_shallow(lp)), anchor, "all-reactants",
              "the product loop skips or filters reactants", node=lp)
    # accumulator starts at 1
    init = None
    for st in walk_shallow(fn):
        if isinstance(st, ast.Assign) and U(st.targets[0]) == acc and isinstance(st.value, ast.Constant):
            init = st.value.value
    ctx.check(init == 1, anchor, "starts-at-1", "the product accumulator starts at %r" % init, node=lp)
    return acc


def r2_active_product(ctx):
    fn = ctx.func(RATES, "MassAction.active_conc_prod")
    a = RATES + ":MassAction.active_conc_prod"
    acc = _conc_product(ctx, fn, a, "reaction.reac", lambda k, lp: "variables[%s]" % k)
    ret = [n for n in walk_shallow(fn) if isinstance(n, ast.Return)][-1]
    ctx.check(acc is not None and U(ret.value) == acc, a, "returns-product", "returns %s" % U(ret.value), node=ret)
    # MassAction.__call__ = rate_coeff * active_conc_prod
    fn = ctx.func(RATES, "MassAction.__call__")
    ret = [n for n in walk_shallow(fn) if isinstance(n, ast.Return)][-1]
    v = ret.value
    ok = isinstance(v, ast.BinOp) and isinstance(v.op, ast.Mult) and {call_name(v.left), call_name(v.right)} == {"self.rate_coeff", "self.active_conc_prod"}
    if ok:
        for c in (v.left, v.right):
            r = kwarg(c, "reaction")
            ok = ok and r is not None and U(r) == "reaction" and U(c.args[0]) == "variables"
    ctx.check(ok, RATES + ":MassAction.__call__", "k*conc-product", "MassAction.__call__ must be rate_coeff(...) * active_conc_prod(...) for the same reaction; found %s" % U(v), node=ret)
    fn = ctx.func(RATES, "MassAction.rate_coeff")
    ok = False
    for n in walk_shallow(fn):
        if isinstance(n, ast.Assign) and isinstance(n.targets[0], (ast.Tuple, ast.List)) and len(n.targets[0].elts) == 1 \
                and isinstance(n.value, ast.Call) and call_name(n.value) == "self.all_args":
            nm = U(n.targets[0].elts[0])
            rets = [r for r in walk_shallow(fn) if isinstance(r, ast.Return)]
            ok = len(rets) == 1 and U(rets[0].value) == nm
    ctx.check(ok, RATES + ":MassAction.rate_coeff", "single-arg", "rate_coeff must return the single evaluated argument unchanged", node=fn)
    # array form
    fn = ctx.func(ODE, "law_of_mass_action_rates")
    a = ODE + ":law_of_mass_action_rates"

    def conc_of(k, lp):
        # conc[s_idx] with s_idx = rsys.as_substance_index(k)
        for s in lp.body:
            if isinstance(s, ast.Assign) and isinstance(s.value, ast.Call) and call_name(s.value) == "rsys.as_substance_index" and U(s.value.args[0]) == k:
                return "conc[%s]" % U(s.targets[0])
        return "conc[rsys.as_substance_index(%s)]" % k
    acc = _conc_product(ctx, fn, a, "rxn.reac", conc_of)
    ys = [n for n in walk_shallow(fn) if isinstance(n, ast.Yield)]
    ok = False
    for y in ys:
        try:
            c, p = monomial(y.value)
        except Exception:
            continue
        if acc and p == {acc: {"1": F1}, "rxn.param": {"1": F1}} and c == 1:
            ok = True
    ctx.check(ok, a, "rate=k*product", "the plain-constant arm must yield product * rxn.param", node=fn)
    outer = [lp for lp in for_loops(fn) if "rsys.rxns" in U(lp.iter)]
    ctx.check(len(outer) == 1 and U(outer[0].iter) in ("enumerate(rsys.rxns)", "rsys.rxns"), a, "all-reactions", "outer loop is %s" % ([U(x.iter) for x in outer]), node=fn)
    if len(outer) == 1:
        # rates[i] belongs to reaction i (dCdt_list indexes them that way): each pass yields exactly once or raises
        cnt = {c[1] if isinstance(c, tuple) else c for c in yield_counts(outer[0].body)}
        ctx.check(cnt == {1}, a, "one-rate-per-reaction", "every pass of the reaction loop must yield exactly one rate (or raise); possible yield counts per pass: %s" % sorted(cnt, key=str), node=outer[0])
        # RateExpr arm: a MassAction is evaluated with substance key -> concentration (aligned by zip), anything else is refused
        zs = [c for c in ast.walk(outer[0]) if isinstance(c, ast.Call) and call_name(c) == "zip"]
        ok = len(zs) == 1 and [U(x) for x in zs[0].args] == ["rsys.substances.keys()", "conc"]
        ctx.check(ok, a, "keys-zip-conc", "rate expressions must see {substance key: concentration} built as zip(rsys.substances.keys(), conc); found %s" % [U(z) for z in zs], node=outer[0])
        ys2 = [y for y in ys if isinstance(y.value, ast.Call) and U(y.value.func) == "rxn.param"]
        ok = len(ys2) == 1 and kwarg(ys2[0].value, "reaction") is not None and U(kwarg(ys2[0].value, "reaction")) == "rxn"
        ctx.check(ok, a, "expr-evaluated-for-rxn", "a MassAction parameter must be evaluated as rxn.param(<variables>, reaction=rxn)", node=outer[0])
    # order
    fn = ctx.func(CHEM, "Reaction.order")
    ret = [n for n in walk_shallow(fn) if isinstance(n, ast.Return)][-1]
    ctx.check(U(ret.value) == "sum(self.reac.values())", CHEM + ":Reaction.order", "order=sum-active-reac", "order is %s" % U(ret.value), node=ret)
    # none of these reads inactive coefficients
    for rel, q in ((RATES, "MassAction.active_conc_prod"), (ODE, "law_of_mass_action_rates"), (CHEM, "Reaction.order")):
        fn = ctx.func(rel, q)
        bad = [n.attr for n in ast.walk(fn) if isinstance(n, ast.Attribute) and (n.attr.startswith("inact_") or n.attr.startswith("all_"))]
        ctx.check(not bad, "%s:%s" % (rel, q), "no-inactive-reads", "reads %s" % bad, node=fn)


def r3_rate_alignment(ctx):
    fn = ctx.func(CHEM, "Reaction.rate")
    a = CHEM + ":Reaction.rate"
    ret = [n for n in walk_shallow(fn) if isinstance(n, ast.Return)][-1]
    dc = ret.value
    if not isinstance(dc, ast.DictComp):
        raise AnalysisError("Reaction.rate does not return a dict comprehension")
    g = dc.generators[0]
    ok = isinstance(g.iter, ast.Call) and call_name(g.iter) == "zip" and len(g.iter.args) == 2
    x = U(g.iter.args[0]) if ok else None
    ok = ok and isinstance(g.iter.args[1], ast.Call) and call_name(g.iter.args[1]) == "self.net_stoich" and U(g.iter.args[1].args[0]) == x and not g.ifs
    ctx.check(ok, a, "same-key-list", "keys and net stoichiometry must come from the same key list: %s" % U(g.iter), node=ret)
    k, v = target_names(g.target)
    c, p = monomial(dc.value)
    ctx.check(U(dc.key) == k and c == 1 and set(p) == {"srat", v} and all(e == {"1": F1} for e in p.values()), a, "rate*net",
              "each entry must be key -> srat * net coefficient; found %s -> %s" % (U(dc.key), mono_str((c, p))), node=ret)
    # srat: the evaluated rate expression for this reaction
    asg = [n for n in walk_shallow(fn) if isinstance(n, ast.Assign) and U(n.targets[0]) == "srat"]
    ok = any(isinstance(n.value, ast.Call) and U(n.value.func) == "ratex" and kwarg(n.value, "reaction") is not None and U(kwarg(n.value, "reaction")) == "self"
             and kwarg(n.value, "backend") is not None and U(n.value.args[0]) == "variables" for n in asg)
    ctx.check(ok, a, "ratex-evaluated-for-self", "srat must be ratex(variables, backend=backend, reaction=self)", node=fn)
    # default ratex / keys
    dflt = {n: none_default(fn, n) for n in ("variables", "substance_keys", "ratex")}
    got = {n: (U(v) if v is not None else None) for n, v in dflt.items()}
    ctx.check(got == {"variables": "{}", "substance_keys": "self.keys()", "ratex": "self.rate_expr()"}, a, "defaults",
              "omitted arguments must default as `if x is None: x = ...` to {} / self.keys() / self.rate_expr(); found %s" % got, node=fn)
    # srat is bound on both arms of the Expr test: a plain number passed as ratex is the rate itself
    arms = [n for n in walk_shallow(fn) if isinstance(n, ast.If) and isinstance(n.test, ast.Call) and call_name(n.test) == "isinstance" and U(n.test.args[0]) == "ratex"]
    ok = len(arms) == 1 and U(arms[0].test.args[1]) == "Expr"
    if ok:
        b = [x for x in arms[0].body if isinstance(x, ast.Assign) and U(x.targets[0]) == "srat"]
        o = [x for x in arms[0].orelse if isinstance(x, ast.Assign) and U(x.targets[0]) == "srat"]
        ok = len(b) == 1 and len(o) == 1 and U(o[0].value) == "ratex" and isinstance(b[0].value, ast.Call)
    ctx.check(ok, a, "srat-both-arms", "srat must be ratex(...) for an Expr and ratex itself otherwise", node=fn)
    re_ = ctx.func(CHEM, "Reaction.rate_expr")
    t = U(re_)
    ctx.check("return MassAction([self.param])" in t and "return self.param" in t, CHEM + ":Reaction.rate_expr", "plain-constant->MassAction",
              "a plain rate constant must be wrapped as MassAction([self.param])", node=re_)


def r4_accumulation(ctx):
    fn = ctx.func(RSYS, "ReactionSystem.rates")
    a = RSYS + ":ReactionSystem.rates"
    outer = [lp for lp in for_loops(fn) if "self.rxns" in U(lp.iter)]
    if len(outer) != 1:
        raise AnalysisError("ReactionSystem.rates: loop over self.rxns not found")
    lp = outer[0]
    ctx.check(U(lp.iter) == "zip(self.rxns, ratexs)", a, "all-reactions", "reactions iterated as %s" % U(lp.iter), node=lp)
    ctx.check(not any(isinstance(x, (ast.Break, ast.Continue, ast.Return)) for x in walk_shallow(lp)), a, "no-early-exit", "the accumulation loop exits early", node=lp)
    rxn, ratex = target_names(lp.target)
    inner = [l2 for l2 in for_loops(lp)]
    ok = len(inner) == 1 and isinstance(inner[0].iter, ast.Call) and U(inner[0].iter.func) == "%s.rate(variables, backend, substance_keys, ratex=%s).items" % (rxn, ratex)
    ctx.check(ok, a, "per-reaction-rate", "inner loop source is %s" % (U(inner[0].iter) if inner else None), node=lp)
    if inner:
        k, v = target_names(inner[0].target)
        ups = subscript_stores(inner[0].body, "result")
        kinds = sorted(u.kind for u in ups)
        good = True
        for u in ups:
            if U(u.key) != k or U(u.value) != v:
                good = False
            if u.kind == "=":
                g = u.cond and is_not_in_test(u.cond[0], u.key, "result")
                if g is None or g != u.cond[1]:
                    good = False
            elif u.kind == "+=":
                if u.cond is not None:
                    g = is_not_in_test(u.cond[0], u.key, "result")
                    if g is None or g == u.cond[1]:
                        good = False
            else:
                good = False
        # either `if k not in result: result[k] = v / else: result[k] += v`, or the .get(k, 0) form that needs no first store
        has_add = ("+=" in kinds and "=" in kinds) or (kinds == ["+="] and isinstance(ups[0].stmt, ast.Assign) and ".get(" in U(ups[0].stmt.value))
        ctx.check(good and has_add, a, "sum-per-key", "contributions must be summed per substance key (result[k] = v first, += v afterwards); found %s" % [(U(u.key), u.kind, U(u.value)) for u in ups], node=inner[0])
    init = [n for n in fn.body if isinstance(n, ast.Assign) and U(n.targets[0]) == "result"]
    ctx.check(len(init) == 1 and U(init[0].value) in ("{}", "dict()") and fn.body.index(init[0]) < fn.body.index(lp), a, "starts-empty",
              "result must start as an empty dict before the accumulation loop", node=fn)
    d = none_default(fn, "ratexs")
    ctx.check(d is not None and U(d) in ("[None] * self.nr", "[None] * len(self.rxns)"), a, "default-ratexs",
              "without ratexs every reaction uses its own rate expression: `if ratexs is None: ratexs = [None] * self.nr`; found %s" % (U(d) if d is not None else None), node=fn)
    # CSTR term
    cs = None
    for n in walk_shallow(fn):
        if isinstance(n, ast.If) and U(n.test) == "cstr_fr_fc":
            cs = n
    if cs is None:
        raise AnalysisError("ReactionSystem.rates: CSTR block not found")
    unp = [s for s in cs.body if isinstance(s, ast.Assign) and U(s.value) == "cstr_fr_fc"]
    lps = [s for s in cs.body if isinstance(s, ast.For)]
    if not unp or not lps:
        raise AnalysisError("ReactionSystem.rates: CSTR block shape changed")
    fr, fc = target_names(unp[0].targets[0])
    l3 = lps[0]
    ok_src = U(l3.iter) == "%s.items()" % fc and len(target_names(l3.target)) == 2
    ctx.check(ok_src, a, "cstr-all-feeds", "the stirred-tank term must be added for exactly the substances of the feed map (`for sk, fck in %s.items()`); loop is `for %s in %s`" % (
        fc, U(l3.target), U(l3.iter)), node=l3)
    if not ok_src:
        return _dcdt(ctx)
    sk, fck = target_names(l3.target)
    ups = subscript_stores(l3.body, "result")
    ok = len(ups) == 1 and ups[0].kind == "+=" and U(ups[0].key) == sk and ups[0].cond is None
    if ok:
        val = ups[0].value
        ok = isinstance(val, ast.BinOp) and isinstance(val.op, ast.Mult)
        if ok:
            fa, fb = (val.left, val.right) if U(val.left) == "variables[%s]" % fr else (val.right, val.left)
            ok = U(fa) == "variables[%s]" % fr and linform(fb) == {"variables[%s]" % fck: F1, "variables[%s]" % sk: -F1}
    ctx.check(ok, a, "cstr=F*(c_feed-c)", "CSTR term must be result[sk] += variables[fr] * (variables[feed] - variables[sk]); found %s" % (U(ups[0].stmt) if ups else None), node=l3)
    _dcdt(ctx)


def _dcdt(ctx):
    # dCdt_list
    fn = ctx.func(ODE, "dCdt_list")
    a = ODE + ":dCdt_list"
    rng = {}
    for lp in for_loops(fn):
        if isinstance(lp.iter, ast.Call) and call_name(lp.iter) == "range" and len(lp.iter.args) == 1:
            rng[U(lp.iter.args[0])] = target_names(lp.target)[0]
    s_, r_ = rng.get("rsys.ns"), rng.get("rsys.nr")
    ups = subscript_stores(fn.body, "f")
    ok = bool(s_ and r_ and len(ups) == 1 and ups[0].kind == "+=" and U(ups[0].key) == s_)
    if ok:
        c, p = monomial(ups[0].value)
        ok = c == 1 and p == {"net_stoichs[%s, %s]" % (r_, s_): {"1": F1}, "rates[%s]" % r_: {"1": F1}}
    ctx.check(ok, a, "f[s]+=N[r,s]*rates[r]", "dCdt must accumulate net_stoichs[r, s] * rates[r] into f[s] for all r < nr, s < ns; found %s" % (U(ups[0].stmt) if ups else None), node=fn)
    asg = [n for n in walk_shallow(fn) if isinstance(n, ast.Assign) and U(n.targets[0]) == "net_stoichs"]
    ctx.check(bool(asg) and U(asg[0].value) == "rsys.net_stoichs()", a, "uses-net-stoichs", "net_stoichs = %s" % (U(asg[0].value) if asg else None), node=fn)
    init = [n for n in walk_shallow(fn) if isinstance(n, ast.Assign) and U(n.targets[0]) == "f"]
    ctx.check(bool(init) and U(init[0].value) == "[0] * rsys.ns", a, "zero-init", "f initialised as %s" % (U(init[0].value) if init else None), node=fn)


RULES = [
    Rule("C03-R1", r1_stoich_views, 13, "stoichiometry views / coefficient matrix as linear forms"),
    Rule("C03-R2", r2_active_product, 14, "concentration product over active reactants only, exponent = coefficient"),
    Rule("C03-R3", r3_rate_alignment, 5, "Reaction.rate: rate x net stoichiometry of the same key list"),
    Rule("C03-R4", r4_accumulation, 9, "accumulation over all reactions; CSTR term; dCdt_list index roles"),
]

MUTANTS = [
    Mutant("net-inact-sign", [(CHEM, "            + self.inact_prod.get(k, 0)\n            - self.inact_reac.get(k, 0)\n            for k in substance_keys", "            + self.inact_prod.get(k, 0)\n            + self.inact_reac.get(k, 0)\n            for k in substance_keys")], "C03-R1", "net_stoich"),
    Mutant("net-drops-inact-prod", [(CHEM, "            - self.reac.get(k, 0)\n            + self.inact_prod.get(k, 0)\n            - self.inact_reac.get(k, 0)\n            for k in substance_keys", "            - self.reac.get(k, 0)\n            - self.inact_reac.get(k, 0)\n            for k in substance_keys")], "C03-R1", "net_stoich"),
    Mutant("all-reac-uses-inact-prod", [(CHEM, "self.reac.get(k, 0) + self.inact_reac.get(k, 0) for k in substances", "self.reac.get(k, 0) + self.inact_prod.get(k, 0) for k in substances")], "C03-R1", "all_reac"),
    Mutant("coeff-mtx-sign", [(STOICH, "A[ri, ci] = prod.get(sb, 0) - reac.get(sb, 0)", "A[ri, ci] = reac.get(sb, 0) - prod.get(sb, 0)")], "C03-R1", "get_coeff"),
    Mutant("net-default-1", [(CHEM, "            self.prod.get(k, 0)\n            - self.reac.get(k, 0)\n            + self.inact_prod", "            self.prod.get(k, 1)\n            - self.reac.get(k, 0)\n            + self.inact_prod")], "C03-R1", "net_stoich"),
    Mutant("wrapper-crossed", [(RSYS, 'return self._stoichs("all_reac_stoich", keys)', 'return self._stoichs("active_reac_stoich", keys)')], "C03-R1", "all_reac_stoichs"),
    Mutant("conc-prod-inactive", [(RATES, "for k, v in reaction.reac.items():", "for k, v in chain(reaction.reac.items(), reaction.inact_reac.items()):")], "C03-R2", "active"),
    Mutant("conc-prod-no-exponent", [(RATES, "result *= variables[k] ** v", "result *= variables[k]")], "C03-R2", "factor"),
    Mutant("lomar-exponent-from-prod", [(ODE, "for substance_key, coeff in rxn.reac.items():", "for substance_key, coeff in rxn.prod.items():")], "C03-R2", "active"),
    Mutant("order-all-reac", [(CHEM, "return sum(self.reac.values())", "return sum(self.reac.values()) + sum(self.inact_reac.values())")], "C03-R2", "order"),
    Mutant("rate-keys-misaligned", [(CHEM, "k: srat * v for k, v in zip(substance_keys, self.net_stoich(substance_keys))", "k: srat * v for k, v in zip(substance_keys, self.net_stoich(self.keys()))")], "C03-R3", "same-key-list"),
    Mutant("rate-active-only", [(CHEM, "k: srat * v for k, v in zip(substance_keys, self.net_stoich(substance_keys))", "k: srat * v for k, v in zip(substance_keys, self.active_prod_stoich(substance_keys))")], "C03-R3", "same-key-list"),
    Mutant("rates-overwrite", [(RSYS, "                    result[k] += v", "                    result[k] = v")], "C03-R4", "sum-per-key"),
    Mutant("rates-first-n", [(RSYS, "for rxn, ratex in zip(self.rxns, ratexs):", "for rxn, ratex in zip(self.rxns[:1], ratexs):")], "C03-R4", "all-reactions"),
    Mutant("cstr-sign", [(RSYS, "variables[fr_key] * (variables[fck] - variables[sk])", "variables[fr_key] * (variables[sk] - variables[fck])")], "C03-R4", "cstr"),
    Mutant("dcdt-transposed", [(ODE, "f[idx_s] += net_stoichs[idx_r, idx_s] * rates[idx_r]", "f[idx_s] += net_stoichs[idx_s, idx_r] * rates[idx_r]")], "C03-R4", "f[s]"),
]

MUTANTS.append(Mutant("cstr-outflow-for-unfed-species", [(RSYS, "            for sk, fck in fc.items():\n                result[sk] += variables[fr_key] * (variables[fck] - variables[sk])", "            for sk in result:\n                c_feed = variables[fc[sk]] if sk in fc else 0\n                result[sk] += variables[fr_key] * (c_feed - variables[sk])")], "C03-R4", "cstr-all-feeds"))

TWINS = [
    Twin("net-reordered-terms", [(CHEM, "            self.prod.get(k, 0)\n            - self.reac.get(k, 0)\n            + self.inact_prod.get(k, 0)\n            - self.inact_reac.get(k, 0)", "            self.prod.get(k, 0)\n            + self.inact_prod.get(k, 0)\n            - self.reac.get(k, 0)\n            - self.inact_reac.get(k, 0)")]),
    Twin("conc-prod-assign-form", [(RATES, "result *= variables[k] ** v", "result = result * variables[k] ** v")]),
    Twin("cstr-commuted", [(RSYS, "variables[fr_key] * (variables[fck] - variables[sk])", "(variables[fck] - variables[sk]) * variables[fr_key]")]),
    Twin("rate-commuted", [(CHEM, "k: srat * v for k, v in zip(", "k: v * srat for k, v in zip(")]),
    Twin("rates-get-idiom", [(RSYS, "                if k not in result:\n                    result[k] = v\n                else:\n                    result[k] += v", "                result[k] = result.get(k, 0) + v")]),
]

# shared rule A4 (no new state kept across calls)
MUTANTS.append(Mutant("rate-expr-kept-on-the-reaction", [(CHEM, "            except AttributeError:\n                if isinstance(self.param, str):\n                    return MassAction.fk(self.param)", "            except AttributeError:\n                if isinstance(self.param, str):\n                    self._rate_expr = MassAction.fk(self.param)\n                    return self._rate_expr")], "C03-A4", "new-state"))
