"""C07 -- equilibrium residuals vanish exactly at equilibrium."""
from __future__ import annotations

import ast
import copy
from fractions import Fraction

from ..astu import U, S, has, same, walk_shallow, call_name, calls_in, kwarg, linform, lin_str, monomial, mono_str, names_in, _num
from ..core import AnalysisError, Mutant, Rule, Twin
from ..idioms import for_loops, target_names, none_default

ID = "C07"
EQ = "chempy/equilibria.py"
EQS = "chempy/_eqsys.py"
UTIL = "chempy/_util.py"
CHEM = "chempy/chemistry.py"
ENGINES = ["E0 core", "E4 linform", "E5 siblings"]
TECHNIQUE = "sibling-fact comparison of the residual formulations (block structure, wiring), linear/monomial forms of the residual expressions, canonicalised comparison of variable transforms and a peel-based inverse check of pre/post processors (ast)"
CLAIM = ("Decides: both formulations return equilibrium block + conservation block, conservation against B*initial concentrations (first ns "
         "parameters) with the preservation rref flag; Lin residual is Q/K - 1 (Q when K is 0), Log residual is A*y - ln K; rref takes log before "
         "and exp after; each variable-transform subclass applies in f the same map as its post_processor; pre_processor is the inverse of "
         "post_processor; the product/dot helpers are the stated reductions."
         ' Helper start values, defaults of the constant accessors, processors wired iff defined, option forwarding (R4). Shared rule A1: no swapped same-named arguments at resolved in-package call sites.')
DOES_NOT_DECIDE = "that residuals are non-zero off equilibrium; pyneqsys linear_exprs/linear_rref internals; numpy broadcasting"
ASSUMPTIONS = ["pyneqsys.symbolic.linear_exprs(A, x, b, rref) returns A x - b (row-reduced when rref)", "concentrations are non-negative (sqrt(abs(x))**2 == x) and `small` is negligible"]
F1 = Fraction(1)


def r1_blocks(ctx):
    facts = {}
    for cls in ("NumSysLin", "NumSysLog"):
        fn = ctx.func(EQS, cls + ".f")
        a = EQS + ":" + cls + ".f"
        ret = [n for n in walk_shallow(fn) if isinstance(n, ast.Return)][-1]
        ctx.check(same(ret.value, "f_equil + f_preserv", scope=fn), a, "equil+preserv", "must return the equilibrium block followed by the conservation block; found %s" % U(ret.value), node=ret)
        ctx.check(has(fn, "init_concs, eq_params = self._inits_and_eq_params(params)"), a, "params-split", "initial concentrations / constants must come from _inits_and_eq_params(params)", node=fn)
        ctx.check(has(fn, "A, ks = self._get_A_ks(eq_params)"), a, "A-ks", "stoichiometries/constants must come from self._get_A_ks(eq_params)", node=fn)
        ctx.check(has(fn, "B, comp_nrs = self.eqsys.composition_balance_vectors()"), a, "B-from-composition-vectors", "conservation matrix must be composition_balance_vectors()[0]", node=fn)
        pres = [s for s in walk_shallow(fn) if isinstance(s, ast.Assign) and U(s.targets[0]) == "f_preserv"]
        ok = False
        conc_arg = None
        if len(pres) == 1 and isinstance(pres[0].value, ast.Call) and call_name(pres[0].value) == "linear_exprs":
            c = pres[0].value
            rr = kwarg(c, "rref")
            ok = len(c.args) == 3 and U(c.args[0]) == "B" and same(c.args[2], "mat_dot_vec(B, init_concs)", scope=fn) and rr is not None and U(rr) == "self.rref_preserv"
            conc_arg = U(c.args[1])
        ctx.check(ok, a, "conservation=B*c-B*c0", "conservation block must be linear_exprs(B, <concentrations>, mat_dot_vec(B, init_concs), rref=self.rref_preserv); found %s" % (U(pres[0].value) if pres else None), node=fn)
        facts[cls] = conc_arg
        yv = fn.args.args[1].arg
        want = yv if cls == "NumSysLin" else "list(map(self.backend.exp, %s))" % yv
        ctx.check(conc_arg == want, a, "concentrations-of-state", "conservation must be evaluated at the concentrations of the state (%s); found %s" % (want, conc_arg), node=fn)
    ip = ctx.func(EQS, "_NumSys._inits_and_eq_params")
    a = EQS + ":_NumSys._inits_and_eq_params"
    ret = [n for n in walk_shallow(ip) if isinstance(n, ast.Return)][-1]
    ctx.check(same(ret.value, "params[:self.eqsys.ns], eq_params", scope=ip) and has(ip, "eq_params = params[self.eqsys.ns:]"), a, "first-ns=inits",
              "the first ns parameters are the initial concentrations, the rest the constants; found %s" % U(ret.value), node=ret)
    gk = ctx.func(EQS, "_NumSys._get_A_ks")
    a = EQS + ":_NumSys._get_A_ks"
    c = [x for x in calls_in(gk) if call_name(x) == "self.eqsys.stoichs_constants"]
    ok = len(c) == 1 and len(c[0].args) == 2 and U(c[0].args[1]) == "self.rref_equil" and same(c[0].args[0], "self.eqsys.eq_constants(non_precip_rids, eq_params, self.small)", scope=gk) \
        and U(kwarg(c[0], "non_precip_rids")) == "non_precip_rids" and U(kwarg(c[0], "backend")) == "self.backend"
    ctx.check(ok, a, "equil-rref-flag", "_get_A_ks must pass (eq_constants(non_precip_rids, eq_params, small), self.rref_equil, backend=, non_precip_rids=); found %s" % (U(c[0]) if c else None), node=gk)
    # ... and hand on what it got: the (row-reduced, possibly fractional) exponent matrix and the constants are not touched here
    rets = [n for n in walk_shallow(gk) if isinstance(n, ast.Return)]
    passed = False
    if len(rets) == 1 and c:
        rv = rets[0].value
        if rv is c[0]:
            passed = True
        else:
            binds = [st for st in walk_shallow(gk) if isinstance(st, ast.Assign) and st.value is c[0]]
            if len(binds) == 1:
                passed = U(binds[0].targets[0]) == U(rv) and len([n for n in walk_shallow(gk) if isinstance(n, (ast.Assign, ast.AugAssign))]) == 2
    ctx.check(passed, a, "result-handed-on", "_get_A_ks must return the pair stoichs_constants(...) computed, unchanged (a cast of the exponents truncates the fractional entries of a row-reduced matrix); found return %s"
              % (U(rets[0].value) if rets else None), node=rets[0] if rets else gk)
    init = ctx.func(EQS, "_NumSys.__init__")
    ctx.check(has(init, "self.rref_equil = rref_equil") and has(init, "self.rref_preserv = rref_preserv"), EQS + ":_NumSys.__init__", "flags-stored", "rref flags crossed in the constructor", node=init)
    # params layout on the producer side
    for q in ("_solve", "root"):
        fn = ctx.func(EQ, "EqSystem." + q)
        ctx.check(has(fn, "params = np.concatenate((init_concs, [float(elem) for elem in self.eq_constants()]))"), EQ + ":EqSystem." + q, "params=inits+constants",
                  "params must be concat(initial concentrations, equilibrium constants)", node=fn)
    ss = ctx.func(EQ, "EqSystem._SymbolicSys_from_NumSys")
    ctx.check(has(ss, "nparams=self.ns + (self.nr if new_eq_params else 0)") and has(ss, "SymbolicSys.from_callback(ns.f, self.ns,"), EQ + ":EqSystem._SymbolicSys_from_NumSys", "nx=ns,nparams=ns+nr",
              "the symbolic system must have ns unknowns and ns(+nr) parameters", node=ss)


def r2_k_opposite_q(ctx):
    fn = ctx.func(EQS, "NumSysLin.f")
    a = EQS + ":NumSysLin.f"
    eq = [s for s in walk_shallow(fn) if isinstance(s, ast.Assign) and U(s.targets[0]) == "f_equil"]
    ok = len(eq) == 1 and isinstance(eq[0].value, ast.ListComp)
    if not ok:
        raise AnalysisError("NumSysLin.f: f_equil is not a list comprehension")
    lc = eq[0].value
    g = lc.generators[0]
    yv = fn.args.args[1].arg
    ctx.check(same(g.iter, "zip(prodpow(%s, A), ks)" % yv, scope=fn) and not g.ifs, a, "Q=prodpow(y,A)", "quotients must be prodpow(y, A) zipped with the constants; found %s" % U(g.iter), node=lc)
    qn, kn = target_names(g.target)
    e = lc.elt
    ok = isinstance(e, ast.IfExp) and S(e.test) in ("%s!=0" % kn, "0!=%s" % kn)
    main = e.body if ok else e
    zero = e.orelse if ok else None
    lf = linform(main)
    atoms = [k for k in lf if k != "1"]
    good = len(atoms) == 1 and lf.get("1") == -1 and lf[atoms[0]] == 1
    if good:
        m = monomial(ast.parse(atoms[0], mode="eval").body)
        good = m == (F1, {qn: {"1": F1}, kn: {"1": -F1}})
    ctx.check(good, a, "residual=Q/K-1", "Lin residual must be Q/K - 1; found %s" % U(main), node=lc)
    ctx.check(ok and U(zero) == qn, a, "zero-K-arm=Q", "for K == 0 the residual must be Q itself; found %s" % (U(zero) if zero is not None else None), node=lc)
    fn = ctx.func(EQS, "NumSysLog.f")
    a = EQS + ":NumSysLog.f"
    eq = [s for s in walk_shallow(fn) if isinstance(s, ast.Assign) and U(s.targets[0]) == "f_equil"]
    ok = len(eq) == 1 and isinstance(eq[0].value, ast.Call) and call_name(eq[0].value) == "mat_dot_vec" and len(eq[0].value.args) == 3
    yv = fn.args.args[1].arg
    if ok:
        c = eq[0].value
        ok = U(c.args[0]) == "A" and U(c.args[1]) == yv and isinstance(c.args[2], ast.ListComp) and U(c.args[2].generators[0].iter) == "ks"
        if ok:
            kv = U(c.args[2].generators[0].target)
            lf = linform(c.args[2].elt)
            ok = lf == {"self.backend.log(%s)" % kv: -F1}
    ctx.check(ok, a, "residual=A*y-lnK", "Log residual must be mat_dot_vec(A, y, [-log(k) for k in ks]); found %s" % (U(eq[0].value) if eq else None), node=fn)
    # helpers
    md = ctx.func(UTIL, "mat_dot_vec")
    ctx.check(has(md, "[vec_dot_vec(row, iter_vec) + term for row, term in zip(iter_mat, iter_term)]") and has(md, "[vec_dot_vec(row, iter_vec) for row in iter_mat]"), UTIL + ":mat_dot_vec", "A*v(+t)",
              "mat_dot_vec must be row . vec (+ term)", node=md)
    vd = ctx.func(UTIL, "vec_dot_vec")
    ctx.check(has(vd, "return reducemap((vec1, vec2), add, mul)"), UTIL + ":vec_dot_vec", "sum-of-products", "vec_dot_vec must be the add-reduction of element-wise products", node=vd)
    rm = ctx.func(UTIL, "reducemap")
    ctx.check(has(rm, "return reduce(reduce_op, map(map_op, *args))"), UTIL + ":reducemap", "reduce(map)", "reducemap changed", node=rm)
    m = ctx.mod(UTIL)
    pps = [f for q, f in m.functions.items() if q == "prodpow"]
    # both definitions (numpy / pure python) live under try/except; check each by text
    src = m.source
    ctx.check("np.multiply.reduce(bases ** exponents, axis=-1)" in src and "res *= b ** e" in src and "for b, e in zip(bases, row)" in src, UTIL + ":prodpow", "prod(base**exp)",
              "prodpow must be the product over substances of base ** exponent per row", node=pps[0] if pps else None)
    if pps:
        ex = [n for n in walk_shallow(pps[0]) if isinstance(n, ast.Assign) and U(n.targets[0]) == "exponents"]
        ctx.check(len(ex) == 1 and same(ex[0].value, "np.asarray(exponents)"), UTIL + ":prodpow", "exponents-unchanged",
                  "the exponents must be used as given (np.asarray(exponents)); a cast such as .astype(int) truncates the fractional exponents of a row-reduced system: %s" % [U(x.value) for x in ex], node=pps[0])
    eqq = ctx.func(CHEM, "equilibrium_quotient")
    ctx.check(has(eqq, "for nr, conc in zip(stoich, concs): tot *= conc ** nr") and has(eqq, "return tot"), CHEM + ":equilibrium_quotient", "Q=prod(c**nu)", "equilibrium_quotient must be the product of conc ** coefficient", node=eqq)
    # rref: log before, exp after
    sc = ctx.func(EQ, "EqSystem.stoichs_constants")
    a = EQ + ":EqSystem.stoichs_constants"
    ctx.check(has(sc, "rA, rb = linear_rref(self.stoichs(non_precip_rids), list(map(be.log, eq_params)), Matrix)") and has(sc, "return rA.tolist(), list(map(be.exp, rb))"), a, "rref:log-then-exp",
              "row reduction must act on (stoichs, log K) and return exp of the reduced right-hand side", node=sc)
    ctx.check(has(sc, "return (self.stoichs(non_precip_rids), eq_params)"), a, "no-rref:unchanged", "without rref stoichs and constants must be returned unchanged", node=sc)
    ec = ctx.func(EQ, "EqSystem.eq_constants")
    ctx.check(has(ec, "eq_params = [eq.param for eq in self.rxns]") and has(ec, "small if idx in non_precip_rids else eq for idx, eq in enumerate(eq_params)"), EQ + ":EqSystem.eq_constants", "constants-in-reaction-order",
              "constants must follow reaction order", node=ec)
    eqs = ctx.func(EQ, "EqSystem.equilibrium_quotients")
    ctx.check(has(eqs, "[equilibrium_quotient(concs, stoichs[ri, :]) for ri in range(self.nr)]"), EQ + ":EqSystem.equilibrium_quotients", "Q-per-reaction", "one quotient per reaction row", node=eqs)
    cc = ctx.func(EQ, "EqSystem.composition_conservation")
    ctx.check(has(cc, "np.dot(A, self.as_per_substance_array(concs).T)") and has(cc, "np.dot(A, self.as_per_substance_array(init_concs).T)") and has(cc, "composition_vecs, comp_keys = self.composition_balance_vectors()"),
              EQ + ":EqSystem.composition_conservation", "A*c,A*c0", "composition_conservation must return A*concs and A*init_concs", node=cc)


# ---- transforms ---------------------------------------------------------


class _Canon(ast.NodeTransformer):
    def __init__(self, ren):
        self.ren = ren

    def visit_Name(self, n):
        return ast.copy_location(ast.Name(id=self.ren.get(n.id, n.id), ctx=n.ctx), n)

    def visit_Call(self, n):
        self.generic_visit(n)
        if isinstance(n.func, ast.Attribute) and n.func.attr in ("tanh", "arctanh", "atanh", "exp", "log", "sqrt", "abs", "Abs", "asarray"):
            nm = {"atanh": "arctanh", "Abs": "abs"}.get(n.func.attr, n.func.attr)
            if nm == "asarray":
                return n.args[0]
            return ast.Call(func=ast.Name(id=nm, ctx=ast.Load()), args=n.args, keywords=[])
        return n


def _canon(expr, ren):
    e = _Canon(ren).visit(copy.deepcopy(expr))
    ast.fix_missing_locations(e)
    return e


def _norm(expr):
    """monomial with Add/Sub atoms brought to linear normal form"""
    def atom(n):
        if isinstance(n, ast.BinOp) and isinstance(n.op, (ast.Add, ast.Sub)):
            return "[" + lin_str(linform(n, atom=atom)) + "]"
        if isinstance(n, ast.Call) and isinstance(n.func, ast.Name):
            return "%s(%s)" % (n.func.id, ", ".join(mono_str(_norm(a)) for a in n.args))
        return U(n)
    return monomial(expr, atom=atom)


def _first_return_elt(fn):
    ret = [n for n in walk_shallow(fn) if isinstance(n, ast.Return)][-1]
    v = ret.value
    if isinstance(v, ast.Tuple):
        v = v.elts[0]
    return v


def _local(fn, name):
    for s in walk_shallow(fn):
        if isinstance(s, ast.Assign) and U(s.targets[0]) == name:
            return s.value
    return None


def _transform_facts(ctx):
    """(class, f-map, post-map, pre-map) canonicalised with Y = variable, M = scale"""
    out = {}
    # Square
    f = ctx.func(EQS, "NumSysSquare.f")
    lc = [n for n in ast.walk(f) if isinstance(n, ast.ListComp)][0]
    fm = _canon(lc.elt, {U(lc.generators[0].target): "Y"})
    post = _canon(_first_return_elt(ctx.func(EQS, "NumSysSquare.post_processor")), {"x": "Y"})
    pre = _canon(_first_return_elt(ctx.func(EQS, "NumSysSquare.pre_processor")), {"x": "Y"})
    out["NumSysSquare"] = (f, fm, post, pre, lc)
    # LinRel
    f = ctx.func(EQS, "NumSysLinRel.f")
    lc = [n for n in ast.walk(f) if isinstance(n, ast.ListComp)][0]
    tn = target_names(lc.generators[0].target)
    zi = lc.generators[0].iter
    ren = {}
    if isinstance(zi, ast.Call) and call_name(zi) == "zip" and len(zi.args) == 2 and len(tn) == 2:
        for t, src in zip(tn, zi.args):
            ren[t] = "M" if "max_concs" in U(src) else "Y"
    fm = _canon(lc.elt, ren)
    postf = ctx.func(EQS, "NumSysLinRel.post_processor")
    pref = ctx.func(EQS, "NumSysLinRel.pre_processor")

    class _MC(ast.NodeTransformer):
        def visit_Call(self, n):
            if call_name(n) == "self.max_concs":
                return ast.Name(id="M", ctx=ast.Load())
            return self.generic_visit(n)
    post = _canon(_MC().visit(copy.deepcopy(_first_return_elt(postf))), {"x": "Y"})
    pre = _canon(_MC().visit(copy.deepcopy(_first_return_elt(pref))), {"x": "Y"})
    out["NumSysLinRel"] = (f, fm, post, pre, lc)
    # Tanh
    f = ctx.func(EQS, "NumSysLinTanh.f")
    lc = [n for n in ast.walk(f) if isinstance(n, ast.ListComp)][0]
    tn = target_names(lc.generators[0].target)
    zi = lc.generators[0].iter
    ren = {}
    if isinstance(zi, ast.Call) and call_name(zi) == "zip" and len(zi.args) == 2 and len(tn) == 2:
        for t, src in zip(tn, zi.args):
            ren[t] = "M" if U(src) == "ymax" else "Y"
    fm = _canon(lc.elt, ren)
    post = _canon(_first_return_elt(ctx.func(EQS, "NumSysLinTanh.post_processor")), {"x": "Y", "ymax": "M"})
    pre = _canon(_first_return_elt(ctx.func(EQS, "NumSysLinTanh.pre_processor")), {"x": "Y", "ymax": "M"})
    out["NumSysLinTanh"] = (f, fm, post, pre, lc)
    # Log: the map inside f is map(self.backend.exp, yvec)
    f = ctx.func(EQS, "NumSysLog.f")
    m = [c for c in calls_in(f) if call_name(c) == "map" and U(c.args[1]) == f.args.args[1].arg]
    fm = ast.parse("%s(Y)" % (U(m[0].args[0]).split(".")[-1] if m else "?"), mode="eval").body
    post = _canon(_first_return_elt(ctx.func(EQS, "NumSysLog.post_processor")), {"x": "Y"})
    pre = _canon(_first_return_elt(ctx.func(EQS, "NumSysLog.pre_processor")), {"x": "Y"})
    out["NumSysLog"] = (f, fm, post, pre, m[0] if m else f)
    return out


def r3_transforms(ctx):
    facts = _transform_facts(ctx)
    for cls, (f, fm, post, pre, node) in facts.items():
        a = EQS + ":" + cls
        nf, np_ = _norm(fm), _norm(post)
        ctx.check(nf == np_, a, "f-map=post-map", "%s.f substitutes %s but post_processor maps %s: the root finder's variables would not be what is reported" % (cls, mono_str(nf), mono_str(np_)),
                  node=node, f_map=mono_str(nf), post_map=mono_str(np_))
    # scale sources: M really is the upper bound of the same initial concentrations
    for q in ("NumSysLinTanh.pre_processor", "NumSysLinTanh.post_processor"):
        fn = ctx.func(EQS, q)
        ctx.check(has(fn, "ymax = self.eqsys.upper_conc_bounds(params[:self.eqsys.ns])"), EQS + ":" + q, "M=upper-bounds(inits)", "ymax must be upper_conc_bounds of the first ns parameters", node=fn)
    fn = ctx.func(EQS, "NumSysLinTanh.f")
    ctx.check(has(fn, "self.eqsys.upper_conc_bounds(params[:self.eqsys.ns],"), EQS + ":NumSysLinTanh.f", "M=upper-bounds(inits)", "ymax must be upper_conc_bounds of the first ns parameters", node=fn)
    fn = ctx.func(EQS, "NumSysLinRel.max_concs")
    ctx.check(has(fn, "init_concs = params[:self.eqsys.ns]") and has(fn, "return self.eqsys.upper_conc_bounds(init_concs, min_=min_, dtype=dtype)"), EQS + ":NumSysLinRel.max_concs", "M=upper-bounds(inits)",
              "max_concs must be upper_conc_bounds of the first ns parameters", node=fn)
    # transformed variables are handed to the linear residual
    for cls in ("NumSysSquare", "NumSysLinRel", "NumSysLinTanh"):
        fn = ctx.func(EQS, cls + ".f")
        ret = [n for n in walk_shallow(fn) if isinstance(n, ast.Return)][-1]
        c = ret.value
        ok = isinstance(c, ast.Call) and call_name(c) == "NumSysLin.f" and U(c.args[0]) == "self" and U(c.args[2]) == "params"
        ctx.check(ok, EQS + ":" + cls + ".f", "delegates-to-Lin", "must return NumSysLin.f(self, <transformed y>, params)", node=ret)


# peel-based inverse -------------------------------------------------------


def _chain(expr):
    """ops from Y outwards; each op is ('f', name) | ('mul', c) | ('add', c) | ('mulM', k) | ('pow', c) | ('addsmall',)"""
    ops = []

    def has_y(n):
        return "Y" in names_in(n)

    def rec(n):
        if isinstance(n, ast.Name) and n.id == "Y":
            return
        if isinstance(n, ast.Call) and isinstance(n.func, ast.Name) and len(n.args) == 1:
            rec(n.args[0])
            ops.append(("f", n.func.id))
            return
        if isinstance(n, ast.BinOp):
            l, r = n.left, n.right
            if isinstance(n.op, ast.Pow) and has_y(l) and _num(r) is not None:
                rec(l)
                ops.append(("pow", _num(r)))
                return
            if has_y(l) and not has_y(r):
                inner, other, left = l, r, True
            elif has_y(r) and not has_y(l):
                inner, other, left = r, l, False
            else:
                if isinstance(n.op, ast.Mult) and U(l) == U(r):
                    rec(l)
                    ops.append(("pow", Fraction(2)))
                    return
                raise AnalysisError("transform not single-occurrence: %s" % U(n))
            c = _num(other)
            rec(inner)
            if isinstance(n.op, ast.Mult):
                ops.append(("mul", c) if c is not None else ("mulM", 1) if U(other) == "M" else ("?", U(other)))
            elif isinstance(n.op, ast.Div) and left:
                ops.append(("mul", 1 / c) if c else ("mulM", -1) if U(other) == "M" else ("?", U(other)))
            elif isinstance(n.op, ast.Add):
                ops.append(("add", c) if c is not None else ("addsmall",) if "small" in U(other) else ("?", U(other)))
            elif isinstance(n.op, ast.Sub) and left:
                ops.append(("add", -c) if c is not None else ("?", U(other)))
            else:
                ops.append(("?", U(n)))
            return
        raise AnalysisError("unsupported transform node: %s" % U(n))
    rec(expr)
    return ops


INV = {("arctanh", "tanh"), ("log", "exp"), ("sqrt", "sq"), ("exp", "log"), ("tanh", "arctanh")}


def _compose_is_identity(pre_ops, post_ops):
    """post(pre(Y)) == Y  modulo abs() and +small (documented)."""
    ops = [o for o in pre_ops + post_ops]
    # affine state a*Y' + b over coefficient ring Q[M, 1/M] applied to an opaque core
    core = []  # stack of function applications on top of an affine form

    def aff_id():
        return ({0: F1}, {})  # a = 1*M^0, b = 0

    cur = aff_id()
    stack = []  # [(fname, affine-below)]
    for o in ops:
        a, b = cur
        if o[0] == "mul":
            cur = ({k: v * o[1] for k, v in a.items()}, {k: v * o[1] for k, v in b.items()})
        elif o[0] == "mulM":
            cur = ({k + o[1]: v for k, v in a.items()}, {k + o[1]: v for k, v in b.items()})
        elif o[0] == "add":
            b2 = dict(b)
            b2[0] = b2.get(0, Fraction(0)) + o[1]
            cur = (a, {k: v for k, v in b2.items() if v != 0})
        elif o[0] == "addsmall":
            continue  # negligible by assumption
        elif o[0] == "pow" and o[1] == 2:
            o = ("f", "sq")
            a_, b_ = cur
            is_id = a_ == {0: F1} and not b_
            if stack and is_id and (stack[-1][0], "sq") in INV:
                cur = stack.pop()[1]
            else:
                stack.append(("sq", cur))
                cur = aff_id()
        elif o[0] == "f":
            if o[1] == "abs":
                continue  # identity on non-negative concentrations
            a_, b_ = cur
            is_id = a_ == {0: F1} and not b_
            if stack and is_id and (stack[-1][0], o[1]) in INV:
                cur = stack.pop()[1]
            else:
                stack.append((o[1], cur))
                cur = aff_id()
        else:
            return False, "unsupported op %s" % (o,)
    a, b = cur
    ok = not stack and a == {0: F1} and not b
    return ok, "residual: stack=%s a=%s b=%s" % ([s[0] for s in stack], a, b)


def r3b_inverse(ctx):
    facts = _transform_facts(ctx)
    for cls, (f, fm, post, pre, node) in facts.items():
        a = EQS + ":" + cls
        try:
            pre_ops, post_ops = _chain(pre), _chain(post)
        except AnalysisError:
            if any(i.status == "violation" and i.anchor == a and i.rule == "C07-R3" for i in ctx.instances):
                continue  # already reported: f and post_processor apply different maps
            raise
        ok, why = _compose_is_identity(pre_ops, post_ops)
        ctx.check(ok, a, "post(pre(x))=x", "%s: post_processor is not the inverse of pre_processor (pre %s, post %s; %s)" % (cls, pre_ops, post_ops, why), node=node,
                  pre=[list(map(str, o)) for o in pre_ops], post=[list(map(str, o)) for o in post_ops])
    fn = ctx.func(EQS, "NumSysSquare.internal_x0_cb")
    ctx.check(has(fn, "return np.sqrt(np.abs(init_concs))"), EQS + ":NumSysSquare.internal_x0_cb", "x0=pre(inits)", "internal x0 must be the pre-processed initial concentrations", node=fn)
    fn = ctx.func(EQS, "NumSysLinTanh.internal_x0_cb")
    ctx.check(has(fn, "return self.pre_processor(init_concs, init_concs)[0]"), EQS + ":NumSysLinTanh.internal_x0_cb", "x0=pre(inits)", "internal x0 must be the pre-processed initial concentrations", node=fn)


def r4_helpers_defaults(ctx):
    """start values of the product helpers; which constants a formulation uses; defaults of the constant accessors"""
    eqq = ctx.func(CHEM, "equilibrium_quotient")
    a = CHEM + ":equilibrium_quotient"
    inits = [n for n in walk_shallow(eqq) if isinstance(n, ast.Assign) and U(n.targets[0]) == "tot"]
    ok = len(inits) == 2 and U(inits[0].value) == "1" and U(inits[1].value) == "np.ones(concs.shape[0])"
    ctx.check(ok, a, "empty-product=1", "the quotient must start from 1 (scalar) / ones (one per row); found %s" % [U(i.value) for i in inits], node=eqq)
    ctx.check(has(eqq, "if not hasattr(concs, 'ndim') or concs.ndim == 1: tot = 1 else: tot = np.ones(concs.shape[0]) concs = concs.T"), a, "per-row-quotients",
              "a 2-D array gives one quotient per row (iterate over its transpose), anything else a scalar", node=eqq)
    m = ctx.mod(UTIL)
    for f in ast.walk(m.tree):
        if isinstance(f, ast.FunctionDef) and f.name == "prodpow" and "for row in exponents" in U(f):
            ctx.check(has(f, "res = 1 for b, e in zip(bases, row): res *= b ** e result.append(res)"), UTIL + ":prodpow", "fallback-empty-product=1", "the pure-python product must start from 1 for every row", node=f)
    md = ctx.func(UTIL, "mat_dot_vec")
    ctx.check(has(md, "if iter_term is None: return [vec_dot_vec(row, iter_vec) for row in iter_mat] else:"), UTIL + ":mat_dot_vec", "term-added-iff-given",
              "the constant term (-ln K) is added exactly when one is given", node=md)
    vd = ctx.func(UTIL, "vec_dot_vec")
    rm = ctx.func(UTIL, "reducemap")
    ctx.check(has(vd, "return reducemap((vec1, vec2), add, mul)") and has(rm, "return reduce(reduce_op, map(map_op, *args))"), UTIL + ":vec_dot_vec", "dot=sum-of-products", "dot product is sum of pairwise products", node=vd)
    ie = ctx.func(EQS, "_NumSys._inits_and_eq_params")
    a = EQS + ":_NumSys._inits_and_eq_params"
    ctx.check(has(ie, "if not self.new_eq_params: assert not eq_params") and has(ie, "eq_params = None"), a, "own-constants-only-when-asked",
              "the constants passed as parameters are replaced by the system's own only when new_eq_params is false", node=ie)
    init = ctx.func(EQS, "_NumSys.__init__")
    for attr in ("eqsys", "rref_equil", "rref_preserv", "precipitates", "new_eq_params"):
        ctx.check(has(init, "self.%s = %s" % (attr, attr)), EQS + ":_NumSys.__init__", "stores:" + attr, "configuration `%s` must be stored under its own name" % attr, node=init)
    ec = ctx.func(EQ, "EqSystem.eq_constants")
    d = none_default(ec, "eq_params")
    ctx.check(d is not None and U(d) == "[eq.param for eq in self.rxns]", EQ + ":EqSystem.eq_constants", "default=own-constants", "given constants must be used; the default is each reaction's own constant in order", node=ec)
    sc = ctx.func(EQ, "EqSystem.stoichs_constants")
    d = none_default(sc, "eq_params")
    ctx.check(d is not None and U(d) == "self.eq_constants()", EQ + ":EqSystem.stoichs_constants", "default=eq_constants", "given constants must be used; the default is self.eq_constants()", node=sc)
    sn = ctx.func(EQ, "EqSystem._SymbolicSys_from_NumSys")
    for attr, kw, val in (("pre_processor", "pre_processors", "[ns.pre_processor]"), ("post_processor", "post_processors", "[ns.post_processor]"), ("internal_x0_cb", "internal_x0_cb", "ns.internal_x0_cb")):
        ctx.check(has(sn, "if ns.%s is not None: symb_kw['%s'] = %s" % (attr, kw, val)), EQ + ":EqSystem._SymbolicSys_from_NumSys", "wired:" + attr,
                  "a formulation's %s must be handed to the solver exactly when it defines one (else its variables are read as concentrations)" % attr, node=sn)
    ctx.check(has(sn, "SymbolicSys.from_callback(ns.f, self.ns, nparams=self.ns + (self.nr if new_eq_params else 0), **symb_kw)"), EQ + ":EqSystem._SymbolicSys_from_NumSys", "f-ns-nparams",
              "the residual callback is ns.f over ns unknowns with c0 (+ K when they are parameters) as parameters", node=sn)
    for kw in ("rref_equil", "rref_preserv", "new_eq_params"):
        ctx.check(has(sn, "%s=%s" % (kw, kw)), EQ + ":EqSystem._SymbolicSys_from_NumSys", "forwards:" + kw, "option %s must reach the formulation under its own name" % kw, node=sn)
    for q in ("EqSystem._solve", "EqSystem.root"):
        fn = ctx.func(EQ, q)
        ctx.check(has(fn, "params = np.concatenate((init_concs, [float(elem) for elem in self.eq_constants()]))"), EQ + ":" + q, "params=c0++K",
                  "solver parameters are the initial concentrations followed by every equilibrium constant", node=fn)
        ctx.check(has(fn, "x, sol = neqsys.solve(x0, params, **kwargs)"), EQ + ":" + q, "solve(x0,params)", "the root finder gets (guess, parameters) in that order", node=fn)
        for kw in ("rref_equil", "rref_preserv", "precipitates"):
            ctx.check(has(fn, "%s=kwargs.pop('%s'," % (kw, kw)), EQ + ":" + q, "forwards:" + kw, "option %s must be forwarded under its own name" % kw, node=fn)
        ctx.check(has(fn, "sane = self._result_is_sane(init_concs, x)"), EQ + ":" + q, "sanity-of-result", "the sanity verdict must be about (initial, result)", node=fn)


RULES = [
    Rule("C07-R1", r1_blocks, 19, "block structure and wiring of both formulations"),
    Rule("C07-R2", r2_k_opposite_q, 14, "K on the other side of Q; helpers; rref log/exp"),
    Rule("C07-R3", r3_transforms, 11, "variable transform in f == post_processor map"),
    Rule("C07-R4", r4_helpers_defaults, 32, "helper start values, constant defaults, option forwarding"),
    Rule("C07-R3b", r3b_inverse, 6, "pre_processor is the inverse of post_processor (peel)", tier="thorough"),
]

MUTANTS = [
    Mutant("lin-K-inverted", [(EQS, "f_equil = [q / k - 1 if k != 0 else q for q, k in zip(prodpow(yvec, A), ks)]", "f_equil = [q * k - 1 if k != 0 else q for q, k in zip(prodpow(yvec, A), ks)]")], "C07-R2", "Q/K"),
    Mutant("log-K-sign", [(EQS, "f_equil = mat_dot_vec(A, yvec, [-self.backend.log(k) for k in ks])", "f_equil = mat_dot_vec(A, yvec, [self.backend.log(k) for k in ks])")], "C07-R2", "lnK"),
    Mutant("conservation-against-state", [(EQS, "        f_preserv = linear_exprs(\n            B, yvec, mat_dot_vec(B, init_concs), rref=self.rref_preserv\n        )", "        f_preserv = linear_exprs(\n            B, yvec, mat_dot_vec(B, yvec), rref=self.rref_preserv\n        )")], "C07-R1", "conservation"),
    Mutant("conservation-rref-flag-crossed", [(EQS, "            B, yvec, mat_dot_vec(B, init_concs), rref=self.rref_preserv", "            B, yvec, mat_dot_vec(B, init_concs), rref=self.rref_equil")], "C07-R1", "conservation"),
    Mutant("log-conservation-of-y", [(EQS, "            list(map(self.backend.exp, yvec)),\n            mat_dot_vec(B, init_concs),", "            list(yvec),\n            mat_dot_vec(B, init_concs),")], "C07-R1", "concentrations-of-state"),
    Mutant("inits-wrong-slice", [(EQS, "        return params[: self.eqsys.ns], eq_params", "        return params[: self.eqsys.nr], eq_params")], "C07-R1", "first-ns"),
    Mutant("block-dropped", [(EQS, "        return f_equil + f_preserv\n\n\nclass _NumSysLinNegPenalty", "        return f_equil\n\n\nclass _NumSysLinNegPenalty")], "C07-R1", "equil+preserv"),
    Mutant("rref-no-exp", [(EQ, "return rA.tolist(), list(map(be.exp, rb))", "return rA.tolist(), list(rb)")], "C07-R2", "rref"),
    Mutant("square-post-abs", [(EQS, "        return x ** 2, params", "        return np.abs(x), params")], "C07-R3", "NumSysSquare"),
    Mutant("tanh-post-factor", [(EQS, "return ymax * (4 + 5 * np.tanh(x)) / 8, params", "return ymax * (4 + 5 * np.tanh(x)) / 9, params")], "C07-R3", "NumSysLinTanh"),
    Mutant("tanh-f-offset", [(EQS, "ytanh = [yimax * (4 + 5 * sympy.tanh(yi)) / 8 for yimax, yi in zip(ymax, yvec)]", "ytanh = [yimax * (5 + 4 * sympy.tanh(yi)) / 8 for yimax, yi in zip(ymax, yvec)]")], "C07-R3", "NumSysLinTanh"),
    Mutant("linrel-post-divides", [(EQS, "        return x * self.max_concs(params), params", "        return x / self.max_concs(params), params")], "C07-R3", "NumSysLinRel"),
    Mutant("tanh-pre-not-inverse", [(EQS, "return np.arctanh((8 * x / ymax - 4) / 5), params", "return np.arctanh((8 * x / ymax - 5) / 4), params")], "C07-R3b", "NumSysLinTanh"),
    Mutant("log-pre-log10", [(EQS, "            np.log(np.asarray(x) + NumSysLog.small),  # 10: damping", "            np.log10(np.asarray(x) + NumSysLog.small),  # 10: damping")], "C07-R3b", "NumSysLog"),
    Mutant("vecdot-max", [(UTIL, "return reducemap((vec1, vec2), add, mul)", "return reducemap((vec1, vec2), mul, add)")], "C07-R2", "sum-of-products"),
]

MUTANTS.append(Mutant("prodpow-int-exponents", [(UTIL, "        exponents = np.asarray(exponents)\n", "        exponents = np.asarray(exponents).astype(np.int64)\n")], "C07-R2", "exponents-unchanged"))

TWINS = [
    Twin("square-mul-form", [(EQS, "        return x ** 2, params", "        return x * x, params")]),
    Twin("tanh-f-rearranged", [(EQS, "ytanh = [yimax * (4 + 5 * sympy.tanh(yi)) / 8 for yimax, yi in zip(ymax, yvec)]", "ytanh = [(5 * sympy.tanh(yi) + 4) * yimax / 8 for yimax, yi in zip(ymax, yvec)]")]),
    Twin("lin-residual-commuted", [(EQS, "q / k - 1 if k != 0 else q", "-1 + q / k if k != 0 else q")]),
]

MUTANTS.append(Mutant("get-A-ks-int-cast", [(EQS, "        return self.eqsys.stoichs_constants(\n            self.eqsys.eq_constants(non_precip_rids, eq_params, self.small),\n            self.rref_equil,\n            backend=self.backend,\n            non_precip_rids=non_precip_rids,\n        )\n",
                                              "        A, ks = self.eqsys.stoichs_constants(\n            self.eqsys.eq_constants(non_precip_rids, eq_params, self.small),\n            self.rref_equil,\n            backend=self.backend,\n            non_precip_rids=non_precip_rids,\n        )\n        return [[int(x) for x in row] for row in A], ks\n")], "C07-R1", "result-handed-on"))
TWINS.append(Twin("get-A-ks-unpacked", [(EQS, "        return self.eqsys.stoichs_constants(\n            self.eqsys.eq_constants(non_precip_rids, eq_params, self.small),\n            self.rref_equil,\n            backend=self.backend,\n            non_precip_rids=non_precip_rids,\n        )\n",
                                          "        A, ks = self.eqsys.stoichs_constants(\n            self.eqsys.eq_constants(non_precip_rids, eq_params, self.small),\n            self.rref_equil,\n            backend=self.backend,\n            non_precip_rids=non_precip_rids,\n        )\n        return A, ks\n")]))
