"""C19 -- physical-chemistry relations are unit independent in their ranges."""
from __future__ import annotations

import ast
import re
from fractions import Fraction

from ..astu import U, S, has, same, walk_shallow, call_name, calls_in, monomial, mono_str, fold, NotLiteral, canon_expr, canon_of, canon_str, param_default
from ..cfg import find_guards
from ..core import AnalysisError, Mutant, Rule, Twin
from ..dims import (V, TOP, num, opaque, mk_dim, dim_str, lx_const, units_ns, constants_ns, si_value, Namespace)
from ..dimrun import run, module_env

ID = "C19"
P = "chempy/properties/"
DENS = P + "water_density_tanaka_2001.py"
VISC = P + "water_viscosity_korson_1969.py"
DIFF = P + "water_diffusivity_holz_2000.py"
PERM = P + "water_permittivity_bradley_pitzer_1979.py"
SULF = P + "sulfuric_acid_density_myhre_1998.py"
SCHU = P + "gas_sol_electrolytes_schumpe_1993.py"
HENRY = "chempy/henry.py"
NERNST = "chempy/electrochemistry/nernst.py"
EINST = "chempy/einstein_smoluchowski.py"
ENGINES = ["E0 core", "E2 dims", "E3 cfg", "E4 linform"]
TECHNIQUE = "units-of-measure abstract interpretation of each relation in unit mode (dimension monomials, caller-chosen unit atoms, raw-magnitude sinks), mode comparison of hard-coded vs constants branches, symbolic evaluation of range-warning thresholds in unitless mode (ast)"
CLAIM = ("Decides, for every relation in unit mode: additions/comparisons are dimensionally homogeneous, transcendental arguments are "
         "dimensionless, the result has the dimension of the quantity named, hard-coded and constants branches agree in dimension and "
         "magnitude (1e-4), no float()/int()/math.*/.magnitude reads a value that still carries a caller-chosen unit ratio; range warnings are "
         "guarded by `warn` and by strict comparisons at the published validity limits; Henry inverse helpers are P*H and c/H; the algebraic form of "
         "every correlation/relation (canonical sum-of-products form) and its coefficient tables equal the reference recorded from the cited publications "
         "as transcribed in the pinned tree."
         ' Shared rule A1: no swapped same-named arguments at resolved in-package call sites.')
DOES_NOT_DECIDE = "numerical agreement with the publications beyond the coefficient tables and formula shapes frozen in C19-R5, the qualitative shape claims, convergence of the fixed-point iteration, numpy transcendental functions raising on scaled dimensionless quantities (a loud refusal)"
ASSUMPTIONS = ["`quantities` unit/constant tables (introspected as the typing environment)", "`quantities` rescales the right operand of +/- to the left operand's unit",
               "validity ranges: Tanaka 0-40 C, Korson 0-100 C, Holz 0-100 C, Bradley-Pitzer 0-350 C, Myhre 0-50 C and w 0.1-0.9"]

TEMP = mk_dim(K=1)
PRESSURE = mk_dim(M=1, L=-1, T=-2)
CONC = mk_dim(N=1, L=-3)
DENSITY = mk_dim(M=1, L=-3)
VISCOSITY = mk_dim(M=1, L=-1, T=-1)
DIFFUSIVITY = mk_dim(L=2, T=-1)
POTENTIAL = mk_dim(M=1, L=2, T=-3, I=-1)
MOBILITY = mk_dim(I=1, T=2, M=-1)
HENRY_DIM = mk_dim(N=1, L=-2, M=-1, T=2)  # concentration / pressure
MOLAR_MASS = mk_dim(M=1, N=-1)

# function table: rel, name, typed params (dimension, or a V factory), expected result dimension, has constants param
FUNCS = [
    (DENS, "water_density", dict(T=TEMP), DENSITY, False),
    (VISC, "water_viscosity", dict(T=TEMP), VISCOSITY, False),
    (DIFF, "water_self_diffusion_coefficient", dict(T=TEMP), DIFFUSIVITY, False),
    (PERM, "water_permittivity", dict(T=TEMP, P=PRESSURE), {}, False),
    (SULF, "sulfuric_acid_density", dict(w="number", T=TEMP), DENSITY, False),
    (SULF, "density_from_concentration", dict(conc=CONC, T=TEMP), DENSITY, False),
    (SULF, "density_from_concentration", dict(conc=CONC, T=TEMP, molar_mass=MOLAR_MASS), DENSITY, False, "explicit-molar-mass"),
    (SCHU, "lg_solubility_ratio", dict(electrolytes="concmap", gas="str"), {}, False),
    (HENRY, "Henry_H_at_T", dict(T=TEMP, H=HENRY_DIM, Tderiv=TEMP), HENRY_DIM, False),
    (NERNST, "nernst_potential", dict(ion_conc_out=CONC, ion_conc_in=CONC, charge="number", T=TEMP), POTENTIAL, True),
    (EINST, "electrical_mobility_from_D", dict(D=DIFFUSIVITY, charge="number", T=TEMP), MOBILITY, True),
]


def _params(spec, units_v, consts_v):
    out = {"units": units_v}
    if consts_v is not None:
        out["constants"] = consts_v
    for k, d in spec.items():
        if d == "number":
            out[k] = V("q", dim={}, unit={}, val=None)
        elif d == "str":
            out[k] = V("str")
        elif d == "concmap":
            out[k] = V("mapping", extra=(V("str"), opaque(CONC, k)))
        else:
            out[k] = opaque(d, k)
    return out


BAD_KINDS = {"inhomogeneous": "R1", "transcendental": "R1", "dimensional-exponent": "R1", "missing-attribute": "R1", "rescale-mismatch": "R1",
             "to_unitless-mismatch": "R1", "raw-magnitude": "R2", "scaled-exponent": "R2"}


def _analyse(ctx):
    """run every function in its unit modes once; cache on ctx"""
    if hasattr(ctx, "_c19"):
        return ctx._c19
    units_v = units_ns(ctx.repo)
    consts_v = constants_ns()
    res = {}
    for entry in FUNCS:
        rel, name, spec, expect, has_c = entry[:5]
        variant = entry[5] if len(entry) > 5 else None
        ctx.func(rel, name)
        modes = [("units" + ("," + variant if variant else ""), None)] + ([("units+constants", consts_v)] if has_c else [])
        for mname, cv in modes:
            it = run(ctx.repo, rel, name, _params(spec, units_v, cv), units_extras=units_v.extra.extras)
            ctx.modes_seen.add("%s[%s]" % (name, mname))
            for t in it.tops:
                if "warnings" not in t:
                    ctx.top("%s[%s] %s" % (name, mname, t))
            res[(rel, name, mname)] = it
    ctx._c19 = (res, units_v)
    return ctx._c19


def _key(r):
    return "%s:%s" % (r.kind, U(r.node)[:70] if r.node is not None else "")


def r1_homogeneity(ctx):
    res, units_v = _analyse(ctx)
    for (rel, name, mname), it in res.items():
        a = "%s:%s" % (rel, name)
        bad = [r for r in it.reports if BAD_KINDS.get(r.kind) == "R1"]
        seen = set()
        for r in bad:
            k = "%s[%s]" % (_key(r), mname)
            if k in seen:
                continue
            seen.add(k)
            ctx.violation(a, k, "in unit mode (%s): %s" % (mname, r.msg), node=r.node)
        if not bad:
            ctx.holds(a, "homogeneous[%s]" % mname)
    # result dimension
    seen_fn = set()
    for entry in FUNCS:
        rel, name, spec, expect, has_c = entry[:5]
        if (rel, name) in seen_fn:
            continue
        seen_fn.add((rel, name))
        a = "%s:%s" % (rel, name)
        for (r2, n2, mname), it in res.items():
            if (r2, n2) != (rel, name):
                continue
            rets = [v for v in it.returns]
            known = [v for v in rets if v.kind == "q" and v.dim is not None]
            if not known:
                if any(r for r in it.reports if BAD_KINDS.get(r.kind) == "R1"):
                    continue  # already reported
                ctx.top("%s[%s]: result dimension not derivable" % (name, mname))
                ctx.holds(a, "result-dimension[%s]:undetermined" % mname)
                continue
            for v in known:
                ctx.check(v.dim == expect, a, "result-dimension[%s]" % mname,
                          "the result has dimension %s, but the quantity it names has dimension %s" % (dim_str(v.dim), dim_str(expect)), node=it.fn,
                          found=dim_str(v.dim), expected=dim_str(expect))
    # hard-coded vs constants branch
    for entry in FUNCS:
        rel, name, spec, expect, has_c = entry[:5]
        if not has_c:
            continue
        a = "%s:%s" % (rel, name)
        e1, e2 = res[(rel, name, "units")].final_env, res[(rel, name, "units+constants")].final_env
        shared = [k for k in e1 if k in e2 and k not in spec and k not in ("units", "constants", "backend") and e1[k].kind == "q" and e2[k].kind == "q"
                  and e2[k].extra and e2[k].extra.get("const")]
        if not shared:
            raise AnalysisError("%s: no variable is bound both to a hard-coded value and to a constants attribute" % name)
        for k in sorted(shared):
            v1, v2 = e1[k], e2[k]
            ctx.check(v1.dim == v2.dim, a, "branches-agree:dim:" + k,
                      "`%s` is %s in the hard-coded unit branch but constants.%s is %s" % (k, dim_str(v1.dim), v2.extra["const"], dim_str(v2.dim)), node=res[(rel, name, "units")].fn)
            s1, s2 = si_value(v1, units_v.extra.extras), si_value(v2, units_v.extra.extras)
            if s1 is not None and s2 is not None and v1.dim == v2.dim:
                ctx.check(abs(s1 - s2) <= 1e-4 * abs(s2), a, "branches-agree:value:" + k,
                          "hard-coded `%s` = %.9g (SI) differs from constants.%s = %.9g by more than 1e-4" % (k, s1, v2.extra["const"], s2), node=res[(rel, name, "units")].fn,
                          hard_coded=s1, constant=s2)
        r1, r2 = res[(rel, name, "units")].returns, res[(rel, name, "units+constants")].returns
        d1 = {dim_str(v.dim) for v in r1 if v.kind == "q"}
        d2 = {dim_str(v.dim) for v in r2 if v.kind == "q"}
        ctx.check(d1 == d2, a, "modes-agree:result", "result dimension differs between the hard-coded (%s) and constants (%s) paths" % (sorted(d1), sorted(d2)), node=res[(rel, name, "units")].fn)


def r2_scale_safety(ctx):
    res, units_v = _analyse(ctx)
    for (rel, name, mname), it in res.items():
        a = "%s:%s" % (rel, name)
        bad = [r for r in it.reports if BAD_KINDS.get(r.kind) == "R2"]
        seen = set()
        for r in bad:
            k = "%s[%s]" % (_key(r), mname)
            if k in seen:
                continue
            seen.add(k)
            ctx.violation(a, k, "in unit mode (%s): %s" % (mname, r.msg), node=r.node)
        if not bad:
            ctx.holds(a, "scale-safe[%s]" % mname)


# published validity ranges, in the documented plain-number units
RANGES = [
    (DENS, "water_density", "T", (273.15, 313.15), dict(T="sym")),
    (VISC, "water_viscosity", "T", (273.15, 373.15), dict(T="sym")),
    (DIFF, "water_self_diffusion_coefficient", "T", (273.15, 373.15), dict(T="sym")),
    (PERM, "water_permittivity", "T", (273.15, 623.15), dict(T="sym", P="num")),
    (SULF, "sulfuric_acid_density", "T", (273.15, 323.15), dict(T="sym", w="sym")),
    (SULF, "sulfuric_acid_density", "w", (0.1, 0.9), dict(T="sym", w="sym")),
]


def _sym(name):
    return V("q", dim={}, unit={}, val={name: Fraction(1)})


def r3_ranges(ctx):
    for rel, name, var, (lo, hi), spec in RANGES:
        fn = ctx.func(rel, name)
        a = "%s:%s" % (rel, name)
        recorded = {}

        def hook(interp, node, op, left, right):
            recorded[id(node)] = (node, op, left, right)
        params = {k: (_sym(k) if v == "sym" else V("q", dim={}, unit={}, val=None)) for k, v in spec.items()}
        it = run(ctx.repo, rel, name, params, hooks={"compare": hook})
        ctx.modes_seen.add("%s[no-units, symbolic %s]" % (name, var))
        # warn sites mentioning a range
        sites = []
        for g in find_guards(fn, kinds=(ast.Expr,)):
            c = g.stmt.value
            if isinstance(c, ast.Call) and call_name(c) == "warnings.warn" and c.args:
                try:
                    msg = fold(c.args[0], {})
                except NotLiteral:
                    msg = ""
                if isinstance(msg, str) and "range" in msg.lower():
                    sites.append((g, msg))
        found = None
        for g, msg in sites:
            tests = g.tests()
            # comparisons in the tests that involve `var`
            bounds = {}
            strict = True
            for t, pol in tests:
                for n in ast.walk(t):
                    if isinstance(n, ast.Compare) and id(n) in recorded:
                        _, op, l, r = recorded[id(n)]
                        if l.val is None or r.val is None:
                            continue
                        coef = l.val.get(var, 0) - r.val.get(var, 0)
                        others = [k for k in set(l.val) | set(r.val) if k not in ("1", var)]
                        if coef == 0 or others:
                            continue
                        thr = (r.val.get("1", 0) - l.val.get("1", 0)) / coef
                        opn = type(op).__name__
                        if coef < 0:
                            opn = {"Lt": "Gt", "Gt": "Lt", "LtE": "GtE", "GtE": "LtE"}.get(opn, opn)
                        if opn in ("Lt", "LtE"):
                            bounds["lo"] = (float(thr), opn, n)
                        elif opn in ("Gt", "GtE"):
                            bounds["hi"] = (float(thr), opn, n)
            if "lo" in bounds and "hi" in bounds:
                found = (g, msg, bounds)
                break
        if found is None:
            ctx.violation(a, "range-warning:" + var, "no range warning with both a lower and an upper test on `%s` found" % var, node=fn)
            continue
        g, msg, bounds = found
        ok_lo = abs(bounds["lo"][0] - lo) < 1e-9 and bounds["lo"][1] == "Lt"
        ok_hi = abs(bounds["hi"][0] - hi) < 1e-9 and bounds["hi"][1] == "Gt"
        ctx.check(ok_lo, a, "lower-limit:" + var, "the warning fires for %s %s %.6g; the published validity range starts at %.6g (strictly below only)" % (
            var, "<" if bounds["lo"][1] == "Lt" else "<=", bounds["lo"][0], lo), node=bounds["lo"][2], found=bounds["lo"][0], expected=lo)
        ctx.check(ok_hi, a, "upper-limit:" + var, "the warning fires for %s %s %.6g; the published validity range ends at %.6g (strictly above only)" % (
            var, ">" if bounds["hi"][1] == "Gt" else ">=", bounds["hi"][0], hi), node=bounds["hi"][2], found=bounds["hi"][0], expected=hi)
        # guarded by warn, and the two tests are joined by `or`
        tests = g.tests()
        warn_dep = any("warn" == U(t) and pol or (isinstance(t, ast.BoolOp) and isinstance(t.op, ast.And) and any(U(v) == "warn" for v in t.values) and pol) for t, pol in tests)
        ctx.check(warn_dep, a, "guarded-by-warn:" + var, "the range warning is not controlled by the `warn` argument", node=g.stmt)
        both = None
        for t, pol in tests:
            for n in ast.walk(t):
                if isinstance(n, ast.BoolOp) and any(bounds["lo"][2] in list(ast.walk(v)) for v in n.values) and any(bounds["hi"][2] in list(ast.walk(v)) for v in n.values):
                    both = n
        ctx.check(both is not None and isinstance(both.op, ast.Or), a, "either-side-warns:" + var, "the lower and upper tests must be joined by `or`", node=g.stmt)
        # consistency with the text of the message
        nums = [float(x) for x in re.findall(r"(\d+(?:\.\d+)?)", msg)]
        if len(nums) >= 2:
            off = 273.15 if "degC" in msg else 0.0
            ctx.check(abs(nums[0] + off - lo) < 1e-9 and abs(nums[1] + off - hi) < 1e-9, a, "message-states-range:" + var,
                      "the warning text says %r but the published range is %.6g-%.6g" % (msg, lo - off, hi - off), node=g.stmt)


def r4_inverse_helpers(ctx):
    m = ctx.mod(HENRY)
    F1 = Fraction(1)
    for q, want in (("Henry.get_c_at_T_and_P", {"P": F1, "H": F1}), ("Henry.get_P_at_T_and_c", {"c": F1, "H": -F1})):
        fn = ctx.func(HENRY, q)
        ret = [n for n in walk_shallow(fn) if isinstance(n, ast.Return)][-1]

        def atom(n):
            if isinstance(n, ast.Call) and U(n.func) == "self" and [U(x) for x in n.args] == ["T"] and any(k.arg is None for k in n.keywords):
                return "H"
            return U(n)
        c, p = monomial(ret.value, atom=atom)
        got = {k: lx_const(v) for k, v in p.items()}
        ctx.check(c == 1 and got == want, HENRY + ":" + q, "inverse-pair", "%s returns %s; expected %s with H = self(T, **kwargs)" % (q, mono_str((c, p)), want), node=ret)
    fn = ctx.func(HENRY, "Henry.__call__")
    ret = [n for n in walk_shallow(fn) if isinstance(n, ast.Return)][-1]
    ctx.check(same(ret.value, "Henry_H_at_T(T, self.Hcp, self.Tderiv, self.T0, units=units, backend=backend)", scope=fn), HENRY + ":Henry.__call__", "own-parameters",
              "Henry.__call__ must evaluate Henry_H_at_T(T, self.Hcp, self.Tderiv, self.T0, units=, backend=)", node=ret)
    hw = ctx.func(HENRY, "HenryWithUnits.__call__")
    ret = [n for n in walk_shallow(hw) if isinstance(n, ast.Return)][-1]
    ctx.check(same(ret.value, "super(HenryWithUnits, self).__call__(T, units, backend)", scope=hw) or same(ret.value, "super().__call__(T, units, backend)", scope=hw), HENRY + ":HenryWithUnits.__call__", "delegates-to-Henry",
              "the unit-aware variant must delegate to Henry.__call__ (which passes its own Hcp, Tderiv and T0); found %s" % U(ret.value), node=ret)
    fn = ctx.func(HENRY, "Henry_H_at_T")
    ret = [n for n in walk_shallow(fn) if isinstance(n, ast.Return)][-1]
    ctx.check(canon_expr(ret.value) == canon_of("H * exp(Tderiv * (1 / T - 1 / T0))"), HENRY + ":Henry_H_at_T", "van-t-Hoff", "H(T) must be H * exp(Tderiv * (1/T - 1/T0)); found %s" % U(ret.value), node=ret)
    ctx.check(has(fn, "T0 = 298.15 * K"), HENRY + ":Henry_H_at_T", "T0-default", "reference temperature default must be 298.15 K", node=fn)


# ---- reference forms and coefficient tables (C19-R5) -------------------------
# Source: the publication each module cites, as transcribed in the pinned tree (the docstrings give the DOI).  A coefficient is compared numerically
# (1e-12 relative), a formula as a canonical sum-of-products form, so re-ordering operands, re-bracketing or renaming a local stays silent.
REF_TABLES = {
    (DENS, "a"): ["-3.983035 * K", "301.797 * K", "522528.9 * K * K", "69.34881 * K", "999.97495 * kg / m3"],
    (PERM, "U"): ["342.79", "-0.0050866 / K", "9.469e-07 / K ** 2", "-2.0525", "3115.9 * K", "-182.89 * K", "-8032.5 * bar", "4214200.0 * K * bar", "2.1417 / K * bar"],
}
REF_CONSTS = {
    VISC: {"A": 1.1709, "B": 0.001827, "C": 89.93, "eta20_cP": 1.0020},
    DIFF: {"gamma": 2.063, "D0": 1.635e-8, "TS": 215.05, "dD0": 2.242e-11, "dTS": 1.2, "low_t_bound": 273.15, "high_t_bound": 373.15},
}
REF_MYHRE = [
    [999.8426, 0.03345402, -0.005691304, 0, 0],
    [547.2659, -5.300445, 0.01187671, 0.0005990008, 0],
    [5262.95, 37.20445, 0.1201909, -0.004148594, 1.197973e-5],
    [-62139.58, -287.767, -0.4064638, 0.01119488, 3.607768e-5],
    [409029.3, 1270.854, 0.326971, -0.01377435, -2.633585e-5],
    [-1596989, -3062.836, 0.1366499, 0.006373031, 0],
    [3857411, 4083.714, -0.1927785, 0, 0],
    [-5808064, -2844.401, 0, 0, 0],
    [5301976, 809.1053, 0, 0, 0],
    [-2682616, 0, 0, 0, 0],
    [576428.8, 0, 0, 0, 0],
]
# function -> (expression to compare, reference form, locals to inline)
REF_FORMS = [
    (DENS, "water_density", "return", "a[4] * (1 - ((t + a[0]) ** 2 * (t + a[1])) / (a[2] * (t + a[3])))", ()),
    (DENS, "water_density", "t", "T - T0", ()),
    (VISC, "water_viscosity", "return", "eta20 * 10 ** ((A * (20 - t) - B * (t - 20) ** 2) / (t + C))", ()),
    (DIFF, "water_self_diffusion_coefficient", "return", "_D0 * ((T / _TS) - 1) ** gamma", ()),
    (PERM, "water_permittivity", "return", "U[0] * exp(U[1] * T + U[2] * T ** 2) + (U[3] + U[4] / (U[5] + T)) * log((U[6] + U[7] / T + U[8] * T + P) / (U[6] + U[7] / T + U[8] * T + 1000.0 * bar))", ("B", "C", "eps1000")),
    (HENRY, "Henry_H_at_T", "return", "H * exp(Tderiv * (1 / T - 1 / T0))", ()),
    (NERNST, "nernst_potential", "return", "(R * T) / (charge * F) * log(ratio)", ()),
    (EINST, "electrical_mobility_from_D", "return", "D * charge * e / (kB * T)", ()),
    (SULF, "density_from_concentration", "new_rho", "rho_cb(conc * molar_mass / rho, T, units=units, warn=warn, **kwargs)", ()),
    (SULF, "density_from_concentration", "delta_rho@loop", "new_rho - rho", ()),
]
REF_DEFAULTS = [
    (DENS, "water_density", "T", "298.15 * K"), (DENS, "water_density", "T0", "273.15 * K"),
    (VISC, "water_viscosity", "T", "298.15 * K"), (VISC, "water_viscosity", "eta20", "eta20_cP * cP"),
    (DIFF, "water_self_diffusion_coefficient", "T", "298.15 * K"),
    (PERM, "water_permittivity", "T", "298.15 * K"), (PERM, "water_permittivity", "P", "1 * bar"),
    (SULF, "sulfuric_acid_density", "T", "298.15 * K"), (SULF, "sulfuric_acid_density", "T0", "273.15 * K"),
    (HENRY, "Henry_H_at_T", "T0", "298.15 * K"),
    (SULF, "density_from_concentration", "atol", "0.001 * kg_per_m3"),
    (SULF, "density_from_concentration", "molar_mass", "(1.00794 * 2 + 32.066 + 4 * 15.9994) * 0.001 * kg / mol"),
]


def _close(a, b):
    return a == b or (abs(a - b) <= 1e-12 * max(abs(a), abs(b)))


def r5_reference_forms(ctx):
    from ..idioms import none_default
    for rel, q, what, ref, inline in REF_FORMS:
        fn = ctx.func(rel, q)
        a = "%s:%s" % (rel, q)
        env = {}
        for nm in inline:
            ds = [n for n in walk_shallow(fn) if isinstance(n, ast.Assign) and U(n.targets[0]) == nm]
            if len(ds) != 1:
                raise AnalysisError("%s: expected exactly one definition of `%s`" % (q, nm))
            env[nm] = ds[0].value
        if what == "return":
            node = [n for n in walk_shallow(fn) if isinstance(n, ast.Return)][-1].value
        else:
            nm = what.split("@")[0]
            ds = [n for n in walk_shallow(fn) if isinstance(n, ast.Assign) and U(n.targets[0]) == nm and not (isinstance(n.value, ast.BinOp) and "inf" in U(n.value))]
            if what.endswith("@loop"):
                ds = [d for d in ds if any(isinstance(w, ast.While) and any(x is d for x in ast.walk(w)) for w in walk_shallow(fn))]
            if len(ds) != 1:
                raise AnalysisError("%s: expected exactly one definition of `%s`" % (q, nm))
            node = ds[0].value
        # backend functions are compared by their bare name (be.exp, backend.log, math.exp -> exp)
        got, want = canon_expr(node, env=env), canon_of(ref)
        ctx.check(got == want, a, "form:" + what, "`%s` of %s must be %s (any algebraically re-ordered spelling); found %s" % (what, q, ref, canon_str(got)), node=node)
    for rel, q, par, ref in REF_DEFAULTS:
        fn = ctx.func(rel, q)
        d = none_default(fn, par)
        ctx.check(d is not None and canon_expr(d) == canon_of(ref), "%s:%s" % (rel, q), "default:" + par, "an omitted `%s` must default to %s (`if %s is None:`); found %s" % (
            par, ref, par, U(d) if d is not None else None), node=fn)
    for (rel, par), ref in REF_TABLES.items():
        q = {DENS: "water_density", PERM: "water_permittivity"}[rel]
        fn = ctx.func(rel, q)
        d = none_default(fn, par)
        ok = d is not None and isinstance(d, ast.Tuple) and len(d.elts) == len(ref)
        if ok:
            for i, (e, r_) in enumerate(zip(d.elts, ref)):
                env = {"m3": ast.parse("m ** 3", mode="eval").body}
                g, w = canon_expr(e, env=env), canon_expr(ast.parse(r_, mode="eval").body, env=env)
                ctx.check(g == w, "%s:%s" % (rel, q), "coefficient:%s[%d]" % (par, i), "published coefficient %s[%d] is %s; found %s" % (par, i, r_, U(e)), node=e)
        else:
            ctx.violation("%s:%s" % (rel, q), "coefficients:" + par, "the default coefficient tuple `%s` (given coefficients must be used as given) has changed shape" % par, node=fn)
    for rel, consts in REF_CONSTS.items():
        m = ctx.mod(rel)
        from ..astu import fold_module_tables
        env = fold_module_tables(m.tree)
        for nm, val in consts.items():
            ctx.check(nm in env and isinstance(env[nm], (int, float)) and _close(float(env[nm]), val), rel, "constant:" + nm, "published parameter %s is %r; found %r" % (nm, val, env.get(nm)), node=None)
    m = ctx.mod(SULF)
    arr = m.assign("_data")
    try:
        data = fold(arr.args[0], {}) if isinstance(arr, ast.Call) else None
    except NotLiteral:
        data = None
    ok = data is not None and len(data) == len(REF_MYHRE) and all(len(r_) == 5 for r_ in data)
    if ok:
        bad = [(i, j) for i in range(11) for j in range(5) if not _close(float(data[i][j]), float(REF_MYHRE[i][j]))]
        ctx.check(not bad, SULF, "myhre-table", "coefficients a_ij of Myhre et al. (1998) changed at (i, j) = %s" % bad[:5], node=arr)
    else:
        ctx.violation(SULF, "myhre-table", "_data is no longer the literal 11 x 5 coefficient table", node=arr)
    fn = ctx.func(SULF, "sulfuric_acid_density")
    a = SULF + ":sulfuric_acid_density"
    ctx.check(has(fn, "t_arr = np.array([float(t_degC) ** j for j in range(5)]).reshape((1, 5))") and has(fn, "w_arr = np.array([w ** i for i in range(11)]).reshape((11, 1))"), a, "powers",
              "rho = sum_ij a_ij w**i t**j: t powers j = 0..4 along columns, w powers i = 0..10 along rows", node=fn)
    ret = [n for n in walk_shallow(fn) if isinstance(n, ast.Return)][-1]
    ctx.check(canon_expr(ret.value) == canon_of("np.sum((t_arr * w_arr) * _data) * kg / m3"), a, "form:return", "the density must be sum(t_arr * w_arr * _data) kg/m3; found %s" % U(ret.value), node=ret)
    ctx.check(canon_expr([n for n in walk_shallow(fn) if isinstance(n, ast.Assign) and U(n.targets[0]) == "t_degC"][0].value) == canon_of("t / K"), a, "t_degC=t/K", "the number of degrees Celsius is t / K", node=fn)
    fn = ctx.func(SULF, "density_from_concentration")
    a = SULF + ":density_from_concentration"
    ctx.check(has(fn, "while atol < abs(delta_rho):") and has(fn, "rho = new_rho") and has(fn, "iter_idx += 1") and has(fn, "if iter_idx > maxiter: raise NoConvergence("), a, "fixed-point-loop",
              "iterate until |change| <= atol, refusing after maxiter iterations", node=fn)
    ctx.check(has(fn, "delta_rho = float('inf') * kg_per_m3") and canon_expr([n for n in fn.body if isinstance(n, ast.Assign) and U(n.targets[0]) == "kg_per_m3"][0].value) == canon_of("kg * m ** -3"), a, "starts-unconverged",
              "the first change is infinite (the loop runs at least once) and kg_per_m3 is kg/m**3", node=fn)
    # without a units object every unit symbol is exactly the number 1 (so plain numbers are read in the documented units)
    seen_fns = set()
    for spec in FUNCS:
        rel, q = spec[0], spec[1]
        if (rel, q) in seen_fns:
            continue
        seen_fns.add((rel, q))
        fn = ctx.func(rel, q)
        arms = [n for n in fn.body if isinstance(n, ast.If) and U(n.test) == "units is None"]
        for arm in arms:
            plain = [b for b in arm.body if isinstance(b, ast.Assign)]
            ok = bool(plain) and all(isinstance(b.value, ast.Constant) and b.value.value == 1 and type(b.value.value) is int for b in plain if isinstance(b.targets[0], ast.Name))
            names1 = sorted(U(b.targets[0]) for b in plain if isinstance(b.targets[0], ast.Name))
            names2 = sorted(U(b.targets[0]) for b in arm.orelse if isinstance(b, ast.Assign) and isinstance(b.targets[0], ast.Name))
            simple = all(isinstance(b.targets[0], ast.Name) for b in plain)
            if simple and names2:
                ctx.check(ok and names1 == names2, "%s:%s" % (rel, q), "unit-symbols-are-1-without-units", "in the `units is None` arm every unit symbol must be the integer 1 and both arms must define the same symbols; "
                          "found %s vs %s" % ([U(b) for b in plain], names2), node=arm)
    fn = ctx.func(DIFF, "water_self_diffusion_coefficient")
    a = DIFF + ":water_self_diffusion_coefficient"
    for nm, ref in (("_D0", "D0 * m ** 2 * s ** -1"), ("_TS", "TS * K"), ("_dD0", "dD0 * m ** 2 * s ** -1"), ("_dTS", "dTS * K")):
        ds = [n for n in walk_shallow(fn) if isinstance(n, ast.Assign) and U(n.targets[0]) == nm]
        ctx.check(len(ds) == 1 and canon_expr(ds[0].value) == canon_of(ref), a, "form:" + nm, "`%s` must be %s" % (nm, ref), node=fn)
    augs = {U(n.target): n for n in walk_shallow(fn) if isinstance(n, ast.AugAssign)}
    ok = set(augs) == {"_D0", "_TS"} and all(isinstance(n.op, ast.Add) for n in augs.values()) and canon_expr(augs["_D0"].value) == canon_of("err_mult[0] * _dD0") and canon_expr(augs["_TS"].value) == canon_of("err_mult[1] * _dTS")
    ctx.check(ok and has(fn, "if err_mult is not None:"), a, "error-multipliers", "with err_mult the parameters are shifted by +err_mult[0]*dD0 and +err_mult[1]*dTS", node=fn)
    fn = ctx.func(VISC, "water_viscosity")
    ds = [n for n in walk_shallow(fn) if isinstance(n, ast.Assign) and U(n.targets[0]) == "t"]
    ctx.check(bool(ds) and canon_expr(ds[0].value) == canon_of("T - 273.15 * K"), VISC + ":water_viscosity", "form:t", "t = T - 273.15 K", node=fn)
    fn = ctx.func(SCHU, "lg_solubility_ratio")
    ret = [n for n in walk_shallow(fn) if isinstance(n, ast.Return)][-1]
    lc = ret.value.args[0] if isinstance(ret.value, ast.Call) and call_name(ret.value) == "sum" and ret.value.args else None
    ok = isinstance(lc, (ast.ListComp, ast.GeneratorExp)) and len(lc.generators) == 1 and not lc.generators[0].ifs and U(lc.generators[0].iter) == "electrolytes.items()"
    if ok:
        k_, v_ = [x.id for x in lc.generators[0].target.elts]
        ok = canon_expr(lc.elt) == canon_of("(p_gas_rM[gas] / M + p_ion_rM[%s] / M) * %s" % (k_, v_))
    ctx.check(ok, SCHU + ":lg_solubility_ratio", "form:return", "lg ratio = sum over ions of (h_gas + h_ion) * c_ion", node=ret)


RULES = [
    Rule("C19-R1", r1_homogeneity, 20, "unit-mode homogeneity, result dimension, hard-coded vs constants branches"),
    Rule("C19-R2", r2_scale_safety, 12, "no raw-magnitude read of a value carrying a caller-chosen unit ratio"),
    Rule("C19-R3", r3_ranges, 24, "range warnings at the published limits, strict, guarded by warn"),
    Rule("C19-R5", r5_reference_forms, 64, "formula shapes (canonical form), defaults and coefficient tables vs the cited publications as transcribed"),
    Rule("C19-R4", r4_inverse_helpers, 6, "Henry inverse helpers and van 't Hoff form"),
]

MUTANTS = [
    Mutant("viscosity-number-minus-temperature", [(VISC, "        t = (t / K).simplified.magnitude\n", "        pass\n")], "C19-R1", "water_viscosity"),
    Mutant("viscosity-raw-magnitude", [(VISC, "t = (t / K).simplified.magnitude", "t = (t / K).magnitude")], "C19-R2", "water_viscosity"),
    Mutant("mobility-kB-per-mol", [(EINST, "kB *= units.joule / units.kelvin\n", "kB *= units.joule / units.kelvin / units.mol\n")], "C19-R1", "electrical_mobility"),
    Mutant("mobility-e-value", [(EINST, "e = 1.60217662e-19", "e = 1.60217662e-18")], "C19-R1", "value:e"),
    Mutant("nernst-raw-log", [(NERNST, "        ratio = ratio.simplified  # e.g. mM/M is a pure number only after rescaling\n", "        ratio = ratio * 1\n")], "C19-R2", "nernst"),
    Mutant("nernst-R-unit", [(NERNST, "R *= units.joule / units.kelvin / units.mol", "R *= units.joule / units.mol")], "C19-R1", "nernst"),
    Mutant("nernst-F-value", [(NERNST, "F = 96485.33289", "F = 96845.33289")], "C19-R1", "value:F"),
    Mutant("sulfuric-raw-float", [(SULF, "        t_degC = t_degC.simplified  # e.g. mK/K is a pure number only after rescaling\n", "        pass\n")], "C19-R2", "sulfuric"),
    Mutant("sulfuric-result-unit", [(SULF, "return np.sum((t_arr * w_arr) * _data) * kg / m3", "return np.sum((t_arr * w_arr) * _data) * kg / m ** 2")], "C19-R1", "result-dimension"),
    Mutant("density-coefficient-unit", [(DENS, "            522528.9 * K * K,  # C**2", "            522528.9 * K,  # C**2")], "C19-R1", "water_density"),
    Mutant("diffusion-D0-unit", [(DIFF, "_D0 = D0 * m ** 2 * s ** -1", "_D0 = D0 * m ** 2 * s ** -2")], "C19-R1", "result-dimension"),
    Mutant("permittivity-U-unit", [(PERM, "            2.1417 / K * bar,", "            2.1417 / K,")], "C19-R1", "water_permittivity"),
    Mutant("permittivity-log-arg", [(PERM, "be.log((B + P) / (B + 1000.0 * bar))", "be.log((B + P) / (1000.0))")], "C19-R1", "water_permittivity"),
    Mutant("henry-T0-no-unit", [(HENRY, "        T0 = 298.15 * K", "        T0 = 298.15")], "C19-R1", "Henry_H_at_T"),
    Mutant("schumpe-gas-term-no-unit", [(SCHU, "(p_gas_rM[gas] / M + p_ion_rM[k] / M) * v", "(p_gas_rM[gas] + p_ion_rM[k] / M) * v")], "C19-R1", "lg_solubility"),
    Mutant("density-range-50", [(DENS, "_any(t > 40 * K)", "_any(t > 50 * K)")], "C19-R3", "upper-limit"),
    Mutant("density-range-nonstrict", [(DENS, "_any(t < 0 * K)", "_any(t <= 0 * K)")], "C19-R3", "lower-limit"),
    Mutant("viscosity-range-T0", [(VISC, "t = T - 273.15 * K", "t = T - 273.0 * K")], "C19-R3", "limit"),
    Mutant("diffusion-bound-constant", [(DIFF, "high_t_bound = 373.15", "high_t_bound = 363.15")], "C19-R3", "upper-limit"),
    Mutant("sulfuric-w-range", [(SULF, "np.any(w < 0.1) or np.any(w > 0.9)", "np.any(w < 0.1) or np.any(w > 0.95)")], "C19-R3", "upper-limit:w"),
    Mutant("permittivity-warn-ignored", [(PERM, "    if warn:\n        if _any(T < T0) or _any(T > T0 + 350 * K):", "    if True:\n        if _any(T < T0) or _any(T > T0 + 350 * K):")], "C19-R3", "guarded-by-warn"),
    Mutant("density-range-and", [(DENS, "(_any(t < 0 * K) or _any(t > 40 * K))", "(_any(t < 0 * K) and _any(t > 40 * K))")], "C19-R3", "either-side"),
    Mutant("henry-c-divides", [(HENRY, "return P * self(T, **kwargs)", "return P / self(T, **kwargs)")], "C19-R4", "inverse"),
    Mutant("henry-sign", [(HENRY, "return H * be.exp(Tderiv * (1 / T - 1 / T0))", "return H * be.exp(Tderiv * (1 / T0 - 1 / T))")], "C19-R4", "van-t-Hoff"),
]

MUTANTS.append(Mutant("density-from-conc-drops-molar-mass-rescale", [(SULF, "        molar_mass = molar_mass.rescale(kg / mol)\n", "")], "C19-R2", "density_from_concentration"))

MUTANTS.append(Mutant("henry-with-units-forgets-T0", [(HENRY, "        return super(HenryWithUnits, self).__call__(T, units, backend)", "        return Henry_H_at_T(T, self.Hcp, self.Tderiv, units=units, backend=backend)")], "C19-R4", "delegates"))
MUTANTS.append(Mutant("density-warning-any-inside", [(DENS, "    if warn and (_any(t < 0 * K) or _any(t > 40 * K)):", "    in_range = (t >= 0 * K) & (t <= 40 * K)\n    if warn and not _any(in_range):")], "C19-R3", "range-warning"))

TWINS = [
    Twin("viscosity-to-unitless-form", [(VISC, "        t = (t / K).simplified.magnitude\n", "        t = t.rescale(K).magnitude\n")]),
    Twin("nernst-F-more-digits", [(NERNST, "F = 96485.33289", "F = 96485.33212")]),
    Twin("density-range-rewritten", [(DENS, "(_any(t < 0 * K) or _any(t > 40 * K))", "(_any(t > 40 * K) or _any(0 * K > t))")]),
    Twin("diffusion-commuted", [(DIFF, "_D0 = D0 * m ** 2 * s ** -1", "_D0 = D0 * m ** 2 / s")]),
]
MUTANTS += [
    Mutant("tanaka-coefficient-typo", [(DENS, "999.974950 * kg / m3", "999.974590 * kg / m3")], "C19-R5", "coefficient:a[4]"),
    Mutant("viscosity-sign", [(VISC, "(A * (20 - t) - B * (t - 20) ** 2)", "(A * (20 - t) + B * (t - 20) ** 2)")], "C19-R5", "form:return"),
    Mutant("nernst-log-divided", [(NERNST, "return (R * T) / (charge * F) * backend.log(ratio)", "return (R * T) / (charge * F) / backend.log(ratio)")], "C19-R5", "form:return"),
    Mutant("kelvin-symbol-not-1", [(DIFF, "    if units is None:\n        K = 1\n", "    if units is None:\n        K = 1.0001\n")], "C19-R5", "unit-symbols"),
    Mutant("myhre-entry", [(SULF, "[547.2659, -5.300445, 0.01187671, 0.0005990008, 0]", "[547.2659, -5.300445, 0.01187671, 0.0005990080, 0]")], "C19-R5", "myhre-table"),
    Mutant("fixed-point-inverted", [(SULF, "new_rho = rho_cb(conc * molar_mass / rho, T,", "new_rho = rho_cb(conc * molar_mass * rho, T,")], "C19-R5", "form:new_rho"),
]
TWINS += [
    Twin("tanaka-reordered", [(DENS, "return a[4] * (1 - ((t + a[0]) ** 2 * (t + a[1])) / (a[2] * (t + a[3])))", "return (1 - (a[1] + t) * (a[0] + t) ** 2 / (a[3] + t) / a[2]) * a[4]")]),
    Twin("henry-reordered", [(HENRY, "return H * be.exp(Tderiv * (1 / T - 1 / T0))", "return be.exp((-1 / T0 + 1 / T) * Tderiv) * H")]),
]

