"""C13 -- LaTeX / Unicode / HTML names show the same formula."""
from __future__ import annotations

import ast
import html.entities
import unicodedata

from ..astu import (U, has, dotted, walk_shallow, fold, NotLiteral, fold_module_tables, call_name, calls_in, kwarg,
                    param_default, names_in)
from ..core import AnalysisError, Mutant, Rule, Twin
from ..idioms import for_loops, target_names
from ..tables import parse_regex, sre_c

ID = "C13"
PARSING = "chempy/util/parsing.py"
CHEM = "chempy/chemistry.py"
PRINTERS = {"unicode": ("chempy/printing/pretty.py", "UnicodePrinter"),
            "html": ("chempy/printing/web.py", "HTMLPrinter"),
            "latex": ("chempy/printing/tex.py", "LatexPrinter")}
ENGINES = ["E0 core", "E1 tables", "E5 siblings"]
TECHNIQUE = "literal-table folding checked against unicodedata/html.entities; regex syntax-tree comparison; sibling wiring facts (ast)"
CLAIM = ("Decides: the greek/subscript/superscript tables denote the right Unicode characters, HTML entities and LaTeX "
         "macros; each format function is wired to its own tables and markup; the charge token is magnitude-then-sign with 1 "
         "omitted; renderer and parser agree on the count token; from_formula derives all four views from one formula."
         ' Which formula part feeds which piece of the rendering; phase-index arms and defaults (R9). Shared rule A1: no swapped same-named arguments at resolved in-package call sites.')
DOES_NOT_DECIDE = "the regex substitution on arbitrary formulas (needs generation); invertibility of the rendering"
ASSUMPTIONS = ["unicodedata and html.entities of the running interpreter are correct reference tables"]

GREEK_UNAME = {"lambda": "LAMDA"}
LATEX_EXC = {"epsilon": "\\varepsilon-", "omicron": "o-"}
DIGIT_NAMES = "ZERO ONE TWO THREE FOUR FIVE SIX SEVEN EIGHT NINE".split()


def _tables(ctx):
    m = ctx.mod(PARSING)
    return m, fold_module_tables(m.tree, {})


def r1_greek(ctx):
    m, env = _tables(ctx)
    for nm in ("_greek_letters", "_greek_u", "_latex_mapping", "_unicode_mapping", "_html_mapping",
               "_latex_infix_mapping", "_unicode_infix_mapping", "_html_infix_mapping"):
        if nm not in env:
            raise AnalysisError("cannot fold parsing.%s to a literal table" % nm)
    gl, gu = env["_greek_letters"], env["_greek_u"]
    a = PARSING + ":_greek_letters"
    ctx.check(len(gl) == 24 and len(gu) == 24 and len(set(gl)) == 24, a, "24-letters",
              "_greek_letters has %d names, _greek_u %d characters; both must be 24" % (len(gl), len(gu)))
    want_keys = {k + "-" for k in gl} | {"."}
    for i, name in enumerate(gl):
        ch = gu[i] if i < len(gu) else None
        try:
            un = unicodedata.name(ch) if ch else None
        except ValueError:
            un = None
        want = "GREEK SMALL LETTER " + GREEK_UNAME.get(name, name).upper()
        ctx.check(un == want, PARSING + ":_greek_u", "unicode:" + name,
                  "position %d of _greek_u is %r (%s); expected %s" % (i, ch, un, want))
        uv = env["_unicode_mapping"].get(name + "-")
        ctx.check(uv == (ch or "") + "-", PARSING + ":_unicode_mapping", "unicode-map:" + name,
                  "_unicode_mapping[%r] = %r, expected %r" % (name + "-", uv, (ch or "") + "-"))
        hv = env["_html_mapping"].get(name + "-")
        cp = html.entities.name2codepoint.get(name)
        ctx.check(hv == "&%s;-" % name and cp is not None and ch is not None and cp == ord(ch), PARSING + ":_html_mapping", "html:" + name,
                  "_html_mapping[%r] = %r; entity &%s; is code point %s, the unicode table has %r" % (name + "-", hv, name, cp, ch))
        lv = env["_latex_mapping"].get(name + "-")
        ctx.check(lv == LATEX_EXC.get(name, "\\" + name + "-"), PARSING + ":_latex_mapping", "latex:" + name,
                  "_latex_mapping[%r] = %r, expected %r" % (name + "-", lv, LATEX_EXC.get(name, "\\" + name + "-")))
    for nm in ("_latex_mapping", "_unicode_mapping", "_html_mapping"):
        ks = set(env[nm])
        ctx.check(ks == want_keys, PARSING + ":" + nm, "key-set",
                  "%s keys differ from {greek-} + {'.'}: missing %s, extra %s" % (nm, sorted(want_keys - ks), sorted(ks - want_keys)))
    # radical dot
    dot_u = env["_unicode_mapping"].get(".")
    dot_h = env["_html_mapping"].get(".")
    ok = isinstance(dot_h, str) and dot_h.startswith("&") and dot_h.endswith(";") and \
        html.entities.html5.get(dot_h[1:]) == dot_u
    ctx.check(ok, PARSING + ":_html_mapping", "radical-dot", "radical dot: html %r and unicode %r denote different characters" % (dot_h, dot_u))
    ctx.check(env["_latex_mapping"].get(".") in ("^\\bullet ", "^{\\bullet}", "^\\bullet"), PARSING + ":_latex_mapping", "radical-dot",
              "latex radical dot is %r" % env["_latex_mapping"].get("."))
    # infix tables
    for nm, accept in (("_latex_infix_mapping", {"\\cdot "}), ("_unicode_infix_mapping", {"·", "⋅"}),
                       ("_html_infix_mapping", {"&sdot;", "&middot;", "&#183;"})):
        t = env[nm]
        ctx.check(set(t) == {".."} and t.get("..") in accept, PARSING + ":" + nm, "infix",
                  "%s must map '..' to the format's centred dot (%s); found %r" % (nm, sorted(accept), t))


def r2_digits(ctx):
    m, env = _tables(ctx)
    for nm in ("_unicode_sub", "_unicode_sup"):
        if nm not in env:
            raise AnalysisError("cannot fold parsing.%s" % nm)
    sub, sup = env["_unicode_sub"], env["_unicode_sup"]
    for d in range(10):
        for nm, t, word in (("_unicode_sub", sub, "SUBSCRIPT"), ("_unicode_sup", sup, "SUPERSCRIPT")):
            ch = t.get(str(d))
            try:
                un = unicodedata.name(ch) if isinstance(ch, str) and len(ch) == 1 else None
            except ValueError:
                un = None
            ctx.check(un == "%s %s" % (word, DIGIT_NAMES[d]), PARSING + ":" + nm, "digit:%d" % d,
                      "%s[%r] is %r (%s), expected %s %s" % (nm, str(d), ch, un, word, DIGIT_NAMES[d]))
    ctx.check(sub.get(".") == ".", PARSING + ":_unicode_sub", "decimal-point", "_unicode_sub['.'] must be '.', found %r" % sub.get("."))
    for k, want in (("+", "SUPERSCRIPT PLUS SIGN"), ("-", "SUPERSCRIPT MINUS")):
        ch = sup.get(k)
        try:
            un = unicodedata.name(ch) if isinstance(ch, str) and len(ch) == 1 else None
        except ValueError:
            un = None
        ctx.check(un == want, PARSING + ":_unicode_sup", "sign:" + k, "_unicode_sup[%r] is %r (%s), expected %s" % (k, ch, un, want))
    for nm, t, req in (("_unicode_sub", sub, [str(i) for i in range(10)] + ["."]), ("_unicode_sup", sup, [str(i) for i in range(10)] + ["+", "-"])):
        vals = [t.get(k) for k in req]
        ctx.check(len(set(vals)) == len(vals), PARSING + ":" + nm, "injective", "%s is not injective on %s" % (nm, req))


FMT = {
    "latex": dict(fn="formula_to_latex", pre="_latex_mapping", inf="_latex_infix_mapping", sub="'_{%s}' % x", sup="'^{%s}' % x"),
    "unicode": dict(fn="formula_to_unicode", pre="_unicode_mapping", inf="_unicode_infix_mapping", sub="_unicode_sub", sup="_unicode_sup"),
    "html": dict(fn="formula_to_html", pre="_html_mapping", inf="_html_infix_mapping", sub="'<sub>%s</sub>' % x", sup="'<sup>%s</sup>' % x"),
}


def r3_wiring(ctx):
    for fmt, d in FMT.items():
        fn = ctx.func(PARSING, d["fn"])
        a = PARSING + ":" + d["fn"]
        defaults = {}
        for s in fn.body:
            if isinstance(s, ast.If) and isinstance(s.test, ast.Compare) and isinstance(s.test.ops[0], ast.Is) \
                    and isinstance(s.test.comparators[0], ast.Constant) and s.test.comparators[0].value is None:
                for b in s.body:
                    if isinstance(b, ast.Assign) and U(b.targets[0]) == U(s.test.left):
                        defaults[U(s.test.left)] = U(b.value)
        ctx.check(defaults.get("prefixes") == d["pre"], a, "default-prefixes", "default prefixes are %s, expected %s" % (defaults.get("prefixes"), d["pre"]), node=fn)
        ctx.check(defaults.get("infixes") == d["inf"], a, "default-infixes", "default infixes are %s, expected %s" % (defaults.get("infixes"), d["inf"]), node=fn)
        calls = [c for c in calls_in(fn) if call_name(c) == "_formula_to_format"]
        if len(calls) != 1:
            raise AnalysisError("%s: expected one call of _formula_to_format" % d["fn"])
        c = calls[0]
        if len(c.args) < 5:
            raise AnalysisError("%s: _formula_to_format call shape changed" % d["fn"])
        sub, sup, form, pre, inf = c.args[:5]
        ctx.check(d["sub"] in U(sub) and d["sup"] not in U(sub), a, "sub-markup", "subscript callback is `%s`, expected the %s subscript markup (%s)" % (U(sub), fmt, d["sub"]), node=c)
        ctx.check(d["sup"] in U(sup) and d["sub"] not in U(sup), a, "sup-markup", "superscript callback is `%s`, expected the %s superscript markup (%s)" % (U(sup), fmt, d["sup"]), node=c)
        ctx.check(U(pre) == "prefixes" and U(inf) == "infixes", a, "tables-forwarded", "prefixes/infixes not forwarded in order: %s, %s" % (U(pre), U(inf)), node=c)
        ctx.check("formula" in names_in(form), a, "formula-forwarded", "formula argument is %s" % U(form), node=c)
        ctx.check(any(k.arg is None and U(k.value) == "kwargs" for k in c.keywords), a, "kwargs-forwarded", "**kwargs (suffixes) not forwarded", node=c)
    # printers
    for fmt, (rel, cls) in PRINTERS.items():
        m = ctx.mod(rel)
        a = "%s:%s" % (rel, cls)
        ds = m.class_assign(cls, "_default_settings")
        kws = {k.arg: k.value for k in ds.keywords} if isinstance(ds, ast.Call) else {}
        ctx.check(isinstance(kws.get("repr_name"), ast.Constant) and kws["repr_name"].value == fmt, a, "repr_name", "repr_name is %s" % (U(kws["repr_name"]) if "repr_name" in kws else None), node=ds)
        ctx.check("Reaction_arrow" in kws and "Equilibrium_arrow" in kws, a, "both-arrows", "printer does not define both arrows", node=ds)
        ctx.check("magnitude_fmt" in kws and U(kws["magnitude_fmt"]) == "number_to_scientific_" + fmt, a, "magnitude_fmt",
                  "magnitude_fmt is %s, expected number_to_scientific_%s" % (U(kws["magnitude_fmt"]) if "magnitude_fmt" in kws else None, fmt), node=ds)
        ps = ctx.func(rel, cls + "._print_Substance")
        rets = [n for n in walk_shallow(ps) if isinstance(n, ast.Return)]
        sarg = ps.args.args[1].arg
        want = "%s.%s_name or %s.name" % (sarg, fmt, sarg)
        ctx.check(len(rets) == 1 and U(rets[0].value) == want, a + "._print_Substance", "name-attribute",
                  "_print_Substance returns `%s`, expected `%s`" % (U(rets[0].value) if rets else None, want), node=ps)
    # arrows of the three printers are pairwise distinct within a printer
    for fmt, (rel, cls) in PRINTERS.items():
        ds = ctx.mod(rel).class_assign(cls, "_default_settings")
        kws = {k.arg: k.value for k in ds.keywords}
        try:
            ra, ea = fold(kws["Reaction_arrow"], {}), fold(kws["Equilibrium_arrow"], {})
        except (NotLiteral, KeyError):
            continue
        ctx.check(ra != ea, "%s:%s" % (rel, cls), "arrows-distinct", "Reaction and Equilibrium arrows are both %r" % ra, node=ds)


def r4_charge_token(ctx):
    fn = ctx.func(PARSING, "_formula_to_format")
    a = PARSING + ":_formula_to_format"
    # statements under `if parts[1] is not None:`
    blk = None
    for s in fn.body:
        if isinstance(s, ast.If) and "is not None" in U(s.test):
            blk = s
    if blk is None:
        raise AnalysisError("anchor vanished: charge block of _formula_to_format")
    chg = None
    for s in blk.body:
        if isinstance(s, ast.Assign) and isinstance(s.value, ast.Call) and call_name(s.value) == "_get_charge":
            chg = s.targets[0].id
    if chg is None:
        gcs = [c for c in calls_in(blk) if call_name(c) == "_get_charge"]
        discarded = [st_ for st_ in ast.walk(blk) if isinstance(st_, ast.Expr) and any(st_.value is c for c in gcs)]
        if not gcs or len(discarded) == len(gcs):
            ctx.violation(a, "charge-token", "the rendered charge must be computed from the integer that _get_charge returns (the written token may be '+2', '2+', '+', '++' ...); "
                          "here its value is %s" % ("never asked for" if not gcs else "thrown away"), node=blk)
        raise AnalysisError("anchor vanished: chg = _get_charge(...) in _formula_to_format")
    results = {}
    for val in (-12, -3, -2, -1, 1, 2, 3, 12):
        env = {chg: val}
        tok = None
        try:
            for s in blk.body:
                if isinstance(s, ast.If):
                    if fold(s.test, env):
                        for b in s.body:
                            if isinstance(b, ast.Assign):
                                env[b.targets[0].id] = fold(b.value, env)
                    else:
                        for b in s.orelse:
                            if isinstance(b, ast.Assign):
                                env[b.targets[0].id] = fold(b.value, env)
                elif isinstance(s, ast.Assign) and not isinstance(s.value, ast.Call):
                    env[s.targets[0].id] = fold(s.value, env)
        except NotLiteral as e:
            raise AnalysisError("charge token expression outside the literal fragment: %s" % e)
        # which name is passed to sup()?
        supcalls = [c for c in calls_in(blk) if call_name(c) == fn.args.args[1].arg]
        if len(supcalls) != 1 or len(supcalls[0].args) != 1 or not isinstance(supcalls[0].args[0], ast.Name):
            raise AnalysisError("charge token is not rendered through a single sup(<name>) call")
        tok = env.get(supcalls[0].args[0].id)
        want = ("" if abs(val) == 1 else str(abs(val))) + ("+" if val > 0 else "-")
        results[val] = (tok, want)
    bad = {v: r for v, r in results.items() if r[0] != r[1]}
    ctx.check(not bad, a, "charge-token", "charge rendered as %s" % {v: "%r (expected %r)" % r for v, r in bad.items()},
              node=blk, table={str(k): v[0] for k, v in results.items()})
    # the rendered token is appended to the string
    ok = any(isinstance(s, ast.AugAssign) and isinstance(s.value, ast.Call) and call_name(s.value) == fn.args.args[1].arg for s in blk.body)
    ctx.check(ok, a, "token-through-sup", "the charge token is not appended as sup(token)", node=blk)
    # counts go through sub(), via group(1) of the count pattern
    subs = [c for c in calls_in(fn) if call_name(c) == "re.sub"]
    ok = False
    for c in subs:
        if len(c.args) == 3 and isinstance(c.args[1], ast.Lambda):
            body = c.args[1].body
            if isinstance(body, ast.Call) and call_name(body) == fn.args.args[0].arg and "group(1)" in U(body):
                ok = True
    ctx.check(ok, a, "counts-through-sub", "counts are not rendered as sub(<match>.group(1))", node=fn)
    # prefixes substituted and suffixes appended verbatim
    ret = [n for n in walk_shallow(fn) if isinstance(n, ast.Return)][-1]
    txt = U(ret.value)
    ctx.check("parts[3]" in txt and "''.join" in txt, a, "suffix-kept", "suffixes (parts[3]) are not appended verbatim: %s" % txt, node=ret)


def r5_one_formula(ctx):
    specs = [("Substance.from_formula", False), ("Species.from_formula", True), ("Solute.from_formula", False)]
    for q, phased in specs:
        m = ctx.mod(CHEM)
        if not m.has_func(q):
            if q.startswith("Solute"):
                continue
            raise AnalysisError("anchor vanished: %s" % q)
        fn = ctx.func(CHEM, q)
        a = CHEM + ":" + q
        rets = [n for n in walk_shallow(fn) if isinstance(n, ast.Return) and isinstance(n.value, ast.Call)]
        c = rets[-1].value
        farg = fn.args.args[1].arg
        ctx.check(c.args and U(c.args[0]) == farg, a, "name-is-formula", "the substance name is %s, expected the formula" % (U(c.args[0]) if c.args else None), node=c)
        want = {"latex_name": "formula_to_latex", "unicode_name": "formula_to_unicode", "html_name": "formula_to_html",
                "composition": "formula_to_composition"}
        suffix_exprs = set()
        for kw, f in want.items():
            v = kwarg(c, kw)
            ok = isinstance(v, ast.Call) and call_name(v) == f and v.args and U(v.args[0]) == farg
            if ok and phased:
                sv = kwarg(v, "suffixes")
                ok = sv is not None
                if ok:
                    suffix_exprs.add(U(sv))
            ctx.check(ok, a, kw, "%s= must be %s(%s%s); found %s" % (kw, f, farg, ", suffixes=<phase suffixes>" if phased else "", U(v) if v is not None else None), node=c)
        if phased:
            # one suffix set for all four views; it contains the phase suffixes and the notation's own default suffixes
            ctx.check(len(suffix_exprs) == 1, a, "one-suffix-set", "the three names and the composition must be parsed with the same suffixes; found %s" % sorted(suffix_exprs), node=c)
            sx = next(iter(suffix_exprs)) if suffix_exprs else None
            sdef = None
            if sx is not None and sx != "phases":
                for n in walk_shallow(fn):
                    if isinstance(n, ast.Assign) and U(n.targets[0]) == sx:
                        sdef = n.value
            dflt = param_default(fn, "phases")
            parser_default = param_default(ctx.func(PARSING, "formula_to_composition"), "suffixes")
            try:
                env = {"phases": fold(dflt, {})}
                got = tuple(fold(sdef, env)) if sdef is not None else tuple(env["phases"])
                need = tuple(fold(parser_default, {}))
            except NotLiteral:
                got = need = None
            ctx.check(got is not None and set(env["phases"]) <= set(got), a, "suffixes-include-phases", "the suffix set %s must contain every phase suffix" % (got,), node=c)
            ctx.check(got is not None and set(need) <= set(got), a, "suffixes-cover-notation-defaults",
                      "with the default phases the suffix set is %s; the formula notation's own suffixes are %s: a charged formula ending in a missing suffix (e.g. 'Na+(aq)') cannot be parsed" % (got, need), node=c)
            # the default index is used only when no suffix matched (0 is a legitimate index)
            ctx.check(has(fn, "if p_i is None: if default_phase_idx is None: raise ValueError('Could not determine phase_idx') else: p_i = default_phase_idx"), a, "default-only-when-unmatched",
                      "default_phase_idx may replace p_i only when p_i is None (an index 0 selected by the suffix is a match)", node=fn)
            # list-form phases: index + 1 ; dict-form: its value
            loops = for_loops(fn)
            ok_enum = ok_dict = False
            for lp in loops:
                if isinstance(lp.iter, ast.Call) and call_name(lp.iter) == "enumerate" and U(lp.iter.args[0]) == "phases":
                    idx, ph = target_names(lp.target)
                    for n in walk_shallow(lp):
                        if isinstance(n, ast.If) and U(n.test) == "%s.endswith(%s)" % (farg, ph):
                            for b in n.body:
                                if isinstance(b, ast.Assign) and U(b.value).replace(" ", "") in ("%s+1" % idx, "1+%s" % idx):
                                    ok_enum = True
                if isinstance(lp.iter, ast.Call) and U(lp.iter) == "phases.items()":
                    k, v = target_names(lp.target)
                    for n in walk_shallow(lp):
                        if isinstance(n, ast.If) and U(n.test) == "%s.endswith(%s)" % (farg, k):
                            for b in n.body:
                                if isinstance(b, ast.Assign) and U(b.value) == v:
                                    ok_dict = True
            ctx.check(ok_enum, a, "phase-index+1", "list-form phases must select index + 1 of the matching suffix", node=fn)
            ctx.check(ok_dict, a, "phase-dict-value", "dict-form phases must select the value of the matching suffix", node=fn)
            pk = kwarg(c, "phase_idx")
            ctx.check(pk is not None and U(pk) == "p_i", a, "phase_idx-forwarded", "phase_idx not forwarded", node=c)


def _canon_alt(seq):
    out = []
    for op, av in seq:
        if op is sre_c.LITERAL:
            out.append(chr(av))
        elif op is sre_c.IN:
            items = list(av)
            if items == [(sre_c.RANGE, (48, 57))] or items == [(sre_c.CATEGORY, sre_c.CATEGORY_DIGIT)]:
                out.append("D")
            else:
                out.append("[?]")
        elif op in (sre_c.MAX_REPEAT, sre_c.MIN_REPEAT):
            lo, hi, sub = av
            inner = _canon_alt(sub)
            q = {(1, sre_c.MAXREPEAT): "+", (0, sre_c.MAXREPEAT): "*", (0, 1): "?"}.get((lo, hi), "{%s,%s}" % (lo, hi))
            if op is sre_c.MIN_REPEAT:
                q += "?"
            out.append(inner + q)
        elif op is sre_c.SUBPATTERN:
            out.append("(" + _canon_alt(av[3]) + ")")
        elif op is sre_c.BRANCH:
            out.append("|".join(_canon_alt(a) for a in av[1]))
        elif op is sre_c.CATEGORY and av is sre_c.CATEGORY_DIGIT:
            out.append("D")
        else:
            out.append("<%s>" % op)
    return "".join(out)


def _alts(pattern):
    t = list(parse_regex(pattern))
    if len(t) == 1 and t[0][0] is sre_c.SUBPATTERN:
        t = list(t[0][1][3])
    if len(t) == 1 and t[0][0] is sre_c.BRANCH:
        return [_canon_alt(a) for a in t[0][1][1]]
    return [_canon_alt(t)]


def r7_count_token(ctx):
    fp = ctx.func(PARSING, "_get_formula_parser")
    cnt = None
    for n in walk_shallow(fp):
        if isinstance(n, ast.Assign) and U(n.targets[0]) == "count" and isinstance(n.value, ast.Call) and (call_name(n.value) or "").endswith("Regex"):
            cnt = n.value.args[0]
    ff = ctx.func(PARSING, "_formula_to_format")
    rs = [c for c in calls_in(ff) if call_name(c) == "re.sub"]
    if cnt is None or not rs:
        raise AnalysisError("anchor vanished: count Regex / re.sub in parsing.py")
    try:
        p_parser, p_render = fold(cnt, {}), fold(rs[0].args[0], {})
    except NotLiteral:
        raise AnalysisError("count patterns are not constants")
    ap, ar = _alts(p_parser), _alts(p_render)
    a1, a2 = PARSING + ":_get_formula_parser", PARSING + ":_formula_to_format"
    ctx.check(ap in (["D+.D+", "D*"], ["D+.D+", "D+"]), a1, "count-pattern",
              "parser count token alternatives are %s; expected decimal (D+.D+) before integer (D*)" % ap, node=cnt, alts=ap)
    ctx.check(ar == ["D+.D+", "D+"], a2, "count-pattern",
              "renderer count pattern alternatives are %s; expected decimal (D+.D+) before integer (D+): a decimal count would be split into two subscripts" % ar,
              node=rs[0], alts=ar)


def r6_hydrate(ctx):
    f1 = ctx.func(PARSING, "formula_to_composition")
    f2 = ctx.func(PARSING, "_formula_to_format")
    facts = []
    for fn in (f1, f2):
        seps = []
        for n in walk_shallow(fn):
            if isinstance(n, ast.Call) and isinstance(n.func, ast.Attribute) and n.func.attr == "split" and n.args and isinstance(n.args[0], ast.Constant):
                seps.append(n.args[0].value)
        tests = [n.left.value for n in walk_shallow(fn) if isinstance(n, ast.Compare) and isinstance(n.ops[0], ast.In)
                 and isinstance(n.left, ast.Constant) and isinstance(n.left.value, str)]
        lead = any(call_name(c) == "_get_leading_integer" for c in calls_in(fn))
        suff = param_default(fn, "suffixes")
        facts.append(dict(seps=sorted(seps), tests=sorted(tests), lead=lead, suffixes=U(suff) if suff is not None else None))
    a = PARSING + ":_formula_to_format"
    ctx.check(facts[0]["seps"] == facts[1]["seps"] and set(facts[0]["seps"]) == {"..", "·"}, a, "same-separators",
              "hydrate separators differ: composition %s, rendering %s" % (facts[0]["seps"], facts[1]["seps"]), node=f2)
    ctx.check(facts[0]["tests"] == facts[1]["tests"], a, "same-separator-test", "separator tests differ: %s vs %s" % (facts[0]["tests"], facts[1]["tests"]), node=f2)
    ctx.check(facts[0]["lead"] and facts[1]["lead"], a, "same-leading-integer-helper", "both must use _get_leading_integer", node=f2)
    ctx.check(facts[0]["suffixes"] == facts[1]["suffixes"], a, "same-default-suffixes",
              "default suffixes differ: %s vs %s" % (facts[0]["suffixes"], facts[1]["suffixes"]), node=f2)
    # the hydrate multiplier is rendered when != 1 and the infix only between parts
    ok = False
    for n in walk_shallow(f2):
        if isinstance(n, ast.If) and U(n.test).replace(" ", "") == "m!=1":
            ok = any(isinstance(b, ast.AugAssign) and U(b.value) == "str(m)" for b in n.body)
    ctx.check(ok, a, "hydrate-multiplier-rendered", "the hydrate multiplier must be rendered as str(m) when m != 1", node=f2)


def r8_prefix_rendering(ctx):
    """each dropped prefix is rendered by its own table entry; sequential substitution is safe only on substring-free tables"""
    m, env = _tables(ctx)
    fn = ctx.func(PARSING, "_formula_to_format")
    a = PARSING + ":_formula_to_format"
    pre = None
    for n in walk_shallow(fn):
        if isinstance(n, ast.Assign) and U(n.targets[0]) == "pre_str":
            pre = n.value
    if pre is None:
        raise AnalysisError("anchor vanished: pre_str in _formula_to_format")
    uses_subs = any(call_name(c) == "_subs" for c in ast.walk(pre) if isinstance(c, ast.Call))
    direct = has(pre, "prefixes[x] for x in parts[2]", scope=fn)
    if direct and not uses_subs:
        ctx.holds(a, "prefix-by-lookup")
        ctx.holds(a, "prefix-order-kept")
    else:
        # sequential str.replace over all keys: no key may occur inside another key or inside an earlier replacement
        bad = []
        for tab in ("_latex_mapping", "_unicode_mapping", "_html_mapping"):
            t = env.get(tab) or {}
            keys = list(t)
            for i, k in enumerate(keys):
                for j, k2 in enumerate(keys):
                    if k != k2 and k in k2:
                        bad.append("%s: %r occurs inside %r" % (tab, k, k2))
        ctx.check(uses_subs and not bad, a, "prefix-by-lookup", "prefixes are rendered by substituting every table key in turn, but the table is not substring free (%s ...): "
                  "'beta-', 'zeta-' and 'theta-' contain 'eta-' and are rendered wrongly" % "; ".join(bad[:3]), node=pre)
    ret = [n for n in walk_shallow(fn) if isinstance(n, ast.Return)][-1]
    ctx.check(has(ret.value, "pre_str + string + ''.join(parts[3])", scope=fn), a, "prefix+body+suffix", "the rendering must be prefixes + body + suffixes", node=ret)
    # infix substitution acts on the separator only
    ctx.check(has(fn, "string += _subs('..', infixes)"), a, "infix-of-separator", "the hydrate separator must be rendered from the infix table", node=fn)


def r9_arms(ctx):
    """which part of the split formula feeds which piece of the rendering; phase-index arms"""
    fn = ctx.func(PARSING, "_formula_to_format")
    a = PARSING + ":_formula_to_format"

    def chk(frag, key, msg, scope=fn, anchor=a):
        ctx.check(has(scope, frag), anchor, key, msg + " (expected `%s`)" % frag, node=scope)

    chk("parts = _formula_to_parts(formula, prefixes.keys(), suffixes)", "split(formula,prefix-keys,suffixes)", "the formula is split with the prefix table's keys and the suffixes")
    chk("if '·' in parts[0]: stoichs = parts[0].split('·') else: stoichs = parts[0].split('..')", "hydrate-parts-of-stoichiometry", "hydrate parts come from the stoichiometry part (index 0)")
    chk("for idx, stoich in enumerate(stoichs): if idx == 0: m = 1 else: m, stoich = _get_leading_integer(stoich) string += _subs('..', infixes)", "first-part-bare",
        "the first part has no multiplier and no separator; every later part gets the separator symbol and its leading count")
    chk("if parts[1] is not None: chg = _get_charge(parts[1])", "charge-from-part-1", "the charge token is rendered exactly when the charge part (index 1) is present")
    ret = [n for n in walk_shallow(fn) if isinstance(n, ast.Return)][-1]
    ctx.check(has(ret, "return pre_str + string + ''.join(parts[3])", scope=fn), a, "prefix+body+suffix", "result is rendered prefixes, body, then the suffixes verbatim", node=ret)
    fl = ctx.func(PARSING, "formula_to_latex")
    chk("re.sub('([{}])', '\\\\\\\\\\\\1', formula) if re.search('[{}]', formula) else formula", "braces-escaped", "curly brackets of the formula are escaped for LaTeX (and only those)", scope=fl, anchor=PARSING + ":formula_to_latex")
    sp = ctx.func(CHEM, "Species.from_formula")
    a2 = CHEM + ":Species.from_formula"
    chk("if 'phase_idx' in kwargs: p_i = kwargs.pop('phase_idx') else: p_i = None", "explicit-phase-wins", "an explicit phase_idx is used as given; otherwise it is derived from the suffix", scope=sp, anchor=a2)
    chk("for k, v in phases.items(): if formula.endswith(k): p_i = v break", "mapping-arm", "with a mapping the suffix selects its value", scope=sp, anchor=a2)
    chk("if p_i is None: if default_phase_idx is None: raise ValueError('Could not determine phase_idx') else: p_i = default_phase_idx", "no-suffix->default-or-refuse",
        "without a known suffix the default index is used, or the formula refused when there is no default", scope=sp, anchor=a2)
    d = param_default(sp, "default_phase_idx")
    ctx.check(d is not None and U(d) == "0", a2, "default-phase-0", "a formula without phase suffix is in phase 0 by default", node=sp)
    d = param_default(sp, "phases")
    ctx.check(d is not None and U(d) == "('(s)', '(l)', '(g)')", a2, "default-phases", "default phases are (s), (l), (g) -> 1, 2, 3", node=sp)


RULES = [
    Rule("C13-R1", r1_greek, 100, "greek prefix tables vs unicodedata / html.entities / LaTeX macro names; key sets; infix tables"),
    Rule("C13-R2", r2_digits, 24, "subscript/superscript digit tables vs unicodedata"),
    Rule("C13-R3", r3_wiring, 30, "formula_to_<fmt> and <Fmt>Printer wiring"),
    Rule("C13-R4", r4_charge_token, 4, "charge token magnitude-then-sign, 1 omitted; counts through sub(); suffix kept"),
    Rule("C13-R5", r5_one_formula, 12, "from_formula derives names and composition from the same formula (suffixes=phases)"),
    Rule("C13-R6", r6_hydrate, 5, "hydrate handling identical in composition and rendering"),
    Rule("C13-R7", r7_count_token, 2, "renderer and parser count token: decimal alternative first"),
    Rule("C13-R9", r9_arms, 11, "formula parts feed the intended pieces; phase-index arms and defaults"),
    Rule("C13-R8", r8_prefix_rendering, 3, "prefix rendering by direct lookup (or on a substring-free table)"),
]

MUTANTS = [
    Mutant("greek-u-swapped", [(PARSING, "αβγδεζηθικλμνξοπρστυφχψω", "αβγδεζηθικλμνξοπρσυτφχψω")], "C13-R1", "unicode:tau"),
    Mutant("greek-name-order", [(PARSING, '    "xi",\n    "omicron",', '    "omicron",\n    "xi",')], "C13-R1", "unicode:"),
    Mutant("greek-missing", [(PARSING, '    "psi",\n', "")], "C13-R1", "24"),
    Mutant("html-no-dash", [(PARSING, '_html_mapping = {k + "-": "&" + k + ";-" for k in _greek_letters}', '_html_mapping = {k + "-": "&" + k + ";" for k in _greek_letters}')], "C13-R1", "html:"),
    Mutant("sub-digits-shifted", [(PARSING, '"₀₁₂₃₄₅₆₇₈₉."', '"₁₂₃₄₅₆₇₈₉₀."')], "C13-R2", "digit:"),
    Mutant("sup-sign-swapped", [(PARSING, '    "+": "⁺",\n    "-": "⁻",', '    "+": "⁻",\n    "-": "⁺",')], "C13-R2", "sign:"),
    Mutant("html-uses-latex-prefixes", [(PARSING, "        prefixes = _html_mapping", "        prefixes = _latex_mapping")], "C13-R3", "default-prefixes"),
    Mutant("unicode-sub-sup-swapped", [(PARSING, '        lambda x: "".join(_unicode_sub[str(_)] for _ in x),\n        lambda x: "".join(_unicode_sup[str(_)] for _ in x),', '        lambda x: "".join(_unicode_sup[str(_)] for _ in x),\n        lambda x: "".join(_unicode_sub[str(_)] for _ in x),')], "C13-R3", "markup"),
    Mutant("printer-wrong-name", [("chempy/printing/web.py", "return s.html_name or s.name", "return s.unicode_name or s.name", 1)], "C13-R3", "name-attribute"),
    Mutant("charge-sign-first", [(PARSING, '"%d-" % -chg', '"-%d" % -chg')], "C13-R4", "charge-token"),
    Mutant("charge-one-kept", [(PARSING, 'token = "+" if chg == 1 else "%d+" % chg', 'token = "%d+" % chg')], "C13-R4", "charge-token"),
    Mutant("charge-neg-magnitude", [(PARSING, '"%d-" % -chg', '"%d-" % chg')], "C13-R4", "charge-token"),
    Mutant("species-composition-no-phases", [(CHEM, "composition=formula_to_composition(formula, suffixes=suffixes),", "composition=formula_to_composition(formula),")], "C13-R5", "composition"),
    Mutant("species-composition-other-suffixes", [(CHEM, "composition=formula_to_composition(formula, suffixes=suffixes),", "composition=formula_to_composition(formula, suffixes=phases),")], "C13-R5", "one-suffix-set"),
    Mutant("species-suffixes-without-aq", [(CHEM, '        suffixes = tuple(phases) + tuple(s for s in ("(aq)",) if s not in phases)\n', "        suffixes = tuple(phases)\n")], "C13-R5", "notation-defaults"),
    Mutant("species-default-when-falsy", [(CHEM, "            if p_i is None:\n                if default_phase_idx is None:", "            if not p_i:\n                if default_phase_idx is None:")], "C13-R5", "default-only"),
    Mutant("prefix-sequential-substitution", [(PARSING, '    pre_str = "".join(prefixes[x] for x in parts[2])\n', '    pre_str = "".join(map(lambda x: _subs(x, prefixes), parts[2]))\n')], "C13-R8", "prefix-by-lookup"),
    Mutant("greek-u-from-codepoint-range", [(PARSING, '_greek_u = "αβγδεζηθικλμνξοπρστυφχψω"', '_greek_u = "".join(map(chr, range(ord("α"), ord("ω") + 1)))')], "C13-R1", ""),
    Mutant("species-phase-index", [(CHEM, "p_i = idx + 1", "p_i = idx")], "C13-R5", "phase-index"),
    Mutant("renderer-integer-first", [(PARSING, r'r"([0-9]+\.[0-9]+|[0-9]+)"', r'r"([0-9]+|[0-9]+\.[0-9]+)"')], "C13-R7", "count-pattern"),
    Mutant("render-suffix-default", [(PARSING, '    infixes=None,\n    suffixes=("(s)", "(l)", "(g)", "(aq)"),', '    infixes=None,\n    suffixes=("(s)", "(l)", "(g)"),')], "C13-R6", "suffixes"),
]

TWINS = [
    Twin("renderer-backslash-d", [(PARSING, r'r"([0-9]+\.[0-9]+|[0-9]+)"', r'r"(\d+\.\d+|\d+)"')]),
    Twin("printer-arg-rename", [("chempy/printing/web.py", "    def _print_Substance(self, s, **kwargs):\n        return s.html_name or s.name", "    def _print_Substance(self, subst, **kwargs):\n        return subst.html_name or subst.name")]),
    Twin("charge-fstring-free", [(PARSING, 'token = "+" if chg == 1 else "%d+" % chg', 'token = "+" if chg == 1 else str(chg) + "+"')]),
]
