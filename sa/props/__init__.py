import importlib

ALL = ["C%02d" % i for i in range(1, 21)]


def load(pid):
    mod = importlib.import_module("sa.props.%s" % pid.lower())
    if not getattr(mod, "_shared_rules_added", False):
        from ..shared import slot_rule, resolution_rule, guarded_helpers_rule, GUARDED_HELPERS, new_state_rule

        mod.RULES.append(slot_rule(mod.ID))
        mod.RULES.append(resolution_rule(mod.ID))
        mod.RULES.append(new_state_rule(mod.ID))
        if GUARDED_HELPERS.get(mod.ID):
            mod.RULES.append(guarded_helpers_rule(mod.ID))
        mod._shared_rules_added = True
    return mod
