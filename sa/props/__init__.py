import importlib

ALL = ["C%02d" % i for i in range(1, 21) if i != 6]


def load(pid):
    return importlib.import_module("sa.props.%s" % pid.lower())
