"""C17 -- closed-form integrated rate laws: backend API availability (the one static clause)."""
from __future__ import annotations

import ast

from ..astu import U, walk_shallow, call_name, calls_in, param_names
from ..core import AnalysisError, Mutant, Rule, Twin

ID = "C17"
INTEG = "chempy/kinetics/integrated.py"
UTIL = "chempy/_util.py"
ENGINES = ["E0 core", "E2 units-of-measure interpreter", "E4b rational normal form"]
TECHNIQUE = ("per-backend abstract evaluation of attribute reads on the object returned by get_backend (hasattr/getattr/conditional expressions resolved against dir(math), "
             "dir(numpy), dir(sympy)); units-of-measure abstract interpretation of every closed form with the documented dimensions of its parameters (ast)")
CLAIM = ("Decides only the clause 'can be evaluated with each backend they advertise': every attribute read from the backend object on the path "
         "taken for numpy, math and sympy exists in that library (an eagerly evaluated getattr default counts as a read), every function "
         "with a backend parameter obtains it through get_backend and uses no other math namespace.  Additionally a necessary condition of the "
         "rate-equation clause: with the documented dimensions of its parameters (time, concentration, first/second-order rate constant, feed ratio) "
         "every closed form is dimensionally homogeneous, feeds only dimensionless values to exp/tanh/atanh, and returns concentrations; and each "
         "closed form is algebraically identical (exact rational normal form, temporaries inlined) to the reference solution recorded from the pinned "
         "tree, i.e. the expressions the upstream notebooks derived for the documented mechanisms."
         ' Shared rule A1: no swapped same-named arguments at resolved in-package call sites.')
DOES_NOT_DECIDE = ("that each expression satisfies its rate equation and initial value beyond dimensional consistency (needs symbolic differentiation / simplification: "
                   "solver family): C17-R4 only establishes identity with the recorded reference expressions, not that those solve the rate equations; rewrites that need an "
                   "identity of exp/tanh/sqrt (exp(a+b) = exp(a)*exp(b) ...) are reported as changes; "
                   "agreement of numeric values between backends")
ASSUMPTIONS = ["dir() of the installed math, numpy and sympy is the API oracle"]

_DIRS = None


def backends():
    global _DIRS
    if _DIRS is None:
        import math
        import numpy
        try:
            import sympy
        except ImportError as e:  # pragma: no cover
            raise AnalysisError("sympy (API oracle) not importable: %s" % e)
        _DIRS = {"math": set(dir(math)), "numpy": set(dir(numpy)), "sympy": set(dir(sympy))}
    return _DIRS


def _reads(expr, be, api, out, cond=False):
    """collect (attr, node) read from `be` when evaluating expr for a backend with attribute set `api`"""
    if isinstance(expr, ast.IfExp):
        t = _static(expr.test, be, api)
        if t is True:
            _reads(expr.body, be, api, out)
        elif t is False:
            _reads(expr.orelse, be, api, out)
        else:
            _reads(expr.test, be, api, out)
            _reads(expr.body, be, api, out)
            _reads(expr.orelse, be, api, out)
        return
    if isinstance(expr, ast.BoolOp):
        for v in expr.values:
            _reads(v, be, api, out)
            t = _static(v, be, api)
            if (isinstance(expr.op, ast.Or) and t is True) or (isinstance(expr.op, ast.And) and t is False):
                break
        return
    if isinstance(expr, ast.Call) and call_name(expr) == "getattr" and len(expr.args) >= 2 and U(expr.args[0]) == be and isinstance(expr.args[1], ast.Constant):
        if len(expr.args) == 2:
            out.append((expr.args[1].value, expr))
        else:
            _reads(expr.args[2], be, api, out)  # the default is evaluated eagerly
        return
    if isinstance(expr, ast.Call) and call_name(expr) == "hasattr" and len(expr.args) == 2 and U(expr.args[0]) == be:
        return
    if isinstance(expr, ast.Attribute) and U(expr.value) == be:
        out.append((expr.attr, expr))
        return
    for c in ast.iter_child_nodes(expr):
        if isinstance(c, (ast.expr, ast.keyword, ast.comprehension)):
            _reads(c, be, api, out) if not isinstance(c, (ast.keyword, ast.comprehension)) else [_reads(x, be, api, out) for x in ast.iter_child_nodes(c) if isinstance(x, ast.expr)]


def _static(test, be, api):
    if isinstance(test, ast.Call) and call_name(test) == "hasattr" and len(test.args) == 2 and U(test.args[0]) == be and isinstance(test.args[1], ast.Constant):
        return test.args[1].value in api
    if isinstance(test, ast.Call) and call_name(test) == "getattr" and len(test.args) == 3 and U(test.args[0]) == be and isinstance(test.args[1], ast.Constant) \
            and isinstance(test.args[2], ast.Constant) and not test.args[2].value:
        return test.args[1].value in api  # library functions are truthy
    if isinstance(test, ast.UnaryOp) and isinstance(test.op, ast.Not):
        v = _static(test.operand, be, api)
        return None if v is None else (not v)
    return None


def _stmt_reads(stmts, be, api, out):
    for s in stmts:
        if isinstance(s, ast.If):
            t = _static(s.test, be, api)
            if t is True:
                _stmt_reads(s.body, be, api, out)
            elif t is False:
                _stmt_reads(s.orelse, be, api, out)
            else:
                _reads(s.test, be, api, out)
                _stmt_reads(s.body, be, api, out)
                _stmt_reads(s.orelse, be, api, out)
        elif isinstance(s, ast.Try) and any(h.type is not None and "AttributeError" in U(h.type) for h in s.handlers):
            # try: be.x  except AttributeError: be.y   -- the body may fail, the handler is the alternative
            sub = []
            _stmt_reads(s.body, be, api, sub)
            if all(a in api for a, _ in sub):
                out.extend(sub)
            else:
                for h in s.handlers:
                    _stmt_reads(h.body, be, api, out)
        elif isinstance(s, (ast.For, ast.While, ast.With)):
            for c in ast.iter_child_nodes(s):
                if isinstance(c, ast.expr):
                    _reads(c, be, api, out)
            _stmt_reads(s.body, be, api, out)
            _stmt_reads(getattr(s, "orelse", []), be, api, out)
        elif isinstance(s, (ast.FunctionDef, ast.ClassDef)):
            continue
        else:
            for c in ast.iter_child_nodes(s):
                if isinstance(c, ast.expr):
                    _reads(c, be, api, out)


def r1_api(ctx):
    m = ctx.mod(INTEG)
    n = 0
    for q, fn in m.functions.items():
        if "backend" not in param_names(fn) or "." in q:
            continue
        a = INTEG + ":" + q
        ctx.functions_seen.add(a)
        be = None
        for s in fn.body:
            if isinstance(s, ast.Assign) and isinstance(s.value, ast.Call) and call_name(s.value) == "get_backend" and isinstance(s.targets[0], ast.Name):
                be = s.targets[0].id
        if be is None:
            continue
        for bname, api in backends().items():
            out = []
            _stmt_reads(fn.body, be, api, out)
            if not out:
                raise AnalysisError("%s: no attribute read from the backend object found" % q)
            missing = sorted({attr for attr, _ in out if attr not in api})
            n += 1
            node = next((nd for attr, nd in out if attr in missing), fn)
            ctx.check(not missing, a, "api[%s]" % bname, "with backend=%s the function reads %s.%s, which %s does not provide (AttributeError before any value is computed)" % (
                bname, be, ", ".join(missing), bname), node=node, reads=sorted({x for x, _ in out}))
    if n < 18:
        raise AnalysisError("integrated.py: only %d (function, backend) pairs examined" % n)


def r2_via_get_backend(ctx):
    m = ctx.mod(INTEG)
    for q, fn in m.functions.items():
        if "backend" not in param_names(fn) or "." in q:
            continue
        a = INTEG + ":" + q
        got = [s for s in fn.body if isinstance(s, ast.Assign) and isinstance(s.value, ast.Call) and call_name(s.value) == "get_backend" and U(s.value.args[0]) == "backend"]
        ctx.check(len(got) == 1, a, "via-get_backend", "the backend must be resolved once through get_backend(backend)", node=fn)
        direct = [U(c.func) for c in calls_in(fn) if (call_name(c) or "").split(".")[0] in ("math", "np", "numpy", "sympy")]
        ctx.check(not direct, a, "no-other-namespace", "uses %s directly instead of the selected backend" % direct, node=fn)
    gb = ctx.func(UTIL, "get_backend")
    t = U(gb)
    ctx.check("if isinstance(backend, str):" in t and "backend = __import__(backend)" in t and "import numpy as backend" in t and "import math as backend" in t and t.rstrip().endswith("return backend"),
              UTIL + ":get_backend", "selection", "get_backend must import a named backend, default to numpy (math as fallback) and return it", node=gb)


_T = {"time": 1}
_C = {"amount": 1, "length": -3}
_K1 = {"time": -1}
_K2 = {"amount": -1, "length": 3, "time": -1}
# documented meaning of the parameters (docstrings of integrated.py): t time; kf bimolecular, kb unimolecular rate constant; prod/major/minor, r/p, fr/fp
# concentrations; fv feed rate / volume; k first order in unary_irrev_cstr (A -> B), second order in binary_irrev_cstr (2 A -> n B) and dimerization
PARAM_DIMS = {
    "dimerization_irrev": dict(t=_T, kf=_K2, initial_C=_C, t0=_T),
    "pseudo_irrev": dict(t=_T, kf=_K2, prod=_C, major=_C, minor=_C),
    "pseudo_rev": dict(t=_T, kf=_K2, kb=_K1, prod=_C, major=_C, minor=_C),
    "binary_irrev": dict(t=_T, kf=_K2, prod=_C, major=_C, minor=_C),
    "binary_rev": dict(t=_T, kf=_K2, kb=_K1, prod=_C, major=_C, minor=_C),
    "unary_irrev_cstr": dict(t=_T, k=_K1, r=_C, p=_C, fr=_C, fp=_C, fv=_K1),
    "binary_irrev_cstr": dict(t=_T, k=_K2, r=_C, p=_C, fr=_C, fp=_C, fv=_K1),
}


def r3_dimensions(ctx):
    """units-of-measure typing of the closed forms: a necessary condition for satisfying a rate equation dc/dt = f(c)"""
    from ..dims import Interp, opaque, mk_dim, V, dim_str
    from ..dimrun import module_env, make_resolver
    want = mk_dim(**_C)
    for q, spec in PARAM_DIMS.items():
        fn = ctx.func(INTEG, q)
        a = INTEG + ":" + q
        names = [x.arg for x in fn.args.args]
        missing = [k for k in spec if k not in names]
        if missing:
            raise AnalysisError("%s: documented parameter(s) %s vanished; the dimension table needs review" % (q, missing))
        params = {k: opaque(mk_dim(**d), k) for k, d in spec.items()}
        if "backend" in names:
            params["backend"] = V("be", name="numpy")
        it = Interp(fn, params, module_env(ctx.repo, INTEG), make_resolver(ctx.repo, INTEG)).run()
        for rep in it.reports:
            if rep.kind in ("inhomogeneous", "transcendental", "dimensional-exponent"):
                ctx.violation(a, "%s:%s" % (rep.kind, U(rep.node)[:50]), "with t in time, concentrations in amount/volume and the documented order of the rate constant: %s" % rep.msg, node=rep.node)
        if any(r_.kind in ("inhomogeneous", "transcendental", "dimensional-exponent") for r_ in it.reports):
            continue
        outs = []
        for r_ in it.returns:
            outs += r_.items if r_.kind == "tuple" else [r_]
        untyped = [o for o in outs if not (o.kind == "q" and o.dim is not None)]
        if not outs or untyped:
            raise AnalysisError("%s: the units interpreter could not type the result (%s)" % (q, it.tops[:3]))
        if it.tops:
            ctx.note("%s: sub-expressions left untyped (checked less, not failed): %s" % (q, it.tops[:3]))
        bad = [o for o in outs if o.dim != want]
        ctx.check(not bad, a, "returns-concentration", "every returned expression must be a concentration; found %s" % [dim_str(o.dim) for o in outs], node=fn)


# Reference solutions (as derived in the upstream notebooks _integrated.ipynb, _kinetics_cstr.ipynb, _derive_analytic_cstr_bireac.ipynb and recorded from the
# pinned tree).  Compared as exact rational normal forms with all temporaries inlined: any algebraically identical spelling is accepted.
REFERENCE = {
    "dimerization_irrev": "return 1 / (1 / initial_C + 2 * kf * (t - t0))",
    "pseudo_irrev": "return prod + minor * (1 - exp(-major * kf * t))",
    "pseudo_rev": "return (-kb * prod + kf * major * minor + (kb * prod - kf * major * minor) * exp(-t * (kb + kf * major))) / (kb + kf * major)",
    "binary_irrev": "return prod + major * (1 - exp(-kf * (major - minor) * t)) / (major / minor - exp(-kf * t * (major - minor)))",
    "binary_rev": """
X, Y, Z = prod, major, minor
x0 = Y * kf
x1 = Z * kf
x2 = 2 * X * kf
x3 = -kb - x0 - x1
x4 = -x2 + x3
x5 = sqrt(-4 * kf * (X ** 2 * kf + X * x0 + X * x1 + Z * x0) + x4 ** 2)
x6 = kb + x0 + x1 + x5
x7 = (x3 + x5) * exp(-t * x5)
x8 = x3 - x5
return (x4 * x8 + x5 * x8 + x7 * (x2 + x6)) / (2 * kf * (x6 + x7))
""",
    "unary_irrev_cstr": """
x0 = fr * fv
x1 = fv + k
x2 = 1 / x1
x3 = fv * r + k * r - x0
x4 = fr * k
x5 = exp(-fv * t)
return (x0 * x2 + x2 * x3 * exp(-t * x1), -x2 * x3 * x5 * (-1 + exp(-k * t)) + x2 * x5 * (-fp * fv - fp * k + fv * p + k * p - x4) + x2 * (fp * x1 + x4))
""",
    "binary_irrev_cstr": """
x0 = 1 / k
x1 = sqrt(fv)
x2 = 8 * k
x3 = fr * x2
x4 = sqrt(fv + x3)
x5 = x1 * x4
x6 = x1 * x4 / 2
x7 = atanh((-(fv ** (3 / 2)) * x4 - 4 * k * r * x5) / (fv ** 2 + fv * x3))
x8 = fv * t
x9 = fp * x2
x10 = 4 * k * n
x11 = fr * x10
x12 = exp(x8)
x13 = n * x12
return (x0 * (-fv + x5 * tanh(t * x6 - x7)) / 4, x0 * (fv * x13 + 8 * k * p + r * x10 - x1 * x13 * x4 * tanh(x6 * (t - 2 * x7 / (x1 * x4))) + x11 * x12 - x11 + x12 * x9 - x9) * exp(-x8) / 8)
""",
}


def r4_reference_solutions(ctx):
    """each closed form is algebraically identical to its recorded reference solution"""
    import textwrap
    from ..ratform import rat_of, r_equal, single_assignment_env, Undecided
    for q, ref_src in REFERENCE.items():
        fn = ctx.func(INTEG, q)
        a = INTEG + ":" + q
        ref_fn = ast.parse("def _ref():\n" + textwrap.indent(ref_src.strip("\n"), "    ")).body[0]
        rets = [n for n in walk_shallow(fn) if isinstance(n, ast.Return)]
        if len(rets) != 1:
            raise AnalysisError("%s: expected exactly one return" % q)
        got, want = rets[0].value, ref_fn.body[-1].value
        gp = list(got.elts) if isinstance(got, ast.Tuple) else [got]
        wp = list(want.elts) if isinstance(want, ast.Tuple) else [want]
        if len(gp) != len(wp):
            ctx.violation(a, "arity", "%s must return %d expression(s); returns %d" % (q, len(wp), len(gp)), node=rets[0])
            continue
        env_g, env_w = single_assignment_env(fn), single_assignment_env(ref_fn)
        for i, (g, w) in enumerate(zip(gp, wp)):
            try:
                same_ = r_equal(rat_of(g, env_g), rat_of(w, env_w))
            except Undecided as e:
                raise AnalysisError("%s[%d]: normal form not computable: %s" % (q, i, e))
            ctx.check(same_, a, "identical-to-reference[%d]" % i, "result %d of %s is not algebraically identical to the reference solution `%s`" % (i, q, U(w)[:90]), node=g)


RULES = [
    Rule("C17-R1", r1_api, 18, "backend API availability for numpy, math, sympy"),
    Rule("C17-R2", r2_via_get_backend, 13, "backend obtained via get_backend; no other math namespace"),
    Rule("C17-R4", r4_reference_solutions, 9, "closed forms algebraically identical to the recorded reference solutions (E4b rational normal form)"),
    Rule("C17-R3", r3_dimensions, 7, "closed forms are dimensionally homogeneous and return concentrations (E2, documented parameter dimensions)"),
]

MUTANTS = [
    Mutant("eager-getattr-default", [(INTEG, 'atanh = be.atanh if hasattr(be, "atanh") else be.arctanh', 'atanh = getattr(be, "atanh", be.arctanh)')], "C17-R1", "binary_irrev_cstr"),
    Mutant("numpy-only-name", [(INTEG, "    x5 = be.exp(-fv * t)", "    x5 = be.exp(-be.multiply(fv, t))")], "C17-R1", "unary_irrev_cstr"),
    Mutant("arctanh-unconditional", [(INTEG, 'atanh = be.atanh if hasattr(be, "atanh") else be.arctanh', "atanh = be.arctanh")], "C17-R1", "binary_irrev_cstr"),
    Mutant("direct-numpy", [(INTEG, "    be = get_backend(backend)\n    return prod + minor * (1 - be.exp(-major * kf * t))", "    be = get_backend(backend)\n    import numpy as np\n    return prod + minor * (1 - np.exp(-major * kf * t))")], "C17-R2", "pseudo_irrev"),
]

TWINS = [
    Twin("try-except-lookup", [(INTEG, '    atanh = be.atanh if hasattr(be, "atanh") else be.arctanh\n', "    try:\n        atanh = be.atanh\n    except AttributeError:\n        atanh = be.arctanh\n")]),
    Twin("getattr-none-default", [(INTEG, 'atanh = be.atanh if hasattr(be, "atanh") else be.arctanh', 'atanh = getattr(be, "atanh", None) or be.arctanh')]),
]
MUTANTS += [
    Mutant("pseudo-irrev-rate-constant-dropped", [(INTEG, "return prod + minor * (1 - be.exp(-major * kf * t))", "return prod + minor * (1 - be.exp(-major * t))")], "C17-R3", "pseudo_irrev"),
    Mutant("dimerization-inverse-lost", [(INTEG, "return 1 / (1 / initial_C + 2 * kf * (t - t0))", "return 1 / (initial_C + 2 * kf * (t - t0))")], "C17-R3", "dimerization_irrev"),
    Mutant("cstr-feed-term-not-a-concentration", [(INTEG, "    x0 = fr * fv\n    x1 = fv + k\n    x2 = 1 / x1", "    x0 = fr * fv\n    x1 = fv + k\n    x2 = x1")], "C17-R3", "unary_irrev_cstr"),
    Mutant("binary-rev-discriminant", [(INTEG, "x5 = be.sqrt(-4 * kf * (X ** 2 * kf + X * x0 + X * x1 + Z * x0) + x4 ** 2)", "x5 = be.sqrt(-4 * kf * (X ** 2 * kf + X * x0 + X * x1 + Z * x0) + x4)")], "C17-R3", "binary_rev"),
]
TWINS += [
    Twin("pseudo-irrev-factored", [(INTEG, "return prod + minor * (1 - be.exp(-major * kf * t))", "return prod + minor - minor * be.exp(-(kf * major) * t)")]),
]
MUTANTS += [
    Mutant("binary-rev-discriminant-term", [(INTEG, "x5 = be.sqrt(-4 * kf * (X ** 2 * kf + X * x0 + X * x1 + Z * x0) + x4 ** 2)", "x5 = be.sqrt(-4 * kf * (X * x2 + X * x0 + X * x1 + Z * x0) + x4 ** 2)")], "C17-R4", "binary_rev"),
    Mutant("pseudo-irrev-plateau", [(INTEG, "return prod + minor * (1 - be.exp(-major * kf * t))", "return minor - (minor - prod) * be.exp(-major * kf * t)")], "C17-R4", "pseudo_irrev"),
    Mutant("cstr-product-sign", [(INTEG, "+ x2 * x5 * (-fp * fv - fp * k + fv * p + k * p - x4)", "+ x2 * x5 * (x1 * (fp - p) - x4)")], "C17-R4", "unary_irrev_cstr"),
]
TWINS += [
    Twin("cstr-product-factored", [(INTEG, "+ x2 * x5 * (-fp * fv - fp * k + fv * p + k * p - x4)", "+ x2 * x5 * (-x1 * (fp - p) - x4)")]),
    Twin("pseudo-rev-temporaries", [(INTEG, "    return (\n        -kb * prod\n        + kf * major * minor\n        + (kb * prod - kf * major * minor) * be.exp(-t * (kb + kf * major))\n    ) / (kb + kf * major)", "    kobs = kb + kf * major\n    eq = kf * major * minor - kb * prod\n    return (eq - eq * be.exp(-kobs * t)) / kobs")]),
    Twin("dimerization-rewritten", [(INTEG, "return 1 / (1 / initial_C + 2 * kf * (t - t0))", "return initial_C / (1 + 2 * kf * initial_C * (t - t0))")]),
]

