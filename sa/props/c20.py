"""C20 -- printed numbers denote the value given."""
from __future__ import annotations

import ast

from ..astu import U, walk_shallow, fold, NotLiteral, call_name, calls_in, monomial, mono_str, has, same
from ..core import AnalysisError, Mutant, Rule, Twin
from ..idioms import for_loops, target_names
from ..tables import roman_value

ID = "C20"
NUM = "chempy/printing/numbers.py"
STR = "chempy/printing/string.py"
ENGINES = ["E0 core", "E1 tables", "E5 siblings"]
TECHNIQUE = "literal-table check of the roman numeral table; sibling-fact comparison of the three power-of-ten formatters; wiring (ast)"
CLAIM = ("Decides: the roman token/value table is the standard one and the loop is the greedy division; the three power-of-ten "
         "formatters omit the significand for the same literals and render int(exponent); number_to_scientific_<x> is wired to "
         "its own unit and power formatters; precision, unit placement and uncertainty conversion in _number_to_X; parameter = "
         "magnitude + unit."
         ' Which value/unit/uncertainty is formatted; exponent split (R6). Shared rule A1: no swapped same-named arguments at resolved in-package call sites.')
DOES_NOT_DECIDE = "rounding/carry behaviour of %g and of _float_str_w_uncert over the float range (runtime values)"
ASSUMPTIONS = ["Python %-formatting semantics"]

STD = dict(zip("M CM D CD C XC L XL X IX V IV I".split(), (1000, 900, 500, 400, 100, 90, 50, 40, 10, 9, 5, 4, 1)))


def r1_roman(ctx):
    fn = ctx.func(NUM, "roman")
    a = NUM + ":roman"
    env = {}
    for s in fn.body:
        if isinstance(s, ast.Assign) and isinstance(s.targets[0], ast.Name):
            try:
                env[s.targets[0].id] = fold(s.value, env)
            except NotLiteral:
                pass
    loops = [f for f in for_loops(fn) if isinstance(f.iter, ast.Call) and call_name(f.iter) == "zip"]
    if not loops:
        raise AnalysisError("anchor vanished: zip loop in roman")
    lp = loops[0]
    try:
        pairs = fold(lp.iter, env)
    except NotLiteral:
        raise AnalysisError("cannot fold the roman table")
    args = [fold(x, env) for x in lp.iter.args]
    ctx.check(len(args) == 2 and len(args[0]) == len(args[1]), a, "equal-length",
              "token and value tables have different lengths (%s): zip silently truncates" % [len(x) for x in args], node=lp)
    tn, vn = target_names(lp.target)
    toks = [p[0] for p in pairs]
    vals = [p[1] for p in pairs]
    if toks and isinstance(toks[0], int):  # zipped the other way round
        toks, vals = vals, toks
        tn, vn = vn, tn
    ctx.check(all(x > y for x, y in zip(vals, vals[1:])), a, "descending", "values are not strictly descending: %s" % vals, node=lp)
    for t, v in zip(toks, vals):
        ctx.check(roman_value(t) == v, a, "token:%s" % t, "token %r paired with %s; it denotes %s" % (t, v, roman_value(t)), node=lp)
    ctx.check(dict(zip(toks, vals)) == STD, a, "standard-13", "table is not the standard 13 token/value pairs: missing %s" % sorted(set(STD) - set(toks)), node=lp)
    # greedy loop
    cnt = num = res = None
    facts = {}
    for s in lp.body:
        if isinstance(s, ast.Assign) and isinstance(s.value, ast.BinOp) and isinstance(s.value.op, ast.FloorDiv):
            facts["cnt"] = (s.targets[0].id, U(s.value.left), U(s.value.right))
        elif isinstance(s, ast.AugAssign) and isinstance(s.op, ast.Add):
            facts["append"] = (U(s.target), monomial(s.value))
        elif isinstance(s, ast.AugAssign) and isinstance(s.op, ast.Sub):
            facts["sub"] = (U(s.target), monomial(s.value))
    numarg = fn.args.args[0].arg
    ok = "cnt" in facts and facts["cnt"][1] == numarg and facts["cnt"][2] == vn
    ctx.check(ok, a, "count=num//value", "count must be num // value; found %s" % (facts.get("cnt"),), node=lp)
    c = facts.get("cnt", ("cnt",))[0]
    ok = "append" in facts and facts["append"][1] == monomial(ast.parse("%s*%s" % (tn, c), mode="eval").body)
    ctx.check(ok, a, "append=token*count", "result must grow by token * count; found %s" % (mono_str(facts["append"][1]) if "append" in facts else None), node=lp)
    ok = "sub" in facts and facts["sub"][0] == numarg and facts["sub"][1] == monomial(ast.parse("%s*%s" % (vn, c), mode="eval").body)
    ctx.check(ok, a, "num-=value*count", "num must shrink by value * count; found %s" % (mono_str(facts["sub"][1]) if "sub" in facts else None), node=lp)


POW = {"latex": "_latex_pow_10", "unicode": "_unicode_pow_10", "html": "_html_pow_10"}


def r2_pow10(ctx):
    lits = {}
    for fmt, q in POW.items():
        fn = ctx.func(NUM, q)
        a = NUM + ":" + q
        sig, man = [x.arg for x in fn.args.args[:2]]
        ifs = [s for s in fn.body if isinstance(s, ast.If)]
        if not ifs:
            raise AnalysisError("%s: no significand test" % q)
        t = ifs[0].test
        try:
            if isinstance(t, ast.Compare) and isinstance(t.ops[0], ast.In) and U(t.left) == sig:
                lits[fmt] = frozenset(fold(t.comparators[0], {}))
            elif isinstance(t, ast.Compare) and isinstance(t.ops[0], ast.Eq) and U(t.left) == sig:
                lits[fmt] = frozenset([fold(t.comparators[0], {})])
            else:
                lits[fmt] = None
        except NotLiteral:
            lits[fmt] = None
        ctx.check(lits[fmt] is not None and all(isinstance(x, str) and _is_one(x) for x in lits[fmt]) and "1" in lits[fmt], a, "omit-only-one",
                  "the significand is omitted for %s; it may be omitted only when it is exactly 1" % (sorted(lits[fmt]) if lits[fmt] else U(t)), node=ifs[0])
        # true branch drops the significand, false branch keeps it
        tb = " ".join(U(s) for s in ifs[0].body)
        fb = " ".join(U(s) for s in ifs[0].orelse)
        ctx.check(sig not in _names(ifs[0].body) and sig in _names(ifs[0].orelse), a, "significand-kept-otherwise",
                  "significand handling: true-branch `%s`, else-branch `%s`" % (tb, fb), node=ifs[0])
        # exponent rendered as int(mantissa)
        ints = [c for c in calls_in(fn) if call_name(c) == "int" and U(c.args[0]) == man]
        ctx.check(len(ints) >= 1 and not any(n.id == man for n in ast.walk(fn) if isinstance(n, ast.Name) and not _inside(fn, n, ints)),
                  a, "exponent=int(mantissa)", "the exponent must be rendered as int(%s) only" % man, node=fn)
        if fmt == "unicode":
            ok = any("_unicode_sup" in U(c) and "str(int(%s))" % man in U(c) for c in calls_in(fn))
            ctx.check(ok, a, "unicode-superscript", "the unicode exponent must be mapped through _unicode_sup", node=fn)
        ctx.check("10" in U(fn), a, "base-10", "no base 10 in the rendering", node=fn)
    ctx.check(len(set(lits.values())) == 1, NUM + ":_*_pow_10", "siblings-agree",
              "the three formatters omit the significand for different literals: %s" % {k: sorted(v) if v else None for k, v in lits.items()})


def _is_one(x):
    try:
        return float(x) == 1.0
    except ValueError:
        return False


def _names(stmts):
    out = set()
    for s in stmts:
        for n in ast.walk(s):
            if isinstance(n, ast.Name):
                out.add(n.id)
    return out


def _inside(fn, node, containers):
    for c in containers:
        if any(x is node for x in ast.walk(c)):
            return True
    # the parameter list itself
    return False


def r3_wiring(ctx):
    for fmt, pw in POW.items():
        q = "number_to_scientific_" + fmt
        fn = ctx.func(NUM, q)
        a = NUM + ":" + q
        cs = [c for c in calls_in(fn) if call_name(c) == "_number_to_X"]
        if len(cs) != 1:
            raise AnalysisError("%s: expected one _number_to_X call" % q)
        c = cs[0]
        args = [U(x) for x in c.args]
        params = [x.arg for x in fn.args.args]
        ctx.check(args[:4] == params[:4] == ["number", "uncertainty", "unit", "fmt"], a, "args-forwarded", "arguments forwarded as %s" % args[:4], node=c)
        ctx.check(len(args) >= 6 and args[4] == fmt + "_of_unit", a, "unit-formatter", "unit formatter is %s, expected %s_of_unit" % (args[4] if len(args) > 4 else None, fmt), node=c)
        ctx.check(len(args) >= 6 and args[5] == pw, a, "pow10-formatter", "power formatter is %s, expected %s" % (args[5] if len(args) > 5 else None, pw), node=c)
    fn = ctx.func(NUM, "_number_to_X")
    a = NUM + ":_number_to_X"
    src = U(fn)
    # unit conversion: number and uncertainty with the same unit variable
    tus = [c for c in calls_in(fn) if call_name(c) == "to_unitless"]
    units = {U(c.args[0]): U(c.args[1]) for c in tus if len(c.args) == 2}
    ctx.check(units.get("number") == "unit" and units.get("uncertainty") == "unit", a, "same-unit-for-uncertainty",
              "number and uncertainty must be made unitless with the same unit; found %s" % units, node=fn)
    # precision: "%%.%dg" % fmt  applied to mag
    ok = False
    for n in walk_shallow(fn):
        if isinstance(n, ast.BinOp) and isinstance(n.op, ast.Mod) and isinstance(n.left, ast.BinOp) and isinstance(n.left.op, ast.Mod):
            inner = n.left
            if isinstance(inner.left, ast.Constant) and inner.left.value == "%%.%dg" and U(inner.right) == "fmt" and U(n.right) == "mag":
                ok = True
    ctx.check(ok, a, "precision-is-fmt", "an integer fmt must be the %g precision applied to the magnitude", node=fn)
    cs = [c for c in calls_in(fn) if call_name(c) == "_float_str_w_uncert"]
    ctx.check(len(cs) == 1 and [U(x) for x in cs[0].args] == ["mag", "uncertainty", "fmt"], a, "uncertainty-precision",
              "_float_str_w_uncert must receive (mag, uncertainty, fmt); found %s" % ([U(x) for x in cs[0].args] if cs else None), node=fn)
    # defaults
    dfl = {}
    for n in walk_shallow(fn):
        if isinstance(n, ast.If) and U(n.test) == "fmt is None" and isinstance(n.body[0], ast.Assign):
            dfl[len(dfl)] = U(n.body[0].value)
    # unit after the number in both return arms
    rets = [n for n in walk_shallow(fn) if isinstance(n, ast.Return)]
    ok = len(rets) == 2 and all(isinstance(r.value, ast.BinOp) and isinstance(r.value.op, ast.Add) and U(r.value.right) == "unit_str" for r in rets)
    ctx.check(ok, a, "unit-after-number", "both return arms must append unit_str after the number: %s" % [U(r.value) for r in rets], node=fn)
    ok = any(isinstance(r.value, ast.BinOp) and isinstance(r.value.left, ast.Call) and call_name(r.value.left) == "fmt_pow_10"
             and [U(x) for x in r.value.left.args] == ["significand", "mantissa"] for r in rets)
    ctx.check(ok, a, "pow10-args", "fmt_pow_10 must receive (significand, mantissa)", node=fn)
    ok = any(isinstance(n, ast.Assign) and target_names(n.targets[0]) == ["significand", "mantissa"] and U(n.value) == "flt.split('e')" for n in walk_shallow(fn))
    ctx.check(ok, a, "split-at-e", "significand, mantissa must come from flt.split('e') in that order", node=fn)
    ok = any(isinstance(n, ast.Assign) and U(n.targets[0]) == "unit_str" and U(n.value).replace(" ", "") == "space+unit_fmt(unit)" for n in walk_shallow(fn))
    ctx.check(ok, a, "unit-string", "unit_str must be space + unit_fmt(unit)", node=fn)


def r4_param(ctx):
    pm = ctx.mod("chempy/printing/printer.py")
    ds = pm.class_assign("Printer", "_default_settings")
    mf = None
    if isinstance(ds, ast.Call):
        mf = next((k.value for k in ds.keywords if k.arg == "magnitude_fmt"), None)
    spec = None
    if isinstance(mf, ast.Lambda) and isinstance(mf.body, ast.BinOp) and isinstance(mf.body.op, ast.Mod) and isinstance(mf.body.left, ast.Constant) and isinstance(mf.body.left.value, str):
        spec = mf.body.left.value
    import re as _re
    m_ = _re.fullmatch(r"%\.(\d+)g", spec or "")
    ctx.check(m_ is not None and int(m_.group(1)) >= 3, "chempy/printing/printer.py:Printer._default_settings", "magnitude-format-significant-digits",
              "the default magnitude format must keep significant digits whatever the size of the number (a %%.Ng format, N >= 3); found %r" % (spec if spec is not None else U(mf)), node=ds)
    fn = ctx.func(STR, "StrPrinter._Reaction_param_str")
    a = STR + ":StrPrinter._Reaction_param_str"
    vals = {}
    for n in walk_shallow(fn):
        if isinstance(n, ast.Assign) and isinstance(n.targets[0], ast.Name):
            vals[n.targets[0].id] = U(n.value)
    ctx.check(vals.get("magnitude_str") == "mag_fmt(rxn.param.magnitude)", a, "magnitude", "magnitude_str = %s" % vals.get("magnitude_str"), node=fn)
    ctx.check(vals.get("unit_str") == "unit_fmt(rxn.param.dimensionality)", a, "unit", "unit_str = %s" % vals.get("unit_str"), node=fn)
    ctx.check(vals.get("mag_fmt") == "self._get('magnitude_fmt', **kwargs)" and vals.get("unit_fmt") == "self._get('unit_fmt', **kwargs)", a, "formatters",
              "formatters: %s / %s" % (vals.get("mag_fmt"), vals.get("unit_fmt")), node=fn)
    tr = [n for n in walk_shallow(fn) if isinstance(n, ast.Try)]
    ok = False
    if tr and tr[0].orelse and isinstance(tr[0].orelse[-1], ast.Return):
        v = tr[0].orelse[-1].value
        parts = []

        def flat(x):
            if isinstance(x, ast.BinOp) and isinstance(x.op, ast.Add):
                flat(x.left)
                flat(x.right)
            else:
                parts.append(U(x))
        flat(v)
        ok = len(parts) == 3 and parts[0] == "magnitude_str" and parts[2] == "unit_str"
    ctx.check(ok, a, "magnitude-sep-unit", "the quantity arm must return magnitude, separator, unit", node=fn)
    # _print_Reaction appends the parameter after the separator when with_param
    pr = ctx.func(STR, "StrPrinter._print_Reaction")
    txt = U(pr)
    ctx.check("self._get('with_param', **kwargs) and rxn.param is not None" in txt and "res += self._Reaction_param_str(rxn, **kwargs)" in txt,
              STR + ":StrPrinter._print_Reaction", "param-appended", "parameter not appended under with_param", node=pr)


def r5_uncertainty_alignment(ctx):
    """value and uncertainty are rounded at the same decimal position, which is fixed once"""
    fn = ctx.func(NUM, "_float_str_w_uncert")
    a = NUM + ":_float_str_w_uncert"
    defs = {}
    for n in walk_shallow(fn):
        if isinstance(n, (ast.Assign, ast.AugAssign)):
            tg = n.targets if isinstance(n, ast.Assign) else [n.target]
            for t in tg:
                for nm in target_names(t):
                    defs.setdefault(nm, []).append(n)
    want = {
        "x_exp": "int(floor(log10(abs(x))))", "xe_exp": "int(floor(log10(abs(xe))))",
        "un_exp": "xe_exp - precision + 1", "un_int": "round(xe * 10 ** (-un_exp))",
        "no_exp": "un_exp", "no_int": "round(x * 10 ** (-no_exp))",
    }
    for nm, expr in want.items():
        ds = defs.get(nm, [])
        ok = len(ds) == 1 and isinstance(ds[0], ast.Assign) and same(ds[0].value, expr, scope=fn)
        ctx.check(ok, a, "single-definition:" + nm, "`%s` must be defined exactly once as `%s` (value and uncertainty share one rounding position; re-binding it after the other has been rounded "
                  "makes the printed digits denote a different value): %s" % (nm, expr, [U(d) for d in ds]), node=ds[-1] if ds else fn)
    ctx.check(has(fn, "(fmt + '(%.0f)e%d') % (no_int * 10 ** (-fieldw), un_int, x_exp)") and has(fn, "fieldw = x_exp - no_exp"), a, "exponent-form", "exponent form must print no_int*10**-(x_exp-no_exp), (un_int), e x_exp", node=fn)
    ctx.check(has(fn, "(fmt + '(%.0f)') % (no_int * 10 ** no_exp, un_int * 10 ** max(0, un_exp))") and has(fn, "fieldw = max(0, -no_exp)"), a, "plain-form", "plain form must print no_int*10**no_exp with max(0,-no_exp) decimals and (un_int*10**max(0,un_exp))", node=fn)
    ctx.check(has(fn, "if len(result2) <= len(result1): return result2 else: return result1"), a, "shortest-wins", "the shorter of the two layouts must be returned", node=fn)


def r6_arms(ctx):
    """which value is formatted: the given uncertainty/unit win over the number's own; exponent form split only when there is an exponent"""
    fn = ctx.func(NUM, "_number_to_X")
    a = NUM + ":_number_to_X"

    def chk(frag, key, msg):
        ctx.check(has(fn, frag), a, key, msg + " (expected `%s`)" % frag, node=fn)

    chk("uncertainty = uncertainty or getattr(number, 'uncertainty', None)", "given-uncertainty-wins", "a given uncertainty is used; the number's own only when none is given")
    chk("unit = unit or unit_of(number)", "given-unit-wins", "a given unit is used; the number's own only when none is given")
    chk("if unit is integer_one: unit_str = '' mag = number else:", "unitless-arm", "a unitless number is printed as is, without unit text")
    chk("mag = to_unitless(number, unit)", "magnitude-in-printed-unit", "the printed magnitude is the number expressed in the printed unit")
    chk("if uncertainty is not None: uncertainty = to_unitless(uncertainty, unit)", "uncertainty-in-printed-unit", "the uncertainty is expressed in the same printed unit")
    chk("if uncertainty is None:", "plain-vs-parenthesis", "without uncertainty the plain form is used, with one the parenthesis form")
    chk("flt = fmt(mag, uncertainty)", "callable-fmt(value,uncertainty)", "a callable format gets (value, uncertainty) in that order")
    chk("flt = _float_str_w_uncert(mag, uncertainty, fmt)", "parenthesis(value,uncertainty,digits)", "the parenthesis form gets (value, uncertainty, digits)")
    chk("if 'e' in flt: significand, mantissa = flt.split('e') return fmt_pow_10(significand, mantissa) + unit_str else: return flt + unit_str", "exponent-split",
        "a text with exponent is split into significand and exponent at 'e'; the unit follows in both cases")
    ps = ctx.func(STR, "StrPrinter._Reaction_param_str")
    ctx.check(has(ps, "if is_quantity(rxn.param) or isinstance(rxn.param, (float,)): return mag_fmt(rxn.param) else: return str(rxn.param)"), STR + ":StrPrinter._Reaction_param_str", "plain-number-arm",
              "a plain float (or bare quantity) goes through the magnitude format, anything else through str()", node=ps)


RULES = [
    Rule("C20-R1", r1_roman, 18, "roman table == standard definition; greedy loop"),
    Rule("C20-R2", r2_pow10, 13, "power-of-ten siblings"),
    Rule("C20-R3", r3_wiring, 16, "number_to_scientific_<x> wiring; _number_to_X precision/unit/uncertainty"),
    Rule("C20-R4", r4_param, 6, "_Reaction_param_str = magnitude + separator + unit"),
    Rule("C20-R6", r6_arms, 10, "which value/unit/uncertainty is formatted; exponent split"),
    Rule("C20-R5", r5_uncertainty_alignment, 9, "_float_str_w_uncert: one rounding position for value and uncertainty; both layouts"),
]

MUTANTS = [
    Mutant("roman-swap-XL-L", [(NUM, '"M CM D CD C XC L XL X IX V IV I"', '"M CM D CD C XC XL L X IX V IV I"')], "C20-R1", "token:"),
    Mutant("roman-value-typo", [(NUM, "1000, 900, 500, 400, 100, 90, 50, 40, 10, 9, 5, 4, 1", "1000, 900, 500, 400, 100, 90, 50, 40, 10, 9, 5, 6, 1")], "C20-R1", "token:IV"),
    Mutant("roman-missing-pair", [(NUM, '"M CM D CD C XC L XL X IX V IV I"', '"M CM D CD C XC L XL X IX V I"')], "C20-R1", ""),
    Mutant("roman-count-mod", [(NUM, "cnt = num // v", "cnt = num % v")], "C20-R1", "count"),
    Mutant("html-omit-for-10", [(NUM, '    if significand in ("1", "1.0"):\n        result = "10<sup>"', '    if significand in ("1", "1.0", "10"):\n        result = "10<sup>"')], "C20-R2", "omit-only-one"),
    Mutant("latex-omit-only-1", [(NUM, '    if significand in ("1", "1.0"):\n        fmt = "10^{%s}"', '    if significand in ("1",):\n        fmt = "10^{%s}"')], "C20-R2", "siblings-agree"),
    Mutant("html-wired-to-latex-pow", [(NUM, "return _number_to_X(number, uncertainty, unit, fmt, html_of_unit, _html_pow_10)", "return _number_to_X(number, uncertainty, unit, fmt, html_of_unit, _latex_pow_10)")], "C20-R3", "pow10-formatter"),
    Mutant("unicode-wired-to-html-unit", [(NUM, "number, uncertainty, unit, fmt, unicode_of_unit, _unicode_pow_10", "number, uncertainty, unit, fmt, html_of_unit, _unicode_pow_10")], "C20-R3", "unit-formatter"),
    Mutant("uncertainty-not-converted", [(NUM, "uncertainty = to_unitless(uncertainty, unit)", "uncertainty = to_unitless(uncertainty, unit_of(uncertainty))")], "C20-R3", "same-unit"),
    Mutant("unit-before-number", [(NUM, "        return flt + unit_str", "        return unit_str + flt")], "C20-R3", "unit-after"),
    Mutant("pow10-args-swapped", [(NUM, "return fmt_pow_10(significand, mantissa) + unit_str", "return fmt_pow_10(mantissa, significand) + unit_str")], "C20-R3", "pow10-args"),
    Mutant("param-unit-first", [(STR, 'return magnitude_str + self._str(" ") + unit_str', 'return unit_str + self._str(" ") + magnitude_str')], "C20-R4", "magnitude-sep-unit"),
    Mutant("param-magnitude-of-wrong-attr", [(STR, "unit_str = unit_fmt(rxn.param.dimensionality)", "unit_str = unit_fmt(rxn.param.units)")], "C20-R4", "unit"),
]

MUTANTS.append(Mutant("uncert-rebinds-position", [(NUM, "    # format - nom(unc)exp\n", "    if un_int == 10 ** precision:\n        un_int //= 10\n        un_exp += 1\n\n    # format - nom(unc)exp\n")], "C20-R5", "single-definition"))
MUTANTS.append(Mutant("uncert-value-other-position", [(NUM, "    no_exp = un_exp\n", "    no_exp = un_exp + 1\n")], "C20-R5", "no_exp"))

TWINS = [
    Twin("roman-list-literals", [(NUM, '"M CM D CD C XC L XL X IX V IV I".split()', '["M", "CM", "D", "CD", "C", "XC", "L", "XL", "X", "IX", "V", "IV", "I"]')]),
    Twin("roman-commuted", [(NUM, "result += t * cnt", "result += cnt * t")]),
]

MUTANTS.append(Mutant("magnitude-fixed-decimals", [("chempy/printing/printer.py", 'magnitude_fmt=lambda x: "%.3g" % x,', 'magnitude_fmt=lambda x: "%.3f" % x,')], "C20-R4", "magnitude-format-significant-digits"))
