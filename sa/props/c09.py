"""C09 -- unit conversion exact, reversible, refuses incompatible dimensions."""
from __future__ import annotations

import ast
from fractions import Fraction

from ..astu import U, S, has, walk_shallow, call_name, calls_in, kwarg, monomial, mono_str, linform, names_in, fold, NotLiteral
from ..core import AnalysisError, Mutant, Rule, Twin
from ..dims import mk_dim, dim_str, load_chempy_units, Namespace, lx_const, dim_mul, V
from ..idioms import for_loops, target_names
from ..tables import CODATA
from ..unitsmod import derived_table, module_dimdicts, UNITS

ID = "C09"
ENGINES = ["E0 core", "E1 tables", "E2 dims", "E3 cfg", "E4 linform"]
TECHNIQUE = "abstract interpretation of the derived-unit table and of the chemistry-unit definitions (dimension + SI scale) against name-derived oracles; monomial form of the conversion factor; unit-variable dataflow (strip/re-attach pairing); exception-handler discipline; registry table comparison (ast)"
CLAIM = ("Decides: every entry of get_derived_unit has the physical dimension of the quantity it names; every chemistry unit chempy adds has the "
         "dimension and SI scale its name states; to_unitless multiplies the magnitude by unit_of(value)/new_unit rescaled to dimensionless and "
         "recurses element-wise with the same target; the array helpers strip and re-attach the same unit variable (polyfit/polyval with the "
         "same exponent form); no handler in the conversion functions catches the ValueError of an incompatible conversion, the enumerated "
         "AttributeError/TypeError handlers re-raise unless the target is dimensionless; the registry tables pair each key with a unit of that "
         "dimension and the registry product keeps every exponent."
         ' Arms of the unit helpers, argument order into numpy, pass-through guards, registry (de)serialisation arms (R7). Shared rule A1: no swapped same-named arguments at resolved in-package call sites.')
DOES_NOT_DECIDE = "`quantities`' own arithmetic and rescale; the human-readable registry round trip on arbitrary registries; allclose semantics beyond its limit formula"
ASSUMPTIONS = ["`quantities` unit/constant tables (typing environment)", "SI prefixes", "CODATA eV and N_A for per100eV (1e-5)"]
F1 = Fraction(1)

ENERGY = mk_dim(M=1, L=2, T=-2)
DERIVED_ORACLE = {
    "diffusivity": mk_dim(L=2, T=-1), "diffusion": mk_dim(L=2, T=-1), "electrical_mobility": mk_dim(I=1, T=2, M=-1),
    "permittivity": mk_dim(I=2, T=4, L=-3, M=-1), "charge": mk_dim(I=1, T=1), "energy": ENERGY, "concentration": mk_dim(N=1, L=-3),
    "density": mk_dim(M=1, L=-3), "radiolytic_yield": dim_mul(mk_dim(N=1), ENERGY, -1), "doserate": mk_dim(L=2, T=-3),
    "linear_energy_transfer": mk_dim(M=1, L=1, T=-2),
}
MODULE_ORACLE = {"time": mk_dim(T=1), "length": mk_dim(L=1), "mass": mk_dim(M=1), "current": mk_dim(I=1), "temperature": mk_dim(K=1), "amount": mk_dim(N=1),
                 "energy": ENERGY, "volume": mk_dim(L=3), "concentration": mk_dim(N=1, L=-3)}


def r1_derived(ctx):
    tab = derived_table(ctx.repo)
    ctx.func(UNITS, "get_derived_unit")
    a = UNITS + ":get_derived_unit"
    for key, want in DERIVED_ORACLE.items():
        v = tab.get(key)
        if v is None:
            ctx.violation(a, "derived:" + key, "the derived-unit table has no entry %r" % key)
            continue
        ctx.check(v.kind == "q" and v.dim == want, a, "derived:" + key, "derived[%r] has dimension %s; a %s has dimension %s" % (
            key, dim_str(v.dim) if v.kind == "q" else "?", key.replace("_", " "), dim_str(want)), found=dim_str(v.dim) if v.kind == "q" else None, expected=dim_str(want))
    extra = sorted(set(tab) - set(DERIVED_ORACLE))
    for k in extra:
        ctx.note("get_derived_unit: entry %r has no oracle (dimension %s)" % (k, dim_str(tab[k].dim) if tab[k].kind == "q" else "?"))
    fn = ctx.func(UNITS, "get_derived_unit")
    ctx.check(has(fn, "try: return derived[key] except KeyError: return registry[key]"), a, "fallthrough-to-registry", "unknown keys must fall through to the registry itself", node=fn)
    ctx.check(has(fn, "if registry is None: return 1.0"), a, "no-registry->1", "a missing registry must give 1.0", node=fn)
    dd = module_dimdicts(ctx.repo)
    for k, want in MODULE_ORACLE.items():
        ctx.check(dd.get(k) == want, UNITS + ":" + k, "dimension-dict", "module-level %s is %s; expected %s" % (k, dim_str(dd.get(k)), dim_str(want)))


CONC = mk_dim(N=1, L=-3)
UNIT_ORACLE = {
    "dm": (mk_dim(L=1), 0.1), "decimetre": (mk_dim(L=1), 0.1), "m3": (mk_dim(L=3), 1.0), "dm3": (mk_dim(L=3), 1e-3), "cm3": (mk_dim(L=3), 1e-6),
    "molar": (CONC, 1e3), "millimolar": (CONC, 1.0), "micromolar": (CONC, 1e-3), "nanomolar": (CONC, 1e-6),
    "molal": (mk_dim(N=1, M=-1), 1.0), "micromole": (mk_dim(N=1), 1e-6), "nanomole": (mk_dim(N=1), 1e-9), "umol": (mk_dim(N=1), 1e-6),
    "kilojoule": (ENERGY, 1e3), "kilogray": (mk_dim(L=2, T=-2), 1e3),
    "per100eV": (dim_mul(mk_dim(N=1), ENERGY, -1), 1.0 / (100 * CODATA["e"] * CODATA["N_A"])),
    "perMolar_perSecond": (mk_dim(L=3, N=-1, T=-1), 1e-3), "umol_per_J": (dim_mul(mk_dim(N=1), ENERGY, -1), 1e-6),
}


def r2_chem_units(ctx):
    ctx.mod(UNITS)
    got = load_chempy_units(ctx.repo)
    reps = got.pop("__reports__", [])
    for r in reps:
        ctx.violation(UNITS + ":default_units", "%s:%s" % (r.kind, U(r.node)[:50]), r.msg, node=r.node)
    for name, (dim, scale) in UNIT_ORACLE.items():
        v = got.get(name)
        a = UNITS + ":default_units." + name
        if v is None or v.kind != "q":
            ctx.violation(a, "defined", "default_units.%s is not defined by an interpretable assignment" % name)
            continue
        sc = (v.extra or {}).get("scale")
        tol = 1e-5 if name == "per100eV" else 1e-9
        ok = v.dim == dim and sc is not None and abs(sc - scale) <= tol * abs(scale)
        ctx.check(ok, a, "dimension-and-scale", "default_units.%s is %s with SI scale %s; its name states %s with scale %.9g" % (name, dim_str(v.dim), sc, dim_str(dim), scale),
                  found=dict(dim=dim_str(v.dim), scale=sc), expected=dict(dim=dim_str(dim), scale=scale))
    for k in sorted(set(got) - set(UNIT_ORACLE)):
        ctx.note("default_units.%s has no oracle" % k)


def r3_orientation(ctx):
    fn = ctx.func(UNITS, "to_unitless")
    a = UNITS + ":to_unitless"
    vals, ndefs = {}, {}
    for s in ast.walk(fn):
        if isinstance(s, ast.Assign) and isinstance(s.targets[0], ast.Name):
            vals[s.targets[0].id] = s.value
            ndefs[s.targets[0].id] = ndefs.get(s.targets[0].id, 0) + 1
    multi = sorted(k for k in ("mag", "unt", "conv", "result") if ndefs.get(k, 0) != 1)
    ctx.check(not multi, a, "one-conversion-path", "magnitude, unit, factor and result must each be computed in exactly one way (a second arm that skips the rescaling, e.g. a "
              "shortcut `conv = 1.0` when the units 'compare equal', lets incompatible or prefixed units through); %s defined %s times" % (
                  multi, [ndefs.get(k, 0) for k in multi]), node=fn)
    ctx.check("mag" in vals and U(vals["mag"]) == "magnitude(value)" and "unt" in vals and U(vals["unt"]) == "unit_of(value)", a, "mag,unit-of-value", "magnitude and unit must both be taken from `value`", node=fn)
    conv = vals.get("conv")
    ok = isinstance(conv, ast.Call) and call_name(conv) == "rescale" and len(conv.args) == 2 and U(conv.args[1]) == "pq.dimensionless" and \
        monomial(conv.args[0]) == (F1, {"unt": {"1": F1}, "new_unit": {"1": -F1}})
    ctx.check(ok, a, "factor=unit/new_unit", "the conversion factor must be rescale(unit_of(value) / new_unit, dimensionless); found %s" % (U(conv) if conv is not None else None), node=conv or fn)
    res = vals.get("result")
    ok = res is not None and monomial(res, atom=lambda n: "MAG" if S(n) == "np.arraymag" else U(n)) == (F1, {"MAG": {"1": F1}, "conv": {"1": F1}})
    ctx.check(ok, a, "result=mag*factor", "the result must be magnitude * factor; found %s" % (U(res) if res is not None else None), node=res or fn)
    rec = [c for c in calls_in(fn) if call_name(c) == "to_unitless"]
    ctx.check(len(rec) >= 4 and all(len(c.args) == 2 and U(c.args[1]) == "new_unit" for c in rec), a, "recursion-same-target",
              "element-wise recursion must keep the target unit: %s" % [U(c) for c in rec], node=fn, sites=len(rec))
    ctx.check(has(fn, "if new_unit is None: new_unit = pq.dimensionless"), a, "default-target-dimensionless", "the default target must be dimensionless", node=fn)
    ctx.check(has(fn, "elif isinstance(value, str): raise ValueError("), a, "str-rejected", "strings must be rejected", node=fn)
    # unit_of / magnitude / rescale helpers
    f = ctx.func(UNITS, "magnitude")
    ctx.check(has(f, "try: return value.magnitude except AttributeError: return value"), UNITS + ":magnitude", "magnitude", "magnitude changed", node=f)
    f = ctx.func(UNITS, "unit_of")
    ctx.check(has(f, "if simplified: return expr.units.simplified else: return expr.units") and has(f, "except AttributeError: return 1"), UNITS + ":unit_of", "unit_of", "unit_of must return expr.units (1 for plain numbers)", node=f)


PAIRING = {
    "linspace": dict(unit="unit", src="unit_of(start)", strips=["start", "stop"]),
    "logspace_from_lin": dict(unit="unit", src="unit_of(start)", strips=["start", "stop"]),
    "concatenate": dict(unit="unit", src="unit_of(arrays[0])", strips=["arr"]),
    "tile": dict(unit="unit", src="unit_of(elem)", strips=["array"]),
}


def r4_pairing(ctx):
    for q, spec in PAIRING.items():
        fn = ctx.func(UNITS, q)
        a = UNITS + ":" + q
        un = spec["unit"]
        defs = [s for s in walk_shallow(fn) if isinstance(s, ast.Assign) and U(s.targets[0]) == un]
        ctx.check(len(defs) == 1 and U(defs[0].value) == spec["src"], a, "unit-source", "`%s` must be %s; found %s" % (un, spec["src"], [U(d.value) for d in defs]), node=fn)
        strips = [c for c in ast.walk(fn) if isinstance(c, ast.Call) and call_name(c) == "to_unitless"]
        ok = sorted(U(c.args[0]) for c in strips) == sorted(spec["strips"]) and all(len(c.args) == 2 and U(c.args[1]) == un for c in strips)
        ctx.check(ok, a, "strip-with-unit", "every operand must be stripped with `%s`: %s" % (un, [U(c) for c in strips]), node=fn)
        cond = [n for n in ast.walk(fn) if isinstance(n, (ast.IfExp, ast.If)) and any(isinstance(x, ast.Call) and call_name(x) in ("to_unitless", "magnitude") for x in ast.walk(n))]
        bare = [c for c in ast.walk(fn) if isinstance(c, ast.Call) and call_name(c) == "magnitude"]
        ctx.check(not cond and not bare, a, "conversion-unconditional", "every operand must go through to_unitless(..., %s) -- no shortcut that takes the bare magnitude when the units 'look equal' "
                  "(a plain number compares equal to a unit): %s" % (un, [U(x)[:80] for x in cond + bare]), node=(cond + bare)[0] if cond or bare else fn)
        ret = [n for n in walk_shallow(fn) if isinstance(n, ast.Return)][-1]
        c, p = monomial(ret.value)
        ok = c == 1 and p.get(un) == {"1": F1} and len(p) == 2
        ctx.check(ok, a, "reattach-same-unit", "the result must be <numpy result> * %s; found %s" % (un, U(ret.value)), node=ret)
    # uniform
    fn = ctx.func(UNITS, "uniform")
    a = UNITS + ":uniform"
    ctx.check(has(fn, "unit = unit_of(container[0])") and has(fn, "return to_unitless(container, unit) * unit"), a, "sequence-arm", "sequences must be expressed in the unit of their first element", node=fn)
    ctx.check(has(fn, "unit = unit_of(list(container.values())[0])") and has(fn, "[(k, to_unitless(v, unit) * unit) for k, v in container.items()]"), a, "dict-arm", "dicts must be expressed in the unit of their first value, key by key", node=fn)
    # polyfit / polyval
    pf = ctx.func(UNITS, "polyfit")
    pv = ctx.func(UNITS, "polyval")
    ctx.check(has(pf, "u_x = unit_of(x[0])") and has(pf, "u_y = unit_of(y[0])") and has(pf, "_x, _y = to_unitless(x, u_x), to_unitless(y, u_y)") and has(pf, "p = np.polyfit(_x, _y, deg)"),
              UNITS + ":polyfit", "strip-x-with-u_x,y-with-u_y", "x and y must be stripped with their own units before np.polyfit", node=pf)
    ret = [n for n in walk_shallow(pf) if isinstance(n, ast.Return)][-1]
    ok = isinstance(ret.value, ast.ListComp) and U(ret.value.generators[0].iter) == "enumerate(p)"
    fit_form = monomial(ret.value.elt) if ok else None
    i_, v_ = target_names(ret.value.generators[0].target) if ok else (None, None)
    want = (F1, {v_: {"1": F1}, "u_y": {"1": F1}, "u_x": {i_: F1, "deg": -F1}}) if ok else None
    ctx.check(ok and fit_form == want, UNITS + ":polyfit", "coefficient-units", "coefficient i must get the unit u_y * u_x**(i - deg); found %s" % (mono_str(fit_form) if fit_form else U(ret.value)), node=ret)
    lc = [n for n in ast.walk(pv) if isinstance(n, ast.ListComp) and "to_unitless" in U(n)]
    ok = len(lc) == 1 and isinstance(lc[0].elt, ast.Call) and call_name(lc[0].elt) == "to_unitless" and U(lc[0].generators[0].iter) == "enumerate(p)"
    if ok:
        i2, v2 = target_names(lc[0].generators[0].target)
        ok = U(lc[0].elt.args[0]) == v2 and monomial(lc[0].elt.args[1]) == (F1, {"u_y": {"1": F1}, "u_x": {i2: F1, "deg": -F1}})
    ctx.check(ok, UNITS + ":polyval", "coefficient-units", "coefficient i must be stripped with u_y * u_x**(i - deg) (the form polyfit attaches)", node=pv)
    ctx.check(has(pv, "deg = len(p) - 1") and has(pv, "u_y = unit_of(p[-1])") and has(pv, "_x = to_unitless(x, u_x)") and has(pv, "_y = np.polyval(_p, _x)") and has(pv, "return _y * u_y"),
              UNITS + ":polyval", "x/u_x,y*u_y", "x must be stripped with u_x and the value re-attached to u_y (unit of the constant coefficient)", node=pv)
    # allclose limit formula
    ac = ctx.func(UNITS, "allclose")
    ctx.check(has(ac, "d = abs(a - b)") and has(ac, "lim = abs(a) * rtol") and has(ac, "if atol is not None: lim += atol") and has(ac, "return d <= lim"), UNITS + ":allclose", "|a-b|<=|a|*rtol+atol",
              "allclose must test |a - b| <= |a|*rtol (+ atol)", node=ac)
    ce = ctx.func(UNITS, "compare_equality")
    ctx.check(has(ce, "except ValueError: return False") and has(ce, "try: a + b"), UNITS + ":compare_equality", "incompatible->False", "quantities of different dimension must compare unequal", node=ce)


CONVERSION_FUNCS = ["to_unitless", "rescale", "unitless_in_registry", "default_unit_in_registry", "get_physical_dimensionality", "_get_unit_from_registry", "uniform",
                    "linspace", "logspace_from_lin", "concatenate", "tile", "polyfit"]
SWALLOWING = {"ValueError", "Exception", "BaseException", None}


def _handler_types(h):
    if h.type is None:
        return [None]
    names = h.type.elts if isinstance(h.type, ast.Tuple) else [h.type]
    return [U(n) for n in names]


def r5_not_swallowed(ctx):
    n = 0
    for q in CONVERSION_FUNCS:
        fn = ctx.func(UNITS, q)
        a = UNITS + ":" + q
        tries = [t for t in ast.walk(fn) if isinstance(t, ast.Try)]
        if not tries:
            ctx.holds(a, "no-handlers")
            n += 1
            continue
        for t in tries:
            for h in t.handlers:
                n += 1
                types = _handler_types(h)
                bad = [x for x in types if x in SWALLOWING]
                key = "handler:%s" % ",".join(str(x) for x in types)
                if bad:
                    ctx.violation(a, key, "handler for %s would swallow the ValueError `quantities` raises for incompatible dimensions" % bad, node=h)
                    continue
                body = S(ast.Module(body=h.body, type_ignores=[]))
                converts = any(call_name(c) in ("to_unitless", "rescale", "unit_of", "magnitude") or (isinstance(c.func, ast.Attribute) and c.func.attr == "rescale")
                               for st in t.body for c in ast.walk(st) if isinstance(c, ast.Call))
                if not converts:
                    ctx.holds(a, key + ":non-conversion-try")  # e.g. an indexing fallback; it cannot hide a unit error
                elif "AttributeError" in types:
                    # plain numbers have no .rescale/.units: only a dimensionless (1) target may pass through
                    ok = ("ifnew_unit==pq.dimensionless:returnvalueelse:raise" in body) or ("ifunit==1:returnvalueelse:raise" in body)
                    ctx.check(ok, a, key, "the AttributeError handler must return the value only for a dimensionless target and re-raise otherwise; found `%s`" % U(ast.Module(body=h.body, type_ignores=[]))[:120], node=h)
                elif "TypeError" in types:
                    ok = body == "returnnp.array[to_unitlesselem,new_unitforeleminvalue]"
                    ctx.check(ok, a, key, "the TypeError handler must delegate to element-wise to_unitless with the same target", node=h)
                else:
                    ctx.check(False, a, key, "unexpected exception handler in a conversion function", node=h)
    if n < 10:
        raise AnalysisError("conversion functions: only %d handler/no-handler instances" % n)
    bg = ctx.func(UNITS, "Backend.__getattr__")
    ctx.check(has(bg, "return lambda *args, **kwargs: be_attr(*map(to_unitless, args), **kwargs)") and has(bg, "if callable(be_attr):"), UNITS + ":Backend.__getattr__", "arguments-made-unitless",
              "every callable of the wrapped backend must receive to_unitless(arg) for each positional argument", node=bg)
    wn = ctx.func(UNITS, "_wrap_numpy.f")
    ctx.check(has(wn, "return numpy_func(*map(to_unitless, args), **kwargs)"), UNITS + ":_wrap_numpy.f", "arguments-made-unitless", "patched numpy functions must strip units (dimensionless only)", node=wn)


QMAP = {"UnitLength": "length", "UnitMass": "mass", "UnitTime": "time", "UnitCurrent": "current", "UnitTemperature": "temperature",
        "UnitLuminousIntensity": "luminous_intensity", "UnitSubstance": "amount"}
SI = {"length": ("metre", "L"), "mass": ("kilogram", "M"), "time": ("second", "T"), "current": ("ampere", "I"), "temperature": ("kelvin", "K"),
      "luminous_intensity": ("candela", "J"), "amount": ("mole", "N")}


def r6_registry(ctx):
    fn = ctx.func(UNITS, "get_physical_dimensionality")
    a = UNITS + ":get_physical_dimensionality"
    d = None
    for s in walk_shallow(fn):
        if isinstance(s, ast.Assign) and U(s.targets[0]) == "_quantities_mapping" and isinstance(s.value, ast.Dict):
            d = s.value
    if d is None:
        raise AnalysisError("get_physical_dimensionality: _quantities_mapping not found")
    got = {}
    for k, v in zip(d.keys, d.values):
        got[U(k).split(".")[-1]] = v.value if isinstance(v, ast.Constant) else U(v)
    for cls, name in QMAP.items():
        ctx.check(got.get(cls) == name, a, "class->key:" + cls, "pq.%s is mapped to %r; it must be %r" % (cls, got.get(cls), name), node=d)
    ctx.check(set(got) == set(QMAP), a, "seven-base-dimensions", "the mapping must cover exactly the seven base unit classes; found %s" % sorted(got), node=d)
    ctx.check(has(fn, "{_quantities_mapping[k.__class__]: v for k, v in uniform(value).simplified.dimensionality.items()}"), a, "exponents-kept", "every base unit of the simplified value must be reported with its exponent", node=fn)
    ctx.check(has(fn, "if is_unitless(value): return {}"), a, "unitless->{}", "unitless values must give {}", node=fn)
    # SI_base_registry
    m = ctx.mod(UNITS)
    reg = None
    for n in ast.walk(m.tree):
        if isinstance(n, ast.Assign) and U(n.targets[0]) == "SI_base_registry" and isinstance(n.value, ast.Dict):
            reg = n.value
    if reg is None:
        raise AnalysisError("SI_base_registry dict not found")
    ns = Namespace("units")
    pairs = {}
    for k, v in zip(reg.keys, reg.values):
        pairs[k.value] = v
    for key, (unit, base) in SI.items():
        v = pairs.get(key)
        ok = v is not None and isinstance(v, ast.Attribute) and U(v.value) == "default_units"
        val = ns.get(v.attr) if ok else None
        ok = ok and val is not None and val.dim == {base: {"1": F1}} and abs((val.extra or {}).get("scale", 0) - 1.0) < 1e-12
        ctx.check(ok, UNITS + ":SI_base_registry", "key:" + key, "SI_base_registry[%r] is %s; it must be the SI base unit of %s" % (key, U(v) if v is not None else None, key), node=reg)
    ctx.check(set(pairs) == set(SI), UNITS + ":SI_base_registry", "seven-keys", "registry keys: %s" % sorted(pairs), node=reg)
    f = ctx.func(UNITS, "_get_unit_from_registry")
    ctx.check(has(f, "return reduce(mul, [registry[k] ** v for k, v in dimensionality.items()])"), UNITS + ":_get_unit_from_registry", "product-over-all-dimensions",
              "the registry unit must be the product of registry[k] ** v over every item of the dimensionality", node=f)
    f = ctx.func(UNITS, "default_unit_in_registry")
    ctx.check(has(f, "_dimensionality = get_physical_dimensionality(value)") and has(f, "if _dimensionality == {}: return 1") and has(f, "return _get_unit_from_registry(_dimensionality, registry)"),
              UNITS + ":default_unit_in_registry", "same-registry", "default_unit_in_registry must combine the value's dimensionality with the given registry", node=f)
    f = ctx.func(UNITS, "unitless_in_registry")
    ctx.check(has(f, "_default_unit = default_unit_in_registry(value, registry)") and has(f, "return to_unitless(value, _default_unit)"), UNITS + ":unitless_in_registry", "same-registry",
              "unitless_in_registry must strip the default unit of the same registry", node=f)
    f = ctx.func(UNITS, "unit_registry_from_human_readable")
    ctx.check(has(f, "factor, u_symbol = unit_registry[k]") and has(f, "new_registry[k] = factor * unit_quants[0]") and has(f, "for k in SI_base_registry:"), UNITS + ":unit_registry_from_human_readable", "factor*unit-per-key",
              "each key must be rebuilt as its own factor times its own unit", node=f)
    f = ctx.func(UNITS, "unit_registry_to_human_readable")
    ctx.check(has(f, "new_registry[k] = float(unit_registry[k]), u_symbol") and has(f, "u_symbol = dim_list[0].u_symbol") and has(f, "for k in SI_base_registry:"), UNITS + ":unit_registry_to_human_readable", "factor,symbol-per-key",
              "each key must be serialised as (factor, symbol) of its own unit", node=f)
    f = ctx.func(UNITS, "is_unitless")
    ctx.check(has(f, "return expr.simplified.dimensionality == pq.dimensionless.dimensionality") and has(f, "if expr.dimensionality == pq.dimensionless: return True"), UNITS + ":is_unitless", "dimensionless-after-simplify",
              "is_unitless must compare the simplified dimensionality with dimensionless", node=f)


def sweep_unit_attributes(ctx):
    """thorough: every `units.<name>` / `default_units.<name>` / `constants.<name>` read in the package names something that exists"""
    from ..dims import units_ns, constants_ns
    from ..astu import param_names
    uns, cns = units_ns(ctx.repo).extra, constants_ns().extra
    n = bad = 0
    for m in ctx.repo.all_modules():
        unit_aliases = {k for k, (mod, attr) in m.imports.items() if attr == "default_units"}
        const_aliases = {k for k, (mod, attr) in m.imports.items() if attr == "default_constants"}
        for q, fn in m.functions.items():
            ps = set(param_names(fn))
            stored = {x.id for x in ast.walk(fn) if isinstance(x, ast.Name) and isinstance(x.ctx, ast.Store)}
            for node in ast.walk(fn):
                if not (isinstance(node, ast.Attribute) and isinstance(node.value, ast.Name) and isinstance(node.ctx, ast.Load)):
                    continue
                nm = node.value.id
                ns = None
                if (nm == "units" and "units" in ps and "units" not in stored) or (nm in unit_aliases and nm not in stored and nm not in ps):
                    ns = uns
                elif (nm == "constants" and "constants" in ps and "constants" not in stored) or (nm in const_aliases and nm not in stored and nm not in ps):
                    ns = cns
                if ns is None or node.attr.startswith("_") or node.attr in ("as_dict",):
                    continue
                n += 1
                if ns.get(node.attr) is None:
                    bad += 1
                    ctx.note("%s:%d %s reads %s.%s, which neither `quantities` nor chempy.units defines (AttributeError when reached)" % (m.rel, node.lineno, q, nm, node.attr))
    ctx.holds("chempy/**", "unit-attribute-sweep", sites=n, missing=bad)
    if n < 40:
        raise AnalysisError("unit attribute sweep found only %d sites" % n)


def r7_helper_arms(ctx):
    """which arm of each helper handles which kind of value, argument order into the numpy routine, pass-through guards"""
    def chk(q, frag, key, msg):
        fn = ctx.func(UNITS, q)
        ctx.check(has(fn, frag), UNITS + ":" + q, key, msg + " (expected `%s`)" % frag, node=fn)

    chk("compare_equality", "except TypeError: return a == b", "scalar-arm", "non-addable scalars compare by ==")
    chk("compare_equality", "else: return a == b", "addable-arm", "addable (same-dimension) operands compare by ==")
    chk("compare_equality", "if len(a) != len(b): return False return all(compare_equality(_a, _b) for _a, _b in zip(a, b))", "sequence-arm", "sequences compare element-wise, different lengths are unequal")
    chk("allclose", "return np.all([_d <= lim for _d in d])", "array-vs-scalar-limit", "every difference must be <= the limit")
    chk("allclose", "return np.all([_d <= _lim for _d, _lim in zip(d, lim)])", "array-vs-array-limit", "difference i must be <= limit i")
    chk("allclose", "if len(a) == len(b): return all(allclose(_a, _b, rtol, atol) for _a, _b in zip(a, b)) else: return False", "container-arm", "containers are close iff same length and pairwise close with the same tolerances")
    chk("allclose", "else: return False except Exception: return False", "uncomparable->False", "operands that can be neither subtracted nor compared pairwise are not close")
    chk("allclose", "return allclose(pq.Quantity(a), b, rtol=rtol, atol=atol)", "uncertain-a", "an UncertainQuantity `a` is compared by its nominal value, operands keep their order")
    chk("allclose", "return allclose(a, pq.Quantity(b), rtol=rtol, atol=atol)", "uncertain-b", "an UncertainQuantity `b` is compared by its nominal value, operands keep their order")
    chk("linspace", "return np.linspace(start_, stop_, num) * unit", "start-then-stop", "np.linspace gets (start, stop, num) in that order")
    chk("logspace_from_lin", "return np.exp2(np.linspace(start_, stop_, num)) * unit", "start-then-stop", "np.linspace gets (log2 start, log2 stop, num) in that order, and exp2 undoes log2")
    chk("logspace_from_lin", "start_ = np.log2(to_unitless(start, unit))", "log2-start", "the exponent range starts at log2(start)")
    chk("logspace_from_lin", "stop_ = np.log2(to_unitless(stop, unit))", "log2-stop", "the exponent range ends at log2(stop)")
    chk("is_unitless", "if expr.dimensionality == pq.dimensionless: return True else: return expr.simplified.dimensionality == pq.dimensionless.dimensionality", "quantity-arm",
        "a quantity is unitless iff its (simplified) dimensionality is dimensionless")
    chk("is_unitless", "if isinstance(expr, dict): return all(is_unitless(_) for _ in expr.values())", "dict-arm", "a dict is unitless iff all its values are")
    chk("is_unitless", "elif isinstance(expr, (tuple, list)): return all(is_unitless(_) for _ in expr)", "sequence-arm", "a sequence is unitless iff all its elements are")
    fn = ctx.func(UNITS, "is_unitless")
    last = fn.body[-1]
    ctx.check(isinstance(last, ast.Return) and U(last.value) == "True", UNITS + ":is_unitless", "plain-number-unitless", "anything without a dimensionality is unitless", node=last)
    chk("unit_of", "if simplified: return expr.units.simplified else: return expr.units", "units-arm", "the unit is .units (simplified on request)")
    chk("unit_of", "except AttributeError: return 1", "plain-number->1", "a plain number has unit 1")
    chk("rescale", "except AttributeError: if unit == 1: return value else: raise", "plain-number-only-to-1", "a plain number can be 'rescaled' to 1 only")
    # to_unitless: where the value is handed back unconverted
    tu = ctx.func(UNITS, "to_unitless")
    a = UNITS + ":to_unitless"
    chk("to_unitless", "if new_unit is None: new_unit = pq.dimensionless", "default-target", "no target means dimensionless")
    chk("to_unitless", "elif isinstance(value, np.ndarray) and (not hasattr(value, 'rescale')): if is_unitless(new_unit) and new_unit == 1 and (value.dtype != object): return value",
        "plain-array-passthrough", "a plain numeric array is returned as is only for the target 1")
    chk("to_unitless", "elif isinstance(value, (int, float)) and new_unit is integer_one or new_unit is None: return value", "plain-number-passthrough", "a plain number is returned as is only for the target 1")
    chk("to_unitless", "if result.ndim == 0: return float(result) else: return np.asarray(result)", "scalar-or-array", "0-d results become floats, others arrays")
    chk("to_unitless", "for k in value: new_value[k] = to_unitless(value[k], new_unit)", "dict-elementwise", "dict values are converted key by key with the same target")
    rets = [r for r in walk_shallow(tu) if isinstance(r, ast.Return) and U(r.value) == "value"]
    ctx.check(len(rets) == 3, a, "three-passthroughs", "exactly three places may hand the value back unconverted (plain array -> 1, plain number -> 1, non-quantity -> dimensionless); found %d" % len(rets), node=tu)
    # registry (de)serialisation
    chk("unit_registry_to_human_readable", "if unit_registry is None: return None", "none->none", "no registry serialises to None")
    chk("unit_registry_to_human_readable", "if unit_registry[k] is integer_one: new_registry[k] = (1, 1)", "unit-one", "the unit 1 is written as (1, 1)")
    chk("unit_registry_to_human_readable", "if len(dim_list) != 1: raise TypeError(", "compound-refused", "compound units cannot be serialised and must be refused")
    chk("unit_registry_to_human_readable", "u_symbol = dim_list[0].u_symbol new_registry[k] = (float(unit_registry[k]), u_symbol)", "factor-and-symbol", "a unit is written as (factor, symbol of its single base unit)")
    chk("unit_registry_from_human_readable", "if unit_registry is None: return None", "none->none", "None deserialises to no registry")
    chk("unit_registry_from_human_readable", "if u_symbol == 1: unit_quants = [1] else: unit_quants = list(pq.Quantity(0, u_symbol).dimensionality.keys())", "symbol-lookup", "the symbol 1 is the unit 1, any other is looked up")
    chk("unit_registry_from_human_readable", "if len(unit_quants) != 1: raise TypeError(", "unknown-refused", "a symbol that does not name exactly one unit must be refused")
    chk("unit_registry_from_human_readable", "new_registry[k] = factor * unit_quants[0]", "factor-times-unit", "the unit is factor * base unit")
    chk("tile", "try: elem = array[0, ...] except TypeError: elem = array[0]", "first-element", "the unit is that of the first element")
    chk("polyval", "try: u_x = unit_of(x[0]) except (TypeError, IndexError): u_x = unit_of(x)", "x-unit", "the x unit is that of x[0] (or of scalar x)")
    wn = ctx.func(UNITS, "_wrap_numpy.f")
    ctx.check(has(wn, "return numpy_func(*map(to_unitless, args), **kwargs)"), UNITS + ":_wrap_numpy.f", "args-stripped-to-dimensionless",
              "wrapped transcendental functions must see to_unitless(arg) (target: dimensionless) of every argument", node=wn)


RULES = [
    Rule("C09-R1", r1_derived, 22, "derived-unit table and module-level dimension dicts"),
    Rule("C09-R2", r2_chem_units, 18, "chemistry units: dimension and SI scale from the name"),
    Rule("C09-R3", r3_orientation, 8, "conversion orientation in to_unitless"),
    Rule("C09-R4", r4_pairing, 20, "strip/re-attach pairing in the array helpers"),
    Rule("C09-R5", r5_not_swallowed, 12, "incompatible dimensions are not swallowed"),
    Rule("C09-R6", r6_registry, 24, "registry tables and registry product"),
    Rule("C09-R7", r7_helper_arms, 37, "arms of the unit helpers, argument order into numpy, pass-through guards, registry (de)serialisation"),
    Rule("C09-S1", sweep_unit_attributes, 1, "package-wide sweep: every units./constants. attribute exists (notes)", tier="thorough"),
]

MUTANTS = [
    Mutant("mobility-derived", [(UNITS, '            registry["current"] * registry["time"] ** 2 / registry["mass"]', '            registry["current"] * registry["time"] / registry["mass"]')], "C09-R1", "electrical_mobility"),
    Mutant("permittivity-exponent", [(UNITS, '            * registry["time"] ** 4\n', '            * registry["time"] ** 2\n')], "C09-R1", "permittivity"),
    Mutant("doserate-per-length", [(UNITS, 'derived["doserate"] = derived["energy"] / registry["mass"] / registry["time"]', 'derived["doserate"] = derived["energy"] / registry["length"] / registry["time"]')], "C09-R1", "doserate"),
    Mutant("concentration-dict", [(UNITS, 'concentration = {"amount": 1} - volume', 'concentration = {"amount": 1} + volume')], "C09-R1", "concentration"),
    Mutant("micromolar-scale", [(UNITS, '"uM", 1e-3 * default_units.mole / default_units.m3', '"uM", 1e-6 * default_units.mole / default_units.m3')], "C09-R2", "micromolar"),
    Mutant("molal-per-litre", [(UNITS, '"molal", default_units.mole / default_units.kg, u_symbol="molal"', '"molal", default_units.mole / default_units.dm3, u_symbol="molal"')], "C09-R2", "molal"),
    Mutant("nanomole-scale", [(UNITS, '"nanomole", pq.mole / 1e9', '"nanomole", pq.mole / 1e6')], "C09-R2", "nanomole"),
    Mutant("per100eV-factor", [(UNITS, "1 / (100 * default_units.eV * default_constants.Avogadro_constant)", "1 / (10 * default_units.eV * default_constants.Avogadro_constant)")], "C09-R2", "per100eV"),
    Mutant("dm3-from-cm", [(UNITS, "default_units.dm3 = default_units.decimetre ** 3", "default_units.dm3 = default_units.centimetre ** 3")], "C09-R2", "dm3"),
    Mutant("factor-inverted", [(UNITS, "conv = rescale(unt/new_unit, pq.dimensionless)", "conv = rescale(new_unit/unt, pq.dimensionless)")], "C09-R3", "factor"),
    Mutant("recursion-loses-target", [(UNITS, "        for k in value:\n            new_value[k] = to_unitless(value[k], new_unit)", "        for k in value:\n            new_value[k] = to_unitless(value[k])")], "C09-R3", "recursion"),
    Mutant("linspace-stop-own-unit", [(UNITS, "    stop_ = to_unitless(stop, unit)\n    return np.linspace(", "    stop_ = to_unitless(stop, unit_of(stop))\n    return np.linspace(")], "C09-R4", "linspace"),
    Mutant("concatenate-no-reattach", [(UNITS, "    return result * unit\n\n\ndef tile", "    return result\n\n\ndef tile")], "C09-R4", "concatenate"),
    Mutant("polyfit-exponent", [(UNITS, "return [v * u_y * u_x ** (i - deg) for i, v in enumerate(p)]", "return [v * u_y * u_x ** (deg - i) for i, v in enumerate(p)]")], "C09-R4", "polyfit"),
    Mutant("polyval-exponent", [(UNITS, "_p = [to_unitless(v, u_y * u_x ** (i - deg)) for i, v in enumerate(p)]", "_p = [to_unitless(v, u_y * u_x ** i) for i, v in enumerate(p)]")], "C09-R4", "polyval"),
    Mutant("swallow-valueerror", [(UNITS, "            except AttributeError:\n                if new_unit == pq.dimensionless:", "            except (AttributeError, ValueError):\n                if new_unit == pq.dimensionless:")], "C09-R5", "to_unitless"),
    Mutant("attributeerror-returns-always", [(UNITS, "                if new_unit == pq.dimensionless:\n                    return value\n                else:\n                    raise", "                return value")], "C09-R5", "to_unitless"),
    Mutant("rescale-passes-any-unit", [(UNITS, "        if unit == 1:\n            return value\n        else:\n            raise", "        return value")], "C09-R5", "rescale"),
    Mutant("mapping-crossed", [(UNITS, '        pq.UnitSubstance: "amount",', '        pq.UnitSubstance: "mass",')], "C09-R6", "UnitSubstance"),
    Mutant("registry-mass-gram", [(UNITS, '        "mass": default_units.kilogram,', '        "mass": default_units.gram,')], "C09-R6", "key:mass"),
    Mutant("registry-product-drops-exponent", [(UNITS, "return reduce(mul, [registry[k] ** v for k, v in dimensionality.items()])", "return reduce(mul, [registry[k] for k, v in dimensionality.items()])")], "C09-R6", "product"),
    Mutant("backend-raw-args", [(UNITS, "return lambda *args, **kwargs: be_attr(*map(to_unitless, args), **kwargs)", "return lambda *args, **kwargs: be_attr(*map(magnitude, args), **kwargs)")], "C09-R5", "Backend"),
]

TWINS = [
    Twin("mobility-rearranged", [(UNITS, '            registry["current"] * registry["time"] ** 2 / registry["mass"]', '            registry["time"] ** 2 * registry["current"] / registry["mass"]')]),
    Twin("molar-via-dm3", [(UNITS, '"M", 1e3 * default_units.mole / default_units.m3, u_symbol="M"', '"M", default_units.mole / default_units.dm3, u_symbol="M"')]),
    Twin("factor-parenthesised", [(UNITS, "conv = rescale(unt/new_unit, pq.dimensionless)", "conv = rescale((unt / new_unit), pq.dimensionless)")]),
    Twin("polyfit-commuted", [(UNITS, "return [v * u_y * u_x ** (i - deg) for i, v in enumerate(p)]", "return [u_x ** (i - deg) * v * u_y for i, v in enumerate(p)]")]),
]
MUTANTS.append(Mutant("to_unitless-equal-units-shortcut", [(UNITS, "                conv = rescale(unt/new_unit, pq.dimensionless)\n", "                if is_quantity(unt) and unt == new_unit:\n                    conv = 1.0\n                else:\n                    conv = rescale(unt/new_unit, pq.dimensionless)\n")], "C09-R3", "one-conversion-path"))


# shared rule A3 (guarded helpers)
MUTANTS.append(Mutant("is-quantity-other-class", [("chempy/units.py", 'if arg.__class__.__name__ == "Quantity":', 'if arg.__class__.__name__ == "UncertainQuantity":')], "C09-A3", "guarded-helper-changed"))
TWINS.append(Twin("is-quantity-direct-return", [("chempy/units.py", '    if arg.__class__.__name__ == "Quantity":\n        return True  # this checks works even if quantities is not installed.\n    else:\n        return False\n', '    return arg.__class__.__name__ == "Quantity"\n')]))

MUTANTS.append(Mutant("concatenate-equal-unit-shortcut", [(UNITS, "    result = np.concatenate([to_unitless(arr, unit) for arr in arrays], **kwargs)", "    result = np.concatenate([magnitude(arr) if unit_of(arr) == unit else to_unitless(arr, unit) for arr in arrays], **kwargs)")], "C09-R4", "conversion-unconditional"))
