"""C10 -- kinetic results do not depend on units."""
from __future__ import annotations

import ast
from fractions import Fraction

from ..astu import U, S, has, same, walk_shallow, call_name, calls_in, kwarg, linform, lin_str, fold, NotLiteral, names_in
from ..cfg import build, find_guards
from ..core import AnalysisError, Mutant, Rule, Twin
from ..dims import (V, TOP, Interp, num, opaque, mk_dim, dim_str, dim_mul, dim_pow, lx, lx_const, units_ns, constants_ns, Namespace, pq_const, join)
from ..dimrun import module_env, make_resolver
from ..idioms import for_loops, target_names
from ..unitsmod import derived_table, dimdict_eval, module_dimdicts, UNITS

ID = "C10"
CHEM = "chempy/chemistry.py"
ODE = "chempy/kinetics/ode.py"
EXPR = "chempy/util/_expr.py"
RATES = "chempy/kinetics/rates.py"
ENGINES = ["E0 core", "E2 dims", "E5 siblings"]
TECHNIQUE = "units-of-measure abstract interpretation of every rate-expression __call__ typed by its own args_dimensionality with a symbolic reaction order; dimension of the acceptance-test divisor; pre/post unit pairing facts (ast)"
CLAIM = ("Decides: for MassAction, Arrhenius, Eyring, EyringHS, Radiolytic, RampedTemp, SinTemp the declared argument dimensions make __call__ "
         "dimensionally homogeneous with dimensionless transcendental arguments for every reaction order, mass-action arguments have "
         "dimension concentration^(1-order)/time and rates concentration/time; the unit acceptance tests divide by / compare with exactly "
         "that dimension, are default checks and propagate failure; get_odesys and the alternative builder strip and re-attach the same unit "
         "per slot (time, concentration, parameters); dedimensionalisation pairs each argument with the unit it was divided by."
         ' Verdict arms of the acceptance tests, dedimensionalisation arms, hand-evaluated rate accumulation, registry-dependent arms (R6). Shared rule A1: no swapped same-named arguments at resolved in-package call sites.')
DOES_NOT_DECIDE = "numeric equality of rates across registries (follows only if `quantities` conversion is right, C09)"
ASSUMPTIONS = ["prod over reaction.reac of variables[k]**nu has dimension concentration^order (C03-R2)", "`quantities` constants table"]
F1 = Fraction(1)

CONC = mk_dim(N=1, L=-3)
TIME = mk_dim(T=1)
TEMP = mk_dim(K=1)


def _order_dim(base, expo):
    """base ** (linear form in `order`)"""
    return dim_pow(base, expo)


RATE_ARG = dim_mul(dim_pow(CONC, {"1": F1, "order": -F1}), mk_dim(T=-1))  # conc^(1-order)/time
RATE = mk_dim(N=1, L=-3, T=-1)


def _declared(ctx, rel, cls_qual, env_dims, derived):
    """evaluate <cls>.args_dimensionality -> list of dims"""
    fn = ctx.func(rel, cls_qual + ".args_dimensionality")
    ret = [n for n in walk_shallow(fn) if isinstance(n, ast.Return)][-1]
    v = ret.value
    local = dict(env_dims)
    # locals: N = base_registry["amount"], E = get_derived_unit(base_registry, "energy")
    for s in walk_shallow(fn):
        if isinstance(s, ast.Assign) and isinstance(s.targets[0], ast.Name):
            t = S(s.value)
            if t.startswith("base_registry["):
                try:
                    key = fold(s.value.slice, {})
                    local[s.targets[0].id] = {dict(length="L", mass="M", time="T", current="I", temperature="K", amount="N")[key]: lx(1)}
                except (NotLiteral, KeyError, AttributeError):
                    pass
            elif t.startswith("get_derived_unitbase_registry,"):
                try:
                    key = fold(s.value.args[1], {})
                    local[s.targets[0].id] = derived[key].dim
                except (NotLiteral, KeyError):
                    pass
    rep = 1
    if isinstance(v, ast.BinOp) and isinstance(v.op, ast.Mult) and isinstance(v.left, ast.Tuple):
        rep = None  # (X,) * self.nargs
        v = v.left
    if not isinstance(v, ast.Tuple):
        raise AnalysisError("%s.args_dimensionality: return is not a tuple" % cls_qual)
    dims = []
    for e in v.elts:
        if isinstance(e, ast.Call) and call_name(e) == "dict" and len(e.args) == 1 and isinstance(e.args[0], ast.Call) and call_name(e.args[0]) == "zip" \
                and U(e.args[0].args[0]) == "dimension_codes" and isinstance(e.args[0].args[1], ast.BinOp):
            b = e.args[0].args[1]
            l, r = local.get(U(b.left)), local.get(U(b.right))
            if l is None or r is None:
                raise AnalysisError("%s.args_dimensionality: cannot resolve %s" % (cls_qual, U(b)))
            dims.append(dim_mul(l, r, 1 if isinstance(b.op, ast.Mult) else -1))
        else:
            dims.append(dimdict_eval(e, local))
    return dims, rep, fn


VAR_DIMS = None


def _var_dim(key, derived):
    table = {"temperature": TEMP, "time": TIME, "density": mk_dim(M=1, L=-3), "doserate": derived["doserate"].dim}
    if key in table:
        return table[key]
    info = pq_const(key)
    if info is not None:
        return info[0]
    return None


def _hooks(argdims, derived, param_keys, self_nargs):
    def call_hook(interp, node, fname, args, kws, env):
        if fname == "self.all_args":
            return V("tuple", items=[opaque(d, "arg%d" % i) for i, d in enumerate(argdims)])
        if fname == "self.rate_coeff":
            return opaque(argdims[0], "arg0")
        if fname == "self.active_conc_prod":
            return V("q", dim=dim_pow(CONC, {"order": F1}), unit=None, val=None)
        if fname and (fname.endswith(".order") and ("reaction" in fname)) or (isinstance(node.func, ast.Attribute) and node.func.attr == "order" and "reaction" in U(node.func.value)):
            return V("q", dim={}, unit={}, val={"order": F1})
        if fname == "reduce" and len(args) == 2:
            x = args[1]
            if x.kind == "tuple":
                out = None
                for y in x.items:
                    if out is not None and out.kind == "q" and y.kind == "q":
                        interp.homogeneous(out, y, node, "reduce(add, ...)")
                    out = y if out is None else join(out, y)
                return out if out is not None else TOP
            return TOP
        return None

    def sub_hook(interp, base, idx, node):
        if base.kind == "variables":
            if idx.kind == "str" and idx.name is not None:
                key = idx.name
                for suffix_free in (key, key.split("_")[0]):
                    d = _var_dim(suffix_free, derived)
                    if d is not None:
                        return opaque(d, "var_" + key)
                return TOP
            if idx.kind == "substance-key":
                return opaque(CONC, "conc")
            return TOP
        if base.kind == "kwargs" and idx.kind == "str" and idx.name == "reaction":
            return V("reaction")
        return None

    def attr_hook(interp, base, node):
        if base.kind == "self":
            if node.attr == "parameter_keys":
                return V("tuple", items=[V("str", name=k) for k in param_keys])
            if node.attr == "nargs":
                return num(self_nargs)
        if base.kind == "reaction" and node.attr in ("reac",):
            return V("mapping", extra=(V("substance-key"), V("q", dim={}, unit={}, val=None)))
        return None
    return {"call": call_hook, "subscript": sub_hook, "attribute": attr_hook}


CLASSES = [
    # qualname, expected result dimension, usable as MassAction argument
    ("MassAction", RATE, False),
    ("Arrhenius", RATE_ARG, True),
    ("Eyring", RATE_ARG, True),
    ("EyringHS", RATE_ARG, True),
    ("mk_Radiolytic._Radiolytic", RATE, False),
    ("RampedTemp", TEMP, False),
    ("SinTemp", TEMP, False),
]
BAD = ("inhomogeneous", "transcendental", "dimensional-exponent", "missing-attribute", "rescale-mismatch")


def _param_keys(ctx, m, cq):
    if cq == "mk_Radiolytic._Radiolytic":
        return ("density", "doserate")
    try:
        return tuple(fold(m.class_assign(cq, "parameter_keys"), {}))
    except (NotLiteral, AnalysisError):
        return ()


def r1_declared_vs_computed(ctx):
    derived = derived_table(ctx.repo)
    dd = module_dimdicts(ctx.repo)
    m = ctx.mod(RATES)
    ma_dims, _, _ = _declared(ctx, RATES, "MassAction", dd, derived)
    ctx.check(len(ma_dims) == 1 and ma_dims[0] == RATE_ARG, RATES + ":MassAction.args_dimensionality", "rate-constant-dimension",
              "MassAction declares its rate constant as %s; it must be concentration^(1-order)/time = %s" % (dim_str(ma_dims[0]) if ma_dims else None, dim_str(RATE_ARG)))
    for cq, expect, as_arg in CLASSES:
        a = "%s:%s" % (RATES, cq)
        argdims, rep, adfn = _declared(ctx, RATES, cq, dd, derived)
        fn = ctx.func(RATES, cq + ".__call__")
        pk = _param_keys(ctx, m, cq)
        params = {"self": V("self"), "variables": V("variables"), "backend": V("be", name="math"), "reaction": V("reaction"),
                  "kwargs": V("kwargs", items={"reaction": V("reaction")})}
        it = Interp(fn, params, module_env(ctx.repo, RATES), make_resolver(ctx.repo, RATES), hooks=_hooks(argdims, derived, pk, len(argdims)))
        it.run()
        ctx.modes_seen.add("%s.__call__[symbolic order]" % cq)
        for t in it.tops:
            ctx.top("%s: %s" % (cq, t))
        bad = [r for r in it.reports if r.kind in BAD]
        seen = set()
        for r in bad:
            k = "%s:%s" % (r.kind, U(r.node)[:60])
            if k not in seen:
                seen.add(k)
                ctx.violation(a + ".__call__", k, "with the declared argument dimensions: %s" % r.msg, node=r.node)
        if not bad:
            ctx.holds(a + ".__call__", "homogeneous")
        known = [v for v in it.returns if v.kind == "q" and v.dim is not None]
        if not known:
            if not bad:
                ctx.violation(a + ".__call__", "result-dimension", "the dimension of the value of %s could not be derived (%s)" % (cq, it.tops[:3]), node=fn)
            continue
        for v in known:
            what = "a mass-action rate constant: concentration^(1-order)/time" if as_arg else dim_str(expect)
            ctx.check(v.dim == expect, a + ".__call__", "result-dimension",
                      "with arguments of the dimensions %s declares (%s), %s evaluates to %s; it must be %s (%s). A correctly dimensioned argument is rejected by the unit-aware ODE system." % (
                          cq + ".args_dimensionality", [dim_str(d) for d in argdims], cq, dim_str(v.dim), dim_str(expect), what), node=adfn, found=dim_str(v.dim), expected=dim_str(expect))
    # defaults of the standard-concentration argument carry the concentration unit
    for cq in ("Eyring", "EyringHS"):
        v = m.class_assign(cq, "argument_defaults")
        ctx.check(S(v) == "1*_molar,", RATES + ":" + cq, "conc0-default", "%s.argument_defaults must be (1 * _molar,); found %s" % (cq, U(v)), node=m.cls(cq))
    ctx.check(S(m.assign("_molar")) == "getattrdefault_units,'molar',1", RATES + ":_molar", "molar", "_molar must be default_units.molar", node=m.assign("_molar"))


def r2_acceptance_dimension(ctx):
    units_v = units_ns(ctx.repo)
    fn = ctx.func(CHEM, "Reaction.check_consistent_units")
    a = CHEM + ":Reaction.check_consistent_units"
    tu = [c for c in calls_in(fn) if call_name(c) == "to_unitless"]
    if len(tu) != 1 or not isinstance(tu[0].args[0], ast.BinOp) or not isinstance(tu[0].args[0].op, ast.Div):
        raise AnalysisError("Reaction.check_consistent_units: `to_unitless(param / <unit>)` not found")
    div = tu[0].args[0]
    ctx.check(U(div.left) == "param" and len(tu[0].args) == 1, a, "param/unit->dimensionless", "the test must be to_unitless(param / <expected unit>)", node=tu[0])

    def call_hook(interp, node, fname, args, kws, env):
        if fname == "self.order":
            return V("q", dim={}, unit={}, val={"order": F1})
        return None
    dummy = ast.parse("def _f():\n    pass").body[0]
    it = Interp(dummy, {}, {"default_units": units_v}, None, hooks={"call": call_hook})
    v = it.eval(div.right, {"default_units": units_v})
    ctx.check(v.kind == "q" and v.dim == RATE_ARG, a, "expected-dimension", "the rate constant is compared with a unit of dimension %s; it must be concentration^(1-order)/time = %s" % (
        dim_str(v.dim) if v.kind == "q" else "?", dim_str(RATE_ARG)), node=div, found=dim_str(v.dim) if v.kind == "q" else None)
    # failure propagation
    tr = [n for n in walk_shallow(fn) if isinstance(n, ast.Try)]
    ok = len(tr) == 1 and any(tu[0] is x for x in ast.walk(tr[0].body[0])) and len(tr[0].handlers) == 1
    if ok:
        h = tr[0].handlers[0]
        ok = has(h, "if throw: raise else: return False")
    ctx.check(ok, a, "failure-propagates", "a unit mismatch must re-raise when throw, else return False", node=fn)
    ctx.check(has(fn, "if is_quantity(self.param):"), a, "only-quantities", "the test applies to quantities only", node=fn)
    m = ctx.mod(CHEM)
    try:
        dc = fold(m.class_assign("Reaction", "default_checks"), {})
    except NotLiteral:
        raise AnalysisError("Reaction.default_checks is not a literal")
    ctx.check("consistent_units" in dc, CHEM + ":Reaction", "default-check", "'consistent_units' is not among Reaction.default_checks %s" % sorted(dc))
    init = ctx.func(CHEM, "Reaction.__init__")
    loops = [lp for lp in for_loops(init) if U(lp.iter) == "checks"]
    ok = len(loops) == 1 and has(loops[0], "getattr(self, 'check_' + check)(throw=True)") and loops[0] in init.body
    if ok:
        g = build(init)
        ok = all(g.must_pass({g.node_of(loops[0])}, e) for e in g.normal_exits())
    ctx.check(ok, CHEM + ":Reaction.__init__", "checks-run-with-throw", "the constructor must run every check with throw=True on all normal exits", node=init)
    ctx.check(has(init, "checks = self.default_checks ^ (dont_check or set())"), CHEM + ":Reaction.__init__", "checks-from-defaults", "default checks not applied when checks is None", node=init)
    # Equilibrium
    fn = ctx.func(CHEM, "Equilibrium.check_consistent_units")
    a = CHEM + ":Equilibrium.check_consistent_units"
    ex = [s for s in walk_shallow(fn) if isinstance(s, ast.Assign) and U(s.targets[0]) == "exponent"]
    ok = len(ex) == 1 and linform(ex[0].value) == {"sum(self.prod.values())": F1, "sum(self.reac.values())": -F1}
    ctx.check(ok, a, "exponent=products-reactants", "exponent must be sum(prod) - sum(reac); found %s" % (U(ex[0].value) if ex else None), node=fn)
    ctx.check(has(fn, "unit_expected = unit_of(default_units.molar ** exponent, simplified=True)") and has(fn, "unit_param = unit_of(self.param, simplified=True)"), a, "molar**exponent", "expected unit must be molar ** exponent, both simplified", node=fn)
    g = find_guards(fn, kinds=(ast.Raise, ast.Return))
    ok_t = any(isinstance(x.stmt, ast.Return) and U(x.stmt.value) == "True" and ("unit_param == unit_expected", True) in [(U(t), p) for t, p in x.tests()] for x in g)
    ok_r = any(isinstance(x.stmt, ast.Raise) and ("unit_param == unit_expected", False) in [(U(t), p) for t, p in x.tests()] and ("throw", True) in [(U(t), p) for t, p in x.tests()] for x in g)
    ok_f = any(isinstance(x.stmt, ast.Return) and U(x.stmt.value) == "False" and ("unit_param == unit_expected", False) in [(U(t), p) for t, p in x.tests()] for x in g)
    ctx.check(ok_t and ok_r and ok_f, a, "accept-iff-equal", "True iff the units are equal; otherwise raise (throw) / False", node=fn)


def r3_pre_post_pairing(ctx):
    fn = ctx.func(ODE, "get_odesys")
    a = ODE + ":get_odesys"
    vals = {}
    for s in walk_shallow(fn):
        if isinstance(s, ast.Assign) and isinstance(s.targets[0], ast.Name):
            vals[s.targets[0].id] = U(s.value)
    ctx.check(vals.get("time_unit") == "get_derived_unit(unit_registry, 'time')", a, "time_unit", "time_unit = %s" % vals.get("time_unit"), node=fn)
    ctx.check(vals.get("conc_unit") == "get_derived_unit(unit_registry, 'concentration')", a, "conc_unit", "conc_unit = %s" % vals.get("conc_unit"), node=fn)
    tac = None
    for s in walk_shallow(fn):
        if isinstance(s, ast.Assign) and U(s.targets[0]) == "kwargs['to_arrays_callbacks']" and isinstance(s.value, ast.Tuple):
            tac = s.value
    if tac is None or len(tac.elts) != 3:
        raise AnalysisError("get_odesys: to_arrays_callbacks tuple not found")
    want = ["time_unit", "conc_unit", None]
    for i, (lam, wu) in enumerate(zip(tac.elts, want)):
        if i < 2:
            ok = isinstance(lam, ast.Lambda) and S(lam.body) == "to_unitless%s,%s" % (lam.args.args[0].arg, wu)
            ctx.check(ok, a, "pre:slot%d" % i, "slot %d of to_arrays_callbacks must strip %s; found %s" % (i, wu, U(lam)), node=lam)
        else:
            t = S(lam)
            ok = "to_unitlesspx,p_unit" in t and "forpx,p_unitinzip" in t and ",p_units" in t
            ctx.check(ok, a, "pre:slot2", "parameters must be stripped element-wise with p_units; found %s" % U(lam)[:100], node=lam)
    pp = ctx.func(ODE, "get_odesys.post_processor")
    ap = ODE + ":get_odesys.post_processor"
    ctx.check(has(pp, "time = x * time_unit") and has(pp, "conc = y * conc_unit"), ap, "post:x*time,y*conc", "post_processor must re-attach time_unit to x and conc_unit to y", node=pp)
    ctx.check(has(pp, "[elem * p_unit for elem, p_unit in zip(p.T, p_units)]"), ap, "post:p*p_units", "post_processor must re-attach p_units to the parameters", node=pp)
    ctx.check(has(pp, "time = rescale(time, output_time_unit)") and has(pp, "conc = rescale(conc, output_conc_unit)"), ap, "post:rescale-own-slot", "output rescaling crossed between time and concentration", node=pp)
    ret = [n for n in walk_shallow(pp) if isinstance(n, ast.Return)][-1]
    ctx.check(isinstance(ret.value, ast.Tuple) and [U(e) for e in ret.value.elts[:2]] == ["time", "conc"], ap, "post:order", "post_processor must return (time, conc, params)", node=ret)
    ctx.check(has(fn, "kwargs['post_processors'] = kwargs.get('post_processors', []) + [post_processor]"), a, "post-installed", "post_processor not installed", node=fn)
    # alternative builder
    md = ctx.func(ODE, "_mk_dedim")
    a2 = ODE + ":_mk_dedim"
    ctx.check(has(md, "unit_time = get_derived_unit(unit_registry, 'time')") and has(md, "unit_conc = get_derived_unit(unit_registry, 'concentration')"), a2, "units", "unit_time/unit_conc sources changed", node=md)
    dt = ctx.func(ODE, "_mk_dedim.dedim_tcp")
    ctx.check(has(dt, "_t = to_unitless(t, unit_time)") and has(dt, "_c = to_unitless(c, unit_conc)"), a2 + ".dedim_tcp", "pre:t/time,c/conc", "dedim_tcp must strip unit_time from t and unit_conc from c", node=dt)
    ctx.check(has(dt, "pu[k] = param_unit(k, v)") and has(dt, "_p[k] = to_unitless(v, pu[k])"), a2 + ".dedim_tcp", "pre:p/own-unit", "each parameter must be stripped with the unit recorded for it", node=dt)
    ctx.check(has(dt, "dict(unit_time=unit_time, unit_conc=unit_conc, param_units=pu)"), a2 + ".dedim_tcp", "units-reported", "the units used must be reported under their own names", node=dt)
    sv = ctx.func(ODE, "_mk_unit_aware_solve.solve")
    ctx.check(has(sv, "result.xout = result.xout * dedim_extra['unit_time']") and has(sv, "result.yout = result.yout * dedim_extra['unit_conc']"), ODE + ":_mk_unit_aware_solve.solve", "post:x*time,y*conc",
              "solve must re-attach unit_time to xout and unit_conc to yout", node=sv)
    ctx.check(has(sv, "tcp, dedim_extra = dedim_ctx['dedim_tcp'](t, c, p)") and has(sv, "result = odesys.integrate(*tcp, **kwargs)"), ODE + ":_mk_unit_aware_solve.solve", "pre-then-integrate", "solve must integrate the dedimensionalised (t, c, p)", node=sv)
    # _validate compares with molar/second
    vf = ctx.func(ODE, "_validate")
    ctx.check(has(vf, "to_unitless(result, u.molar / u.second)"), ODE + ":_validate", "rate-dimension", "_validate must check each rate term against molar/second", node=vf)
    # passive substitutions and constants in registry units
    ctx.check(has(fn, "sv = unitless_in_registry(sv, unit_registry)") and has(fn, "const = unitless_in_registry(const, unit_registry)"), a, "substitutions-in-registry-units", "substituted values/constants must be made unitless in the registry", node=fn)
    ru = ctx.func(ODE, "_get_derived_unit")
    ctx.check(has(ru, "return get_derived_unit(reg, key)") and has(ru, "return get_derived_unit(reg, '_'.join(key.split('_')[:-1]))"), ODE + ":_get_derived_unit", "suffix-fallback", "_get_derived_unit changed", node=ru)


def r4_dedimensionalisation(ctx):
    fn = ctx.func(EXPR, "Expr.dedimensionalisation")
    a = EXPR + ":Expr.dedimensionalisation"
    ctx.check(has(fn, "_unit, _dedim = unit, to_unitless(arg, unit)"), a, "same-unit", "a plain argument must be divided by the very unit that is recorded for it", node=fn)
    ctx.check(has(fn, "None if isinstance(arg, Expr) else default_unit_in_registry(arg, unit_registry)"), a, "unit-from-registry", "the unit must be default_unit_in_registry(arg, unit_registry)", node=fn)
    ctx.check(has(fn, "_unit, _dedim = arg.dedimensionalisation(unit_registry, variables, backend=backend)"), a, "nested-same-registry", "nested expressions must recurse with the same registry", node=fn)
    ctx.check(has(fn, "new_units.append(_unit)") and has(fn, "unitless_args.append(_dedim)"), a, "paired-appends", "units and unitless arguments must be appended pairwise", node=fn)
    ctx.check(has(fn, "for arg, unit in zip(self.all_args(variables, backend=backend, evaluate=False), units):"), a, "args-zip-units", "arguments and units must be zipped in order", node=fn)
    ctx.check(has(fn, "instance = self.__class__(unitless_args, self.unique_keys)"), a, "same-class-and-keys", "the new instance must keep class and unique keys", node=fn)
    ctx.check(has(fn, "unitless_in_registry(arg, unit_registry) for arg in self.argument_defaults"), a, "defaults-same-registry", "argument defaults must be converted with the same registry", node=fn)
    ret = [n for n in walk_shallow(fn) if isinstance(n, ast.Return)][-1]
    ctx.check(same(ret.value, "new_units, instance", scope=fn), a, "returns-units-and-instance", "returns %s" % U(ret.value), node=ret)


def r5_unique_units(ctx):
    """units of late-bound (unique-key) rate constants: the full registry product, magnitude included"""
    fn = ctx.func(ODE, "get_odesys._reg_unique_unit")
    a = ODE + ":get_odesys._reg_unique_unit"
    st = [n for n in walk_shallow(fn) if isinstance(n, ast.Assign) and isinstance(n.targets[0], ast.Subscript) and U(n.targets[0].value) == "unique_units"]
    ok = len(st) == 1 and same(st[0].value, "reduce(mul, [1] + [unit_registry[dim] ** v for dim, v in arg_dim[idx].items()])", scope=fn)
    ctx.check(ok, a, "unit=registry-product", "the unit of a unique-key parameter must be exactly the product of unit_registry[dim] ** exponent (a registry entry such as 60*second carries a magnitude; "
              "wrapping the product, e.g. in unit_of(), drops it while time and concentration are still scaled by the registry); found %s" % (U(st[0].value) if st else None), node=st[0] if st else fn)
    ctx.check(len(st) == 1 and U(st[0].targets[0].slice) == fn.args.args[0].arg, a, "keyed-by-unique-key", "the unit must be stored under the unique key", node=fn)
    g = ctx.func(ODE, "get_odesys")
    ctx.check(has(g, "[unique_units[k] for k in unique]"), ODE + ":get_odesys", "p_units-from-unique_units", "p_units must take the unique-key units in the order of `unique`", node=g)
    ctx.check(has(g, "[to_unitless(px, p_unit) for px, p_unit in zip(p.T if hasattr(p, 'T') else p, p_units)]") and has(g, "[elem * p_unit for elem, p_unit in zip(p.T, p_units)]"), ODE + ":get_odesys", "same-p_units-pre-and-post",
              "parameters must be stripped and re-attached with the same p_units", node=g)


def r6_verdict_arms(ctx):
    """verdict values of the two acceptance tests, arms of dedimensionalisation, term accumulation of the hand-evaluated rate"""
    def chk(rel, q, frag, key, msg):
        fn = ctx.func(rel, q)
        ctx.check(has(fn, frag), "%s:%s" % (rel, q), key, msg + " (expected `%s`)" % frag, node=fn)

    q = "Reaction.check_consistent_units"
    chk(CHEM, q, "except Exception: if throw: raise else: return False else: return True", "incompatible->raise/False;compatible->True",
        "a constant that cannot be stripped against concentration^(1-order)/time is refused (raise or False), one that can is accepted")
    fn = ctx.func(CHEM, q)
    ev = [c for c in ast.walk(fn) if isinstance(c, ast.Call) and U(c.func) == "self.param.item()" and c.args and isinstance(c.args[0], ast.Dict)]
    ok = len(ev) == 1
    if ok:
        d = ev[0].args[0]
        kv = {k.value: v for k, v in zip(d.keys, d.values) if isinstance(k, ast.Constant)}
        tv = kv.get("temperature")
        ok = tv is not None and isinstance(tv, ast.BinOp) and isinstance(tv.op, ast.Mult) and any(isinstance(x, ast.Attribute) and x.attr in ("K", "kelvin", "Kelvin") for x in ast.walk(tv))
        asg = [n for n in walk_shallow(fn) if isinstance(n, ast.Assign) and any(x is ev[0] for x in ast.walk(n.value))]
        ok = ok and len(asg) == 1 and isinstance(asg[0].value, ast.BinOp) and isinstance(asg[0].value.op, ast.Mult) and "self.param.units" in (U(asg[0].value.left), U(asg[0].value.right))
    ctx.check(ok, CHEM + ":" + q, "expr-constant-evaluated-at-a-temperature", "a unit-carrying rate expression is evaluated at a temperature in kelvin (number * K) and multiplied by its own unit", node=fn)
    top = [s_ for s_ in fn.body if isinstance(s_, ast.If)]
    ok = len(top) == 1 and U(top[0].test) == "is_quantity(self.param)" and len(top[0].orelse) == 1 and isinstance(top[0].orelse[0], ast.Return) and U(top[0].orelse[0].value) == "True"
    ctx.check(ok, CHEM + ":" + q, "plain-number-accepted", "a constant without units is accepted (units are optional)", node=fn)
    q = "Equilibrium.check_consistent_units"
    chk(CHEM, q, "if unit_param == unit_expected: return True elif throw: raise ValueError(", "equal-units->True;else-raise", "equal simplified units are accepted, others refused")
    fn = ctx.func(CHEM, q)
    top = [s_ for s_ in fn.body if isinstance(s_, ast.If)]
    ok = len(top) == 1 and U(top[0].test) == "is_quantity(self.param)" and len(top[0].orelse) == 1 and isinstance(top[0].orelse[0], ast.Return) and U(top[0].orelse[0].value) == "True"
    ctx.check(ok, CHEM + ":" + q, "plain-number-accepted", "a constant without units is accepted", node=fn)
    q = "Reaction.__init__"
    chk(CHEM, q, "if checks is None: checks = self.default_checks ^ (dont_check or set())", "default-checks-unless-given", "without an explicit list the default checks run, minus the ones switched off")
    q = "Expr.dedimensionalisation"
    chk(EXPR, q, "if self.args is None: unitless_args = None else:", "argless-stays-argless", "an expression without stored arguments has nothing to strip")
    chk(EXPR, q, "if isinstance(arg, Expr): if unit is not None: raise ValueError()", "nested-has-no-unit", "a nested expression carries no unit of its own")
    chk(EXPR, q, "else: _unit, _dedim = (unit, to_unitless(arg, unit))", "plain-arg-stripped-with-own-unit", "a plain argument is stripped with exactly the unit that is reported for it")
    chk(EXPR, q, "new_units.append(_unit) unitless_args.append(_dedim)", "unit-and-value-in-step", "reported units and stripped values are appended together, one per argument")
    chk(EXPR, q, "if self.argument_defaults is not None: instance.argument_defaults = tuple((unitless_in_registry(arg, unit_registry) for arg in self.argument_defaults))",
        "defaults-stripped-too", "default arguments are stripped in the same registry")
    chk(EXPR, q, "return new_units, instance", "returns(units,instance)", "result is (units, stripped instance)")
    chk(ODE, "get_odesys", "if unit_registry is None: p_units = None else:", "units-only-with-registry", "unit handling is installed exactly when a registry is given")
    chk(ODE, "get_odesys.post_processor", "if output_time_unit is not None: time = rescale(time, output_time_unit)", "time-rescaled-on-request", "output time is rescaled exactly when a unit is requested")
    chk(ODE, "get_odesys.post_processor", "if output_conc_unit is not None: conc = rescale(conc, output_conc_unit)", "conc-rescaled-on-request", "output concentrations are rescaled exactly when a unit is requested")
    chk(ODE, "get_odesys", "if unit_registry is None: const = magnitude(const) else: const = unitless_in_registry(const, unit_registry)", "constants-in-registry-units",
        "an inlined physical constant is expressed in the registry's units when there is a registry (its SI magnitude only without one)")
    chk(ODE, "get_odesys", "if unit_registry is not None: sv = unitless_in_registry(sv, unit_registry)", "substituted-values-in-registry-units", "a substituted plain value is expressed in the registry's units")
    chk(ODE, "get_odesys._reg_unique_unit", "if unit_registry is None: return", "no-units-without-registry", "parameter units are recorded only with a registry")
    chk(ODE, "get_odesys._get_arg_dim", "if unit_registry is None: return None else: return expr.args_dimensionality(reaction=rxn)", "arg-dims-of-own-reaction", "argument dimensions are asked for the reaction at hand")
    q = "_validate"
    chk(ODE, q, "to_unitless(result, u.molar / u.second)", "term-is-conc-per-time", "every term of a rate must be strippable as concentration/time")
    chk(ODE, q, "if expr == 0: rate = 0 * u.molar / u.second", "zero-rate-has-units", "a vanishing rate is 0 concentration/time")
    chk(ODE, q, "if rate is None: rate = result else: rate += result", "terms-summed", "the hand-evaluated rate is the sum of its terms")
    chk(ODE, q, "rates[k] = rate", "rate-per-substance", "one rate per substance key")
    chk(ODE, q, "values = [conditions[s.name] for s in args] result = backend.lambdify(args, term)(*map(_exact, values))", "symbols-bound-by-name",
        "each symbol is bound to the condition of the same name, in the order the callback was built with")
    chk(ODE, q, "if k not in odesys.param_names and k not in odesys.names and (k not in ignore): raise KeyError(", "unknown-condition-refused", "an unknown condition key is refused on request")


RULES = [
    Rule("C10-R1", r1_declared_vs_computed, 17, "declared argument dimensions vs formulas for every rate-expression class (symbolic order)"),
    Rule("C10-R2", r2_acceptance_dimension, 10, "acceptance-test dimension and propagation"),
    Rule("C10-R3", r3_pre_post_pairing, 19, "pre/post unit pairing in get_odesys and the alternative builder"),
    Rule("C10-R4", r4_dedimensionalisation, 8, "dedimensionalisation pairing"),
    Rule("C10-R6", r6_verdict_arms, 25, "verdict arms of the acceptance tests; dedimensionalisation arms; hand-evaluated rate accumulation"),
    Rule("C10-R5", r5_unique_units, 4, "unique-key parameter units are the full registry product"),
]

MUTANTS = [
    Mutant("massaction-length-exponent", [(RATES, '    def args_dimensionality(self, reaction):\n        order = reaction.order()\n        return ({"time": -1, "amount": 1 - order, "length": 3 * (order - 1)},)', '    def args_dimensionality(self, reaction):\n        order = reaction.order()\n        return ({"time": -1, "amount": 1 - order, "length": 3 * (1 - order)},)')], "C10-R1", "MassAction"),
    Mutant("arrhenius-Ea-dimension", [(RATES, '            {"time": -1, "amount": 1 - order, "length": 3 * (order - 1)},\n            {"temperature": 1},\n        )\n\n    def __call__(self, variables, backend=math, **kwargs):\n        A, Ea_over_R', '            {"time": -1, "amount": 1 - order, "length": 3 * (order - 1)},\n            {"temperature": -1},\n        )\n\n    def __call__(self, variables, backend=math, **kwargs):\n        A, Ea_over_R')], "C10-R1", "Arrhenius"),
    Mutant("eyringhs-dS-dimension", [(RATES, '            energy + {"amount": -1, "temperature": -1},', '            energy + {"amount": -1},')], "C10-R1", "EyringHS"),
    Mutant("radiolytic-yield-inverse", [(RATES, "return (dict(zip(dimension_codes, N / E)),) * self.nargs", "return (dict(zip(dimension_codes, E / N)),) * self.nargs")], "C10-R1", "Radiolytic"),
    Mutant("sintemp-phase-dimension", [(RATES, 'return ({"temperature": 1}, {"temperature": 1}, {"time": -1}, {})', 'return ({"temperature": 1}, {"temperature": 1}, {"time": -1}, {"time": 1})')], "C10-R1", "SinTemp"),
    Mutant("rampedtemp-slope", [(RATES, 'return ({"temperature": 1}, {"temperature": 1, "time": -1})', 'return ({"temperature": 1}, {"temperature": 1, "time": 1})')], "C10-R1", "RampedTemp"),
    Mutant("eyring-call-drops-conc0", [(RATES, '            * backend.exp(_pure_number(-c1 / T))\n            * conc0 ** (1 - kwargs["reaction"].order())\n', '            * backend.exp(_pure_number(-c1 / T))\n')], "C10-R1", "Eyring"),
    Mutant("acceptance-wrong-exponent", [(CHEM, "/ (default_units.molar ** (1 - self.order()) / default_units.s)", "/ (default_units.molar ** (-self.order()) / default_units.s)")], "C10-R2", "expected-dimension"),
    Mutant("acceptance-swallowed", [(CHEM, "            except Exception:\n                if throw:\n                    raise\n                else:\n                    return False", "            except Exception:\n                return not throw")], "C10-R2", "failure-propagates"),
    Mutant("acceptance-not-default", [(CHEM, 'default_checks = {"any_effect", "all_positive", "all_integral", "consistent_units"}', 'default_checks = {"any_effect", "all_positive", "all_integral"}')], "C10-R2", "default-check"),
    Mutant("equilibrium-exponent-reversed", [(CHEM, "exponent = sum(self.prod.values()) - sum(self.reac.values())", "exponent = sum(self.reac.values()) - sum(self.prod.values())")], "C10-R2", "exponent"),
    Mutant("post-time-uses-conc-unit", [(ODE, "            time = x * time_unit", "            time = x * conc_unit")], "C10-R3", "post:"),
    Mutant("pre-y-uses-time-unit", [(ODE, "lambda y: to_unitless(y, conc_unit),", "lambda y: to_unitless(y, time_unit),")], "C10-R3", "pre:slot1"),
    Mutant("solve-yout-time", [(ODE, 'result.yout * dedim_extra["unit_conc"]', 'result.yout * dedim_extra["unit_time"]')], "C10-R3", "post:"),
    Mutant("dedim-different-unit", [(EXPR, "_unit, _dedim = unit, to_unitless(arg, unit)", "_unit, _dedim = unit, to_unitless(arg)")], "C10-R4", "same-unit"),
]

MUTANTS.append(Mutant("eyring-prefactor-carries-concentration", [(RATES, '            {"time": -1, "temperature": -1},\n            {"temperature": 1},\n            concentration,', '            {"time": -1, "temperature": -1, "amount": -1, "length": 3},\n            {"temperature": 1},\n            concentration,')], "C10-R1", "Eyring"))

MUTANTS.append(Mutant("unique-unit-loses-magnitude", [(ODE, "        unique_units[k] = reduce(\n            mul, [1] + [unit_registry[dim] ** v for dim, v in arg_dim[idx].items()]\n        )", "        unique_units[k] = unit_of(reduce(\n            mul, [1] + [unit_registry[dim] ** v for dim, v in arg_dim[idx].items()]\n        ))")], "C10-R5", "registry-product"))

TWINS = [
    Twin("massaction-length-rewritten", [(RATES, '    def args_dimensionality(self, reaction):\n        order = reaction.order()\n        return ({"time": -1, "amount": 1 - order, "length": 3 * (order - 1)},)', '    def args_dimensionality(self, reaction):\n        order = reaction.order()\n        return ({"time": -1, "amount": 1 - order, "length": 3 * order - 3},)')]),
    Twin("eyringhs-call-rearranged", [(RATES, "            * backend.exp(_pure_number(-(dH - T * dS) / (R * T)))", "            * backend.exp(_pure_number((T * dS - dH) / (T * R)))")]),
]

# shared rule A4 (no new state kept across calls)
MUTANTS.append(Mutant("registry-unit-cached-by-dimensionality", [("chempy/units.py", "def _get_unit_from_registry(dimensionality, registry):\n    return reduce(mul, [registry[k] ** v for k, v in dimensionality.items()])",
    "_unit_cache = {}\n\n\ndef _get_unit_from_registry(dimensionality, registry):\n    key = tuple(sorted(dimensionality.items()))\n    if key not in _unit_cache:\n        _unit_cache[key] = reduce(mul, [registry[k] ** v for k, v in dimensionality.items()])\n    return _unit_cache[key]")], "C10-A4", "new-state"))
