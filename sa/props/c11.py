"""C11 -- arithmetic on equilibria keeps K consistent with stoichiometry."""
from __future__ import annotations

import ast
from fractions import Fraction

from ..astu import U, has, same, walk_shallow, call_name, calls_in, kwarg, linform, lin_str, monomial, mono_str
from ..cfg import build, defs_of
from ..core import AnalysisError, Mutant, Rule, Twin
from ..idioms import subscript_stores, for_loops, target_names
from .c03 import _atom_for

ID = "C11"
CHEM = "chempy/chemistry.py"
ENGINES = ["E0 core", "E3 cfg", "E4 linform"]
TECHNIQUE = "reaching-definition check on a statement CFG (signed exponent), linear form of the netted sum, monomial identity kf/kb = K*c0^(nb-nf), reduce-initialiser totality check (ast)"
CLAIM = ("Decides: K is raised to the signed integer as passed; all four stoichiometry dicts are scaled by the same non-negative factor and "
         "both pairs are swapped iff the factor was negative; the sum is netted per key over the union of keys with K multiplied; "
         "forward/backward constants satisfy kf/kb = K*c0^(nb-nf) in both arms with sides swapped for the backward reaction; "
         "eliminate's reduction is total (has an initialiser)."
         ' Arm selection in scaling, addition and as_reactions (R7). Shared rule A1: no swapped same-named arguments at resolved in-package call sites.')
DOES_NOT_DECIDE = "the number theory in eliminate/cancel; behaviour with inactive parts under addition (excluded by the statement)"
ASSUMPTIONS = ["ArithmeticDict scalar multiplication scales every value (chempy/util/arithmeticdict.py, covered by its own tests)"]
F1 = Fraction(1)


def r1_signed_power(ctx):
    fn = ctx.func(CHEM, "Equilibrium.__rmul__")
    a = CHEM + ":Equilibrium.__rmul__"
    oth = fn.args.args[1].arg
    pows = [n for n in ast.walk(fn) if isinstance(n, ast.BinOp) and isinstance(n.op, ast.Pow) and U(n.left) == "self.param"]
    if len(pows) != 1:
        raise AnalysisError("__rmul__: expected one `self.param ** ...`")
    p = pows[0]
    ctx.check(U(p.right) == oth, a, "exponent-is-argument", "K is raised to `%s`, expected the multiplier argument `%s`" % (U(p.right), oth), node=p)
    g = build(fn)
    stmt = None
    for s in walk_shallow(fn):
        if isinstance(s, ast.Assign) and any(x is p for x in ast.walk(s)):
            stmt = s
    if stmt is None:
        raise AnalysisError("__rmul__: power expression not in an assignment")
    n_pow = g.node_of(stmt)
    stale = [d for d in defs_of(g, oth) if n_pow in g.reach(d)]
    ctx.check(not stale, a, "exponent-keeps-sign", "`%s` is re-bound (line %s) before K is raised to it: the sign of the multiplier is lost" % (
        oth, [g.nodes[d].stmt.lineno for d in stale]), node=stmt)
    ctx.check("None if self.param is None else" in U(stmt.value), a, "none-param-kept", "a missing constant must stay None", node=stmt)


def r2_scale_and_flip(ctx):
    fn = ctx.func(CHEM, "Equilibrium.__rmul__")
    a = CHEM + ":Equilibrium.__rmul__"
    oth = fn.args.args[1].arg
    g = build(fn)
    # the sign branch
    sign_if = None
    for s in walk_shallow(fn):
        if isinstance(s, ast.If) and U(s.test).replace(" ", "") in ("%s<0" % oth, "0>%s" % oth):
            sign_if = s
    if sign_if is None:
        ctx.violation(a, "sign-branch", "no `if %s < 0` branch" % oth, node=fn)
        return
    tb = [U(x) for x in sign_if.body]
    fb = [U(x) for x in sign_if.orelse]
    neg = any(t in ("%s *= -1" % oth, "%s = -%s" % (oth, oth), "%s = -1 * %s" % (oth, oth)) for t in tb)
    ctx.check(neg and "flip = True" in tb and fb == ["flip = False"], a, "flip-iff-negative",
              "negative multiplier must be negated and set flip=True, otherwise flip=False; found %s / %s" % (tb, fb), node=sign_if)
    # four dicts scaled by the same factor after the sign branch
    n_if = g.node_of(sign_if)
    for d in ("reac", "prod", "inact_reac", "inact_prod"):
        asg = [s for s in walk_shallow(fn) if isinstance(s, ast.Assign) and U(s.targets[0]) == d]
        ok = False
        for s in asg:
            v = s.value
            if isinstance(v, ast.Call) and call_name(v) == "dict" and isinstance(v.args[0], ast.BinOp) and isinstance(v.args[0].op, ast.Mult):
                l, r = v.args[0].left, v.args[0].right
                if U(r) == oth:
                    l, r = r, l
                ok = U(l) == oth and isinstance(r, ast.Call) and call_name(r) == "ArithmeticDict" and U(r.args[-1]) == "self." + d \
                    and g.node_of(s) in g.reach(n_if)
        ctx.check(ok, a, "scaled:" + d, "%s must be dict(%s * ArithmeticDict(int, self.%s)) computed after the sign was removed" % (d, oth, d), node=fn)
    # swap of both pairs under flip
    fl = [s for s in walk_shallow(fn) if isinstance(s, ast.If) and U(s.test) == "flip"]
    swaps = set()
    if fl:
        for s in fl[0].body:
            if isinstance(s, ast.Assign) and isinstance(s.targets[0], ast.Tuple) and isinstance(s.value, ast.Tuple):
                t, v = target_names(s.targets[0]), [U(x) for x in s.value.elts]
                if len(t) == 2 and v == t[::-1]:
                    swaps.add(frozenset(t))
    ctx.check(swaps == {frozenset(("reac", "prod")), frozenset(("inact_reac", "inact_prod"))} and bool(fl) and not fl[0].orelse, a, "both-pairs-swapped",
              "under flip both (reac, prod) and (inact_reac, inact_prod) must be swapped; found %s" % [sorted(x) for x in swaps], node=fl[0] if fl else fn)
    ret = [n for n in walk_shallow(fn) if isinstance(n, ast.Return) and isinstance(n.value, ast.Call)]
    c = ret[-1].value
    ok = call_name(c) == "Equilibrium" and [U(x) for x in c.args] == ["reac", "prod", "param"] and U(kwarg(c, "inact_reac")) == "inact_reac" and U(kwarg(c, "inact_prod")) == "inact_prod"
    ctx.check(ok, a, "result-wiring", "result is %s" % U(c), node=ret[-1])
    # integer-only
    ok = any(isinstance(s, ast.If) and "not other_is_int" in U(s.test) and "NotImplemented" in U(s.body[0]) for s in walk_shallow(fn))
    ctx.check(ok, a, "integers-only", "non-integer multipliers must return NotImplemented", node=fn)
    for q, want in (("__neg__", "-1 * self"), ("__mul__", "other * self"), ("__sub__", "self + -1 * other")):
        f = ctx.func(CHEM, "Equilibrium." + q)
        r = [n for n in walk_shallow(f) if isinstance(n, ast.Return)][-1]
        ctx.check(U(r.value) == want, CHEM + ":Equilibrium." + q, "delegates", "%s returns `%s`, expected `%s`" % (q, U(r.value), want), node=r)


def r3_netted_add(ctx):
    fn = ctx.func(CHEM, "Equilibrium.__add__")
    a = CHEM + ":Equilibrium.__add__"
    oth = fn.args.args[1].arg
    # keys: union of the four key sets
    src = None
    for lp in for_loops(fn):
        if isinstance(lp.iter, ast.Call) and call_name(lp.iter) == "chain":
            src = sorted(U(x) for x in lp.iter.args)
            kv = target_names(lp.target)[0]
            ok_add = any(U(c) == "keys.add(%s)" % kv for c in calls_in(lp))
    want_src = sorted(["self.reac.keys()", "self.prod.keys()", "%s.reac.keys()" % oth, "%s.prod.keys()" % oth])
    ctx.check(src == want_src and ok_add, a, "union-of-keys", "keys must be the union of reac/prod keys of both operands; found %s" % src, node=fn)
    main = [lp for lp in for_loops(fn) if U(lp.iter) == "keys"]
    if not main:
        raise AnalysisError("__add__: loop over keys not found")
    lp = main[0]
    kv = target_names(lp.target)[0]
    nasg = [s for s in lp.body if isinstance(s, ast.Assign) and isinstance(s.targets[0], ast.Name)]
    if not nasg:
        raise AnalysisError("__add__: net coefficient assignment not found")
    nn = nasg[0].targets[0].id

    def atom(node):
        t = _atom_for(kv)(node)
        return t
    lf = linform(nasg[0].value, atom)
    want = {"prod[%s]" % kv: F1, "reac[%s]" % kv: -F1, "%s.prod[%s]" % (oth, kv): F1, "%s.reac[%s]" % (oth, kv): -F1}
    ctx.check(lf == want, a, "net=prod-reac+prod'-reac'", "net coefficient must be %s; found %s" % (lin_str(want), lin_str(lf)), node=nasg[0])
    # placement
    place = {}
    for s in lp.body:
        node = s
        while isinstance(node, ast.If):
            t = U(node.test).replace(" ", "")
            for b in node.body:
                if isinstance(b, ast.Assign) and isinstance(b.targets[0], ast.Subscript):
                    place[t] = (U(b.targets[0].value), U(b.targets[0].slice), linform(b.value))
            node = node.orelse[0] if len(node.orelse) == 1 and isinstance(node.orelse[0], ast.If) else None
    ok = place.get("%s<0" % nn) == ("reac", kv, {nn: -F1}) and place.get("%s>0" % nn) == ("prod", kv, {nn: F1}) and len(place) == 2
    ctx.check(ok, a, "netted-placement", "n<0 -> reac[key] = -n, n>0 -> prod[key] = n, zero omitted; found %s" % {k: (v[0], v[1], lin_str(v[2])) for k, v in place.items()}, node=lp)
    # param product
    pm = None
    for s in walk_shallow(fn):
        if isinstance(s, ast.Assign) and U(s.targets[0]) == "param" and not isinstance(s.value, ast.Constant):
            pm = s
    ok = pm is not None and monomial(pm.value) == (F1, {"self.param": {"1": F1}, "%s.param" % oth: {"1": F1}})
    ctx.check(ok, a, "K=K1*K2", "the constant of a sum must be self.param * other.param; found %s" % (U(pm.value) if pm is not None else None), node=pm or fn)
    ret = [n for n in walk_shallow(fn) if isinstance(n, ast.Return)][-1]
    ctx.check(U(ret.value) == "Equilibrium(reac, prod, param)", a, "result-wiring", "returns %s" % U(ret.value), node=ret)
    init = [U(s) for s in fn.body if isinstance(s, ast.Assign) and "reac" in target_names(s.targets[0])]
    ctx.check(init == ["(reac, prod) = ({}, {})"] or init == ["reac, prod = ({}, {})"], a, "fresh-dicts", "result dicts initialised as %s" % init, node=fn)


def r4_forward_backward(ctx):
    fn = ctx.func(CHEM, "Equilibrium.as_reactions")
    a = CHEM + ":Equilibrium.as_reactions"
    vals = {}
    for s in walk_shallow(fn):
        if isinstance(s, ast.Assign) and isinstance(s.targets[0], ast.Name):
            vals.setdefault(s.targets[0].id, []).append(s)
    ctx.check([U(x.value) for x in vals.get("nb", [])] == ["sum(self.prod.values())"] and [U(x.value) for x in vals.get("nf", [])] == ["sum(self.reac.values())"], a, "nb-nf",
              "nb/nf must be the active product/reactant coefficient sums; found nb=%s nf=%s" % ([U(x.value) for x in vals.get("nb", [])], [U(x.value) for x in vals.get("nf", [])]), node=fn)
    c0s = sorted(U(x.value) for x in vals.get("c0", []))
    ctx.check(c0s == ["1", "1 * units.molar"], a, "c0", "standard concentration must be 1 (no units) / 1*units.molar; found %s" % c0s, node=fn)
    want_exp = {"nb": F1, "nf": -F1}
    # arms
    kfs = [x for x in vals.get("kf", []) if isinstance(x.value, ast.BinOp)]
    kbs = [x for x in vals.get("kb", []) if isinstance(x.value, ast.BinOp)]
    ok = len(kfs) == 1 and monomial(kfs[0].value) == (F1, {"kb": {"1": F1}, "self.param": {"1": F1}, "c0": want_exp})
    ctx.check(ok, a, "kf=kb*K*c0^(nb-nf)", "with kb given: kf must be kb * K * c0**(nb - nf); found %s" % (mono_str(monomial(kfs[0].value)) if kfs else None), node=kfs[0] if kfs else fn)
    ok = len(kbs) == 1 and monomial(kbs[0].value) == (F1, {"kf": {"1": F1}, "self.param": {"1": -F1}, "c0": {"nb": -F1, "nf": F1}})
    ctx.check(ok, a, "kb=kf/(K*c0^(nb-nf))", "with kf given: kb must be kf / (K * c0**(nb - nf)); found %s" % (mono_str(monomial(kbs[0].value)) if kbs else None), node=kbs[0] if kbs else fn)
    ret = [n for n in walk_shallow(fn) if isinstance(n, ast.Return)][-1]
    ok = isinstance(ret.value, ast.Tuple) and len(ret.value.elts) == 2
    if ok:
        fw, bw = ret.value.elts
        ok = [U(x) for x in fw.args] == ["self.reac", "self.prod", "kf", "self.inact_reac", "self.inact_prod"] and \
            [U(x) for x in bw.args] == ["self.prod", "self.reac", "kb", "self.inact_prod", "self.inact_reac"] and call_name(fw) == call_name(bw) == "Reaction"
    ctx.check(ok, a, "forward-backward-sides", "forward must be Reaction(reac, prod, kf, inact_reac, inact_prod) and backward Reaction(prod, reac, kb, inact_prod, inact_reac)", node=ret)
    # exactly-one-rate guard
    t = U(fn)
    ctx.check(t.count("raise ValueError('Exactly one rate needs to be provided')") == 2, a, "exactly-one-rate", "the exactly-one-rate guards changed", node=fn)


def r5_total(ctx):
    fn = ctx.func(CHEM, "Equilibrium.eliminate")
    a = CHEM + ":Equilibrium.eliminate"
    rs = [c for c in calls_in(fn) if call_name(c) in ("reduce", "functools.reduce")]
    if not rs:
        ctx.holds(a, "no-reduce")
    for c in rs:
        has_init = len(c.args) >= 3 or kwarg(c, "initial") is not None
        nonempty = len(c.args) >= 2 and isinstance(c.args[1], ast.BinOp) and isinstance(c.args[1].op, ast.Add) and (
            (isinstance(c.args[1].left, ast.List) and c.args[1].left.elts) or (isinstance(c.args[1].right, ast.List) and c.args[1].right.elts))
        ctx.check(has_init or nonempty, a, "reduce-initialiser",
                  "reduce() without initialiser over a possibly empty iterable: eliminate([A=B, B=C], 'B') has coefficients +-1, no prime factors, and raises TypeError",
                  node=c, call=U(c))
    # sign flip of the first multiplier and exact division
    t = U(fn)
    ctx.check("viol[0] *= -1" in t and "return [rcd // v for v in viol]" in t, a, "opposite-signs", "the multipliers must be rcd // v with the first coefficient negated", node=fn)
    ctx.check("viol = [r.net_stoich([wrt])[0] for r in rxns]" in t, a, "net-coefficient-of-species", "coefficients must be the net stoichiometry of the eliminated species", node=fn)


def r6_common_multiple(ctx):
    """rcd must be a common multiple of all coefficients: per prime the exponent is the running maximum over all of them"""
    fn = ctx.func(CHEM, "Equilibrium.eliminate")
    a = CHEM + ":Equilibrium.eliminate"
    outer = [lp for lp in for_loops(fn) if U(lp.iter) == "viol"]
    ok = len(outer) == 1
    inner = for_loops(outer[0]) if ok else []
    ok = ok and len(inner) == 1 and isinstance(inner[0].iter, ast.Call) and call_name(inner[0].iter) == "sympy.primefactors" and U(inner[0].iter.args[0]) == U(outer[0].target)
    ctx.check(ok, a, "all-coefficients-all-primes", "the exponent table must be built from every prime factor of every coefficient", node=fn)
    stores = subscript_stores(fn.body, "factors")
    other = [c for c in calls_in(fn) if isinstance(c.func, ast.Attribute) and U(c.func.value) == "factors" and c.func.attr in ("update", "setdefault", "pop", "clear")]
    good = bool(stores) and not other
    for u in stores:
        v = u.value
        if not (u.kind == "=" and isinstance(v, ast.Call) and call_name(v) == "max" and len(v.args) == 2 and any(U(x) == "factors[%s]" % U(u.key) for x in v.args)):
            good = False
    ctx.check(good, a, "running-maximum", "each prime's exponent must be the running maximum `factors[f] = max(factors[f], ...)` over all coefficients; a later coefficient must not overwrite a larger "
              "earlier requirement (rcd would no longer be a common multiple and rcd // v truncates): %s" % ([U(u.stmt) for u in stores] + [U(c) for c in other]), node=stores[0].stmt if stores else fn)
    ctx.check(has(fn, "rcd = reduce(mul, (k ** v for k, v in factors.items()), 1)"), a, "product-over-all-primes", "rcd must be the product of prime ** exponent over the whole table", node=fn)
    if ok and stores:
        coef, prime = U(outer[0].target), U(inner[0].target)
        want = "sympy.Abs(%s // %s)" % (coef, prime)
        for u in stores:
            v = u.value
            others = [x for x in v.args if U(x) != "factors[%s]" % U(u.key)] if isinstance(v, ast.Call) and len(v.args) == 2 else []
            ctx.check(len(others) == 1 and same(others[0], want, scope=fn), a, "exponent>=multiplicity", "the exponent requested for prime %s by coefficient %s must be |%s // %s| (at least the multiplicity of the prime in the coefficient); found %s"
                      % (prime, coef, coef, prime, U(others[0]) if others else U(v)), node=u.stmt)


def sweep_reduce(ctx):
    n = 0
    for m in ctx.repo.all_modules():
        for q, fn in m.functions.items():
            for c in calls_in(fn):
                if call_name(c) in ("reduce", "functools.reduce") and len(c.args) == 2 and kwarg(c, "initial") is None:
                    n += 1
                    arg = c.args[1]
                    safe = isinstance(arg, ast.BinOp) and isinstance(arg.op, ast.Add) and any(isinstance(x, ast.List) and x.elts for x in (arg.left, arg.right))
                    if not safe and not (m.rel == CHEM and q == "Equilibrium.eliminate"):
                        ctx.note("%s:%d %s: reduce() without initialiser over `%s` (outside C11's anchors)" % (m.rel, c.lineno, q, U(arg)[:60]))
    ctx.holds("chempy/**", "reduce-sweep", sites=n)


def r7_arms(ctx):
    """which arm runs: integer test of the multiplier, None-constants in addition, which of kf/kb is derived"""
    def chk(q, frag, key, msg):
        fn = ctx.func(CHEM, q)
        ctx.check(has(fn, frag), CHEM + ":" + q, key, msg + " (expected `%s`)" % frag, node=fn)

    q = "Equilibrium.__rmul__"
    chk(q, "if not other_is_int or not isinstance(self, Equilibrium): return NotImplemented", "non-integer-refused", "a non-integer multiplier must be refused (K**n with truncated stoichiometry would be inconsistent)")
    chk(q, "try: other_is_int = other.is_integer except AttributeError: other_is_int = isinstance(other, int)", "integer-test", "symbolic multipliers report .is_integer, plain ones must be int")
    fn = ctx.func(CHEM, q)
    neg = [i for i in walk_shallow(fn) if isinstance(i, ast.If) and U(i.test) in ("other < 0", "0 > other")]
    ok = len(neg) == 1
    if ok:
        b = [U(x).replace(" ", "") for x in neg[0].body]
        o = [U(x).replace(" ", "") for x in neg[0].orelse]
        ok = "flip=True" in b and o == ["flip=False"] and any(x in b for x in ("other*=-1", "other=-other", "other=-1*other", "other=abs(other)", "other=other*-1"))
    ctx.check(ok, CHEM + ":" + q, "flip-iff-negative", "a negative multiplier is made positive and flips the sides; a non-negative one does neither", node=fn)
    chk(q, "if flip: reac, prod = (prod, reac) inact_reac, inact_prod = (inact_prod, inact_reac)", "both-pairs-flipped", "active and inactive sides are swapped together")
    q = "Equilibrium.__add__"
    chk(q, "if (self.param, other.param) == (None, None): param = None else: param = self.param * other.param", "constant-product-unless-both-missing", "the constant of a sum is the product unless neither operand has one")
    chk(q, "if n < 0: reac[key] = -n elif n > 0: prod[key] = n", "netted-sides", "a negative net amount is a reactant with the positive coefficient, a positive one a product, zero is dropped")
    chk(q, "for key in chain(self.reac.keys(), self.prod.keys(), other.reac.keys(), other.prod.keys()): keys.add(key)", "all-keys", "every species of both operands is considered")
    chk(q, "return Equilibrium(reac, prod, param)", "result(reac,prod,K)", "the result is built from (reactants, products, constant) in that order")
    q = "Equilibrium.as_reactions"
    fn = ctx.func(CHEM, q)
    top = [i for i in fn.body if isinstance(i, ast.If) and U(i.test) == "kf is None"]
    ok = len(top) == 1
    if ok:
        t = top[0]
        inner = [i for i in t.body if isinstance(i, ast.If) and U(i.test) == "kb is None"]
        ok = len(inner) == 1 and any(isinstance(x, ast.Try) for x in inner[0].body) and len(inner[0].orelse) == 1 and isinstance(inner[0].orelse[0], ast.Assign) \
            and U(inner[0].orelse[0].targets[0]) == "kf"
        e = t.orelse
        ok = ok and len(e) == 1 and isinstance(e[0], ast.If) and U(e[0].test) == "kb is None" and any(isinstance(x, ast.Assign) and U(x.targets[0]) == "kb" for x in e[0].body) \
            and len(e[0].orelse) == 1 and isinstance(e[0].orelse[0], ast.Raise)
    ctx.check(ok, CHEM + ":" + q, "derive-the-missing-rate", "kf missing: derive kf from kb (or take the pair); kb missing: derive kb from kf; both given: refuse", node=fn)
    chk(q, "try: kf, kb = self.param except TypeError: raise ValueError(", "neither-given->pair-param", "with neither given the parameter must itself be a (kf, kb) pair")
    chk(q, "if units is None: if hasattr(kf, 'units') or hasattr(kb, 'units'): raise ValueError('units missing') c0 = 1 else: c0 = 1 * units.molar", "standard-concentration",
        "the standard concentration is 1 (no units) or 1 molar; unit-carrying rates without a units module are refused")
    chk(q, "nb = sum(self.prod.values()) nf = sum(self.reac.values())", "nb,nf", "nb counts products, nf reactants")


RULES = [
    Rule("C11-R1", r1_signed_power, 3, "K ** signed multiplier (reaching definition)"),
    Rule("C11-R2", r2_scale_and_flip, 11, "scaling of all four dicts, flip iff negative, delegating operators"),
    Rule("C11-R3", r3_netted_add, 6, "netted addition and product of constants"),
    Rule("C11-R4", r4_forward_backward, 6, "kf/kb = K*c0^(nb-nf); backward reaction sides"),
    Rule("C11-R5", r5_total, 3, "eliminate total on its domain"),
    Rule("C11-R6", r6_common_multiple, 3, "eliminate: running maximum of prime exponents over all coefficients"),
    Rule("C11-R7", r7_arms, 12, "arm selection in scaling, addition and as_reactions"),
    Rule("C11-S1", sweep_reduce, 1, "package-wide reduce-without-initialiser sweep (notes)", tier="thorough"),
]

MUTANTS = [
    Mutant("power-after-sign-flip", [(CHEM, "        param = None if self.param is None else self.param ** other\n        if other < 0:\n            other *= -1\n            flip = True\n        else:\n            flip = False\n", "        if other < 0:\n            other *= -1\n            flip = True\n        else:\n            flip = False\n        param = None if self.param is None else self.param ** other\n")], "C11-R1", "keeps-sign"),
    Mutant("power-abs", [(CHEM, "self.param ** other", "self.param ** abs(other)")], "C11-R1", "exponent-is"),
    Mutant("inact-not-swapped", [(CHEM, "            reac, prod = prod, reac\n            inact_reac, inact_prod = inact_prod, inact_reac", "            reac, prod = prod, reac")], "C11-R2", "both-pairs"),
    Mutant("inact-prod-unscaled", [(CHEM, "inact_prod = dict(other * ArithmeticDict(int, self.inact_prod))", "inact_prod = dict(ArithmeticDict(int, self.inact_prod))")], "C11-R2", "scaled:inact_prod"),
    Mutant("flip-inverted", [(CHEM, "            other *= -1\n            flip = True\n        else:\n            flip = False", "            other *= -1\n            flip = False\n        else:\n            flip = True")], "C11-R2", "flip-iff"),
    Mutant("sub-adds", [(CHEM, "return self + -1 * other", "return self + 1 * other")], "C11-R2", "delegates"),
    Mutant("add-sign-other-reac", [(CHEM, "                + other.prod.get(key, 0)\n                - other.reac.get(key, 0)", "                + other.prod.get(key, 0)\n                + other.reac.get(key, 0)")], "C11-R3", "net="),
    Mutant("add-places-abs-wrong-side", [(CHEM, "            if n < 0:\n                reac[key] = -n\n            elif n > 0:\n                prod[key] = n", "            if n < 0:\n                prod[key] = -n\n            elif n > 0:\n                reac[key] = n")], "C11-R3", "placement"),
    Mutant("add-K-sum", [(CHEM, "param = self.param * other.param", "param = self.param + other.param")], "C11-R3", "K="),
    Mutant("add-misses-prod-keys", [(CHEM, "            self.reac.keys(), self.prod.keys(), other.reac.keys(), other.prod.keys()", "            self.reac.keys(), self.prod.keys(), other.reac.keys()")], "C11-R3", "union"),
    Mutant("kf-exponent-reversed", [(CHEM, "kf = kb * self.param * c0 ** (nb - nf)", "kf = kb * self.param * c0 ** (nf - nb)")], "C11-R4", "kf="),
    Mutant("kb-multiplies-K", [(CHEM, "kb = kf / (self.param * c0 ** (nb - nf))", "kb = kf * self.param / c0 ** (nb - nf)")], "C11-R4", "kb="),
    Mutant("backward-inact-not-swapped", [(CHEM, "                kb,\n                self.inact_prod,\n                self.inact_reac,", "                kb,\n                self.inact_reac,\n                self.inact_prod,")], "C11-R4", "sides"),
]

MUTANTS.append(Mutant("eliminate-reduce-no-init", [(CHEM, "rcd = reduce(mul, (k ** v for k, v in factors.items()), 1)", "rcd = reduce(mul, (k ** v for k, v in factors.items()))")], "C11-R5", "reduce-initialiser"))

MUTANTS.append(Mutant("eliminate-drops-running-max", [(CHEM, "            for f in sympy.primefactors(v):\n                factors[f] = max(factors[f], sympy.Abs(v // f))", "            factors.update({f: sympy.Abs(v // f) for f in sympy.primefactors(v)})")], "C11-R6", "running-maximum"))
MUTANTS.append(Mutant("eliminate-min", [(CHEM, "factors[f] = max(factors[f], sympy.Abs(v // f))", "factors[f] = min(factors[f], sympy.Abs(v // f))")], "C11-R6", "running-maximum"))

TWINS = [
    Twin("kb-rewritten", [(CHEM, "kb = kf / (self.param * c0 ** (nb - nf))", "kb = kf / self.param / c0 ** (nb - nf)")]),
    Twin("kf-commuted", [(CHEM, "kf = kb * self.param * c0 ** (nb - nf)", "kf = self.param * kb * c0 ** (nb - nf)")]),
    Twin("negate-form", [(CHEM, "            other *= -1\n            flip = True", "            other = -other\n            flip = True")]),
    Twin("add-term-order", [(CHEM, "                self.prod.get(key, 0)\n                - self.reac.get(key, 0)\n                + other.prod.get(key, 0)\n                - other.reac.get(key, 0)", "                self.prod.get(key, 0)\n                + other.prod.get(key, 0)\n                - self.reac.get(key, 0)\n                - other.reac.get(key, 0)")]),
]

# shared rule A2 (name resolution of the analysed code unchanged)
MUTANTS.append(Mutant("override-added-in-subclass", [(CHEM, "    def as_reactions(\n", "    def net_stoich(self, substance_keys):\n        return tuple(0 for _ in substance_keys)\n\n    def as_reactions(\n")], "C11-A2", "new-override"))
MUTANTS.append(Mutant("builtin-shadowed", [(CHEM, "def balance_stoichiometry(", "def sum(seq, start=0):\n    return start\n\n\ndef balance_stoichiometry(")], "C11-A2", "shadows-builtin"))

MUTANTS.append(Mutant("eliminate-multiplicity-swapped", [(CHEM, "factors[f] = max(factors[f], sympy.Abs(v // f))", "factors[f] = max(factors[f], sympy.multiplicity(abs(v), f))")], "C11-R6", "exponent>=multiplicity"))
