"""C12 -- reaction text is read as written; printing and parsing are inverse."""
from __future__ import annotations

import ast

from ..astu import U, has, dotted, walk_shallow, fold, NotLiteral, call_name, calls_in, kwarg, names_in, param_names
from ..cfg import build, find_guards
from ..core import AnalysisError, Mutant, Rule, Twin
from ..idioms import subscript_stores, is_not_in_test, for_loops, target_names, none_default
from ..tables import Undecided, language, parse_regex

ID = "C12"
PARSING = "chempy/util/parsing.py"
CHEM = "chempy/chemistry.py"
RSYS = "chempy/reactionsystem.py"
STR = "chempy/printing/string.py"
PRN = "chempy/printing/printer.py"
ENGINES = ["E0 core", "E1 tables", "E3 cfg"]
TECHNIQUE = "writer/reader token-table agreement, complementarity of comprehension filters, guard dominance on a statement CFG, attribute-table vs constructor comparison (ast)"
CLAIM = ("Decides: the printer's arrows/separators are the tokens the parser splits on; active/inactive term classification "
         "is a partition of the terms; the allowed-key check covers every parsed key and every call forwards the key list; "
         "duplicates accumulate; coefficient/key positions; _all_attr/_cmp_attr agree with the constructor, __eq__, __hash__ and copy; "
         "printer lays out sides and coefficients in stored order."
         ' Arms by token/field count, __eq__ verdicts, coefficient omitted iff exactly 1, skipped lines (R8). Shared rule A1: no swapped same-named arguments at resolved in-package call sites.')
DOES_NOT_DECIDE = "eval of parameters, numeric precision of printed parameters, round trip of inactive groups (excluded by the statement)"
ASSUMPTIONS = ["str.split/strip/re.split semantics"]


def _settings(ctx, rel, cls):
    ds = ctx.mod(rel).class_assign(cls, "_default_settings")
    out = {}
    if isinstance(ds, ast.Call):
        for k in ds.keywords:
            if k.arg:
                try:
                    out[k.arg] = fold(k.value, {})
                except NotLiteral:
                    out[k.arg] = None
    return out


def r1_tokens(ctx):
    base = _settings(ctx, PRN, "Printer")
    st = dict(base)
    st.update(_settings(ctx, STR, "StrPrinter"))
    chem = ctx.mod(CHEM)
    for cls, key in (("Reaction", "Reaction_arrow"), ("Equilibrium", "Equilibrium_arrow")):
        try:
            tok = fold(chem.class_assign(cls, "_str_arrow"), {})
        except NotLiteral:
            raise AnalysisError("%s._str_arrow is not a literal" % cls)
        ctx.check(st.get(key) == tok, STR + ":StrPrinter", "arrow:" + cls,
                  "StrPrinter prints %s with arrow %r but %s.from_string splits on %r" % (cls, st.get(key), cls, tok), printer=st.get(key), parser=tok)
    # Reaction.from_string passes its own arrow and class
    fs = ctx.func(CHEM, "Reaction.from_string")
    cs = [c for c in calls_in(fs) if call_name(c) == "to_reaction"]
    if len(cs) != 1:
        raise AnalysisError("Reaction.from_string: expected one to_reaction call")
    args = [U(a) for a in cs[0].args]
    ctx.check(len(args) >= 4 and args[2] == "cls._str_arrow" and args[3] == "cls", CHEM + ":Reaction.from_string", "own-arrow-and-class",
              "to_reaction must receive (string, substance_keys, cls._str_arrow, cls, ...); found %s" % args, node=cs[0])
    ctx.check(len(args) >= 2 and args[0] == fs.args.args[1].arg and args[1] == "substance_keys", CHEM + ":Reaction.from_string", "keys-forwarded",
              "substance_keys not forwarded to to_reaction: %s" % args, node=cs[0])
    # term separator
    tr = ctx.func(PARSING, "to_reaction")
    splits = [c for c in calls_in(tr) if isinstance(c.func, ast.Attribute) and c.func.attr == "split" and c.args]
    seps = []
    for c in splits:
        try:
            seps.append(fold(c.args[0], {}))
        except NotLiteral:
            seps.append(U(c.args[0]))
    rp = ctx.func(STR, "StrPrinter._Reaction_parts")
    joins = set()
    for c in calls_in(rp):
        if isinstance(c.func, ast.Attribute) and c.func.attr == "join" and isinstance(c.func.value, ast.Call) and c.func.value.args:
            try:
                joins.add(fold(c.func.value.args[0], {}))
            except NotLiteral:
                pass
    ctx.check(len(joins) == 1 and list(joins)[0] in seps, STR + ":StrPrinter._Reaction_parts", "term-separator",
              "printer joins terms with %s; parser splits on %s" % (sorted(joins), seps), printer=sorted(joins), parser=[str(s) for s in seps])
    ctx.check(";" in seps, PARSING + ":to_reaction", "field-separator", "parser no longer splits fields on ';': %s" % seps, node=tr)
    sep = st.get("Reaction_param_separator")
    ctx.check(isinstance(sep, str) and sep.strip() == ";" and sep.startswith(";"), PRN + ":Printer", "param-separator",
              "Reaction_param_separator is %r; the parser splits on ';' and strips" % sep)
    ctx.check("token" in seps, PARSING + ":to_reaction", "split-on-token", "the stoichiometry is not split on the arrow token", node=tr)
    # whitespace around the arrow is stripped by the reader
    aa = st.get("Reaction_around_arrow")
    strips = any(isinstance(c.func, ast.Attribute) and c.func.attr == "strip" for c in calls_in(tr))
    ctx.check(isinstance(aa, tuple) and all(isinstance(x, str) and x.strip() == "" for x in aa) and strips, PARSING + ":to_reaction", "around-arrow",
              "printer surrounds the arrow with %r; parser must strip terms" % (aa,), node=tr)
    # coefficient separator
    pm = ctx.func(PARSING, "_parse_multiplicity")
    rs = [c for c in calls_in(pm) if call_name(c) == "re.split"]
    if not rs:
        raise AnalysisError("anchor vanished: re.split in _parse_multiplicity")
    try:
        pat = fold(rs[0].args[0], {})
        lang = language(parse_regex(pat))
    except (NotLiteral, Undecided) as e:
        raise AnalysisError("coefficient split pattern undecidable: %s" % e)
    cs_ = st.get("Reaction_coeff_space")
    ctx.check(cs_ in lang and " * " in lang, PARSING + ":_parse_multiplicity", "coeff-separator",
              "printer separates coefficient and key with %r; parser splits on %s (must also accept ' * ')" % (cs_, sorted(lang)), node=rs[0], language=sorted(lang))
    # line separator of systems
    ps = ctx.func(STR, "StrPrinter._print_ReactionSystem")
    rfs = ctx.func(RSYS, "ReactionSystem.from_string")
    wj = any(isinstance(c.func, ast.Attribute) and c.func.attr == "join" and isinstance(c.func.value, ast.Constant) and c.func.value.value == "\n" for c in calls_in(ps))
    rsplit = any(isinstance(c.func, ast.Attribute) and c.func.attr == "split" and c.args and isinstance(c.args[0], ast.Constant) and c.args[0].value == "\n" for c in calls_in(rfs))
    ctx.check(wj and rsplit, RSYS + ":ReactionSystem.from_string", "line-separator", "system printer joins with newline: %s; parser splits on newline: %s" % (wj, rsplit), node=rfs)


def _filters(tr):
    """The comprehension arguments of the _parse_multiplicity calls in to_reaction."""
    out = []
    for c in calls_in(tr):
        if call_name(c) == "_parse_multiplicity" and c.args and isinstance(c.args[0], (ast.ListComp, ast.GeneratorExp)):
            out.append((c, c.args[0]))
    return out


def _neg(a: str, b: str) -> bool:
    return a == "not " + b or a == "not (%s)" % b


def r2_partition(ctx):
    tr = ctx.func(PARSING, "to_reaction")
    a = PARSING + ":to_reaction"
    pmc = [c for c in calls_in(tr) if call_name(c) == "_parse_multiplicity"]
    for c in pmc:
        sk = c.args[1] if len(c.args) > 1 else kwarg(c, "substance_keys")
        ctx.check(sk is not None and U(sk) == "substance_keys", a, "keys-validated:" + U(c.args[0])[:40] if c.args else "keys-validated",
                  "every term list (active and inactive) must be parsed against the given substance_keys; found `%s`" % U(c)[:120], node=c)
    fl = _filters(tr)
    if len(fl) != 2:
        raise AnalysisError("to_reaction: expected two filtered _parse_multiplicity calls, found %d" % len(fl))
    (c1, l1), (c2, l2) = fl
    g1, g2 = l1.generators[0], l2.generators[0]
    same_src = U(g1.iter) == U(g2.iter) and U(g1.target) == U(g2.target)
    ctx.check(same_src, a, "same-term-list", "active and inactive terms are selected from different lists: %s / %s" % (U(g1.iter), U(g2.iter)), node=c1)
    f1 = " and ".join("(%s)" % U(x) if len(g1.ifs) > 1 else U(x) for x in g1.ifs) or "True"
    f2 = " and ".join("(%s)" % U(x) if len(g2.ifs) > 1 else U(x) for x in g2.ifs) or "True"
    compl = _neg(f1, f2) or _neg(f2, f1)
    # alternatively: a guard that raises for terms matched by neither filter
    if not compl:
        remainder_raises = False
        for g in find_guards(tr):
            txt = g.text()
            if "startswith" in txt and "endswith" in txt:
                remainder_raises = True
        compl = remainder_raises
    ctx.check(compl, a, "active-inactive-partition",
              "term filters are not complementary: active `%s`, inactive `%s` -- a term matched by neither (e.g. the key '(NH4)2SO4') is silently dropped" % (f1, f2),
              node=c1, active=f1, inactive=f2)
    # inactive terms lose exactly their enclosing brackets; active terms are kept verbatim
    el1, el2 = U(l1.elt), U(l2.elt)
    v1, v2 = U(g1.target), U(g2.target)
    act_first = not f1.startswith("not ") if False else True
    elts = {el1, el2}
    ctx.check(elts == {v1, "%s[1:-1]" % v2} or elts == {v1, "%s[1:-1].strip()" % v2}, a, "bracket-stripping",
              "terms must be passed verbatim (active) or with exactly the outer brackets removed (inactive); found %s" % sorted(elts), node=c1)
    # the four results reach the constructor in (reac, prod, param, inact_reac=, inact_prod=) order
    ret = [n for n in walk_shallow(tr) if isinstance(n, ast.Return)][-1]
    c = ret.value
    pos = [U(x) for x in c.args]
    ir, ip = kwarg(c, "inact_reac"), kwarg(c, "inact_prod")
    ok = isinstance(c, ast.Call) and U(c.func) == "Cls" and pos[:3] == ["act[0]", "act[1]", "param"] and ir is not None and U(ir) == "inact[0]" \
        and ip is not None and U(ip) == "inact[1]"
    ctx.check(ok, a, "sides-to-constructor", "constructor call is %s; expected Cls(act[0], act[1], param, inact_reac=inact[0], inact_prod=inact[1])" % U(c), node=ret)
    # which list gets which filter
    for call, lst in fl:
        # find the append target
        tgt = None
        for n in walk_shallow(tr):
            if isinstance(n, ast.Call) and isinstance(n.func, ast.Attribute) and n.func.attr == "append" and n.args and n.args[0] is call:
                tgt = U(n.func.value)
        flt = " and ".join(U(x) for x in lst.generators[0].ifs)
        is_inact_filter = "[1:-1]" in U(lst.elt)
        ctx.check(tgt == ("inact" if is_inact_filter else "act"), a, "append-target:" + str(tgt),
                  "terms %s brackets removed are appended to `%s`" % ("with" if is_inact_filter else "without", tgt), node=call)
    # reactant side first: stoich.split(token) order -> act[0] is the left side
    loops = [f for f in for_loops(tr) if any(call_name(c) == "_parse_multiplicity" for c in calls_in(f))]
    ctx.check(len(loops) == 1 and U(loops[0].iter) == "reac_prod", a, "both-sides-in-order", "sides are not processed in written order", node=tr)


def r3_allowed_keys(ctx):
    tr = ctx.func(PARSING, "to_reaction")
    for i, (c, l) in enumerate(_filters(tr)):
        ok = len(c.args) >= 2 and U(c.args[1]) == "substance_keys" or (kwarg(c, "substance_keys") is not None and U(kwarg(c, "substance_keys")) == "substance_keys")
        ctx.check(ok, PARSING + ":to_reaction", "keys-forwarded:%d" % i, "_parse_multiplicity call does not forward substance_keys: %s" % U(c)[:120], node=c)
    pm = ctx.func(PARSING, "_parse_multiplicity")
    a = PARSING + ":_parse_multiplicity"
    # the membership guard
    guards = []
    for g in find_guards(pm):
        tests = g.tests()
        its = g.iters()
        has_none = any(U(t).replace(" ", "") in ("substance_keysisnotNone",) and pol for t, pol in tests)
        notin = [t for t, pol in tests if pol and isinstance(t, ast.Compare) and isinstance(t.ops[0], ast.NotIn) and U(t.comparators[0]) == "substance_keys"]
        if has_none and notin and its:
            guards.append((g, notin[0], its[-1]))
    ret = [n for n in walk_shallow(pm) if isinstance(n, ast.Return)]
    if not ret or not isinstance(ret[-1].value, ast.Name):
        raise AnalysisError("_parse_multiplicity does not return a name")
    res = ret[-1].value.id
    if not guards:
        ctx.violation(a, "membership-guard", "no `raise` for keys not in substance_keys (when a key list is given)", node=pm)
    else:
        g, t, it = guards[0]
        ok = U(it.iter) in (res, "%s.keys()" % res) and U(t.left) == U(it.target)
        ctx.check(ok, a, "membership-guard", "the membership check must range over every key of the result: `for %s in %s: if %s`" % (U(it.target), U(it.iter), U(t)), node=g.stmt)
        # it dominates the return
        cfg = build(pm)
        dom = cfg.must_pass({cfg.node_of(g.outer)}, cfg.node_of(ret[-1]))
        ctx.check(dom, a, "guard-dominates-return", "a path reaches `return %s` without passing the allowed-key check" % res, node=ret[-1])
    # accumulation of duplicates / coefficient-key positions
    ups = subscript_stores(pm.body, res)
    if not ups:
        raise AnalysisError("_parse_multiplicity: no stores into the result")
    for u in ups:
        if u.kind == "=":
            g = u.cond and is_not_in_test(u.cond[0], u.key, res)
            ok = isinstance(u.value, ast.Constant) and u.value.value == 0 and g is not None and g == u.cond[1]
            ctx.check(ok, a, "init-zero:" + U(u.key), "`%s[%s] = %s` must be the guarded zero-initialisation (repeated species are summed)" % (res, U(u.key), U(u.value)), node=u.stmt)
        elif u.kind == "+=":
            key = U(u.key)
            if key == "items[0]":
                ok = isinstance(u.value, ast.Constant) and u.value.value == 1
                ctx.check(ok, a, "bare-key-counts-1", "a bare key must count 1; found += %s" % U(u.value), node=u.stmt)
            elif key == "items[1]":
                nm = {U(n) for n in ast.walk(u.value) if isinstance(n, ast.Subscript)}
                calls = {call_name(c) for c in ast.walk(u.value) if isinstance(c, ast.Call)}
                ok = nm == {"items[0]"} and {"int", "float"} <= calls
                ctx.check(ok, a, "coeff-then-key", "with two items the coefficient is items[0] (int/float) and the key items[1]; found += %s" % U(u.value), node=u.stmt)
            else:
                ctx.violation(a, "unknown-key-position:" + key, "unexpected key expression %s" % key, node=u.stmt)
        else:
            ctx.violation(a, "store-kind:" + u.kind, "result updated with `%s`" % u.kind, node=u.stmt)
    # more than two parts raises
    ok = any(any("len(items)" in U(t) for t, pol in g.tests()) for g in find_guards(pm))
    ctx.check(ok, a, "too-many-parts-raises", "terms with more than two parts must raise", node=pm)
    # ReactionSystem.from_string forwards the key list
    rfs = ctx.func(RSYS, "ReactionSystem.from_string")
    a2 = RSYS + ":ReactionSystem.from_string"
    sk = None
    for n in walk_shallow(rfs):
        if isinstance(n, ast.Assign) and U(n.targets[0]) == "substance_keys":
            sk = n.value
    ok = isinstance(sk, ast.IfExp) and U(sk.orelse) == "substances" and isinstance(sk.body, ast.Constant) and sk.body.value is None \
        and "missing_substances_from_keys" in U(sk.test)
    ctx.check(ok, a2, "keys-or-None", "substance_keys must be `substances` unless missing_substances_from_keys; found %s" % (U(sk) if sk is not None else None), node=rfs)
    cs = [c for c in calls_in(rfs) if isinstance(c.func, ast.Attribute) and c.func.attr == "from_string"]
    ok = len(cs) == 1 and len(cs[0].args) >= 2 and U(cs[0].args[1]) == "substance_keys"
    ctx.check(ok, a2, "keys-forwarded", "per-line from_string does not receive substance_keys", node=rfs)
    # every non-empty, non-comment line is parsed
    comp = [n for n in walk_shallow(rfs) if isinstance(n, ast.ListComp)]
    ok = False
    for lc in comp:
        g = lc.generators[0]
        if "split('\\n')" in U(g.iter):
            conds = " and ".join(U(x) for x in g.ifs)
            ok = "strip() != ''" in conds and "comment_tokens" in conds and "startswith" in conds and len(lc.generators) == 1
    ctx.check(ok, a2, "all-lines-parsed", "only empty and comment lines may be skipped", node=rfs)


def r4_attrs(ctx):
    chem = ctx.mod(CHEM)
    try:
        cmp_attr = tuple(fold(chem.class_assign("Reaction", "_cmp_attr"), {}))
        all_attr = tuple(fold(chem.class_assign("Reaction", "_all_attr"), {"_cmp_attr": cmp_attr}))
    except NotLiteral:
        raise AnalysisError("Reaction._cmp_attr/_all_attr are not literal tables")
    init = ctx.func(CHEM, "Reaction.__init__")
    a = CHEM + ":Reaction"
    params = param_names(init)
    stored = {}
    for n in walk_shallow(init):
        if isinstance(n, ast.Assign) and isinstance(n.targets[0], ast.Attribute) and U(n.targets[0].value) == "self":
            stored[n.targets[0].attr] = n.value
    for name in all_attr:
        ok = name in params and name in stored and name in names_in(stored[name])
        ctx.check(ok, a + ".__init__", "attr:" + name, "_all_attr entry %r must be a constructor parameter stored as self.%s (copy() passes it back by keyword)" % (name, name), node=init)
    ctx.check(set(cmp_attr) <= set(all_attr) and {"reac", "prod", "inact_reac", "inact_prod", "param"} <= set(cmp_attr), a, "cmp-subset",
              "_cmp_attr %s must cover the four stoichiometries and param and be part of _all_attr" % (cmp_attr,))
    # each stoichiometry attribute is built from its own parameter
    for name in ("reac", "prod", "inact_reac", "inact_prod"):
        v = stored.get(name)
        ok = v is not None and (names_in(v) & set(params)) - {"self"} == {name}
        ctx.check(ok, a + ".__init__", "own-param:" + name, "self.%s is built from %s" % (name, U(v) if v is not None else None), node=init)
    eq = ctx.func(CHEM, "Reaction.__eq__")
    loops = for_loops(eq)
    ok = len(loops) == 1 and U(loops[0].iter).endswith("._cmp_attr")
    if ok:
        body = U(loops[0])
        v = target_names(loops[0].target)[0]
        ok = "getattr(lhs, %s) != getattr(rhs, %s)" % (v, v) in body.replace(eq.args.args[0].arg, "lhs").replace(eq.args.args[1].arg, "rhs") and "return False" in body
    ctx.check(ok, a + ".__eq__", "eq-over-cmp-attr", "__eq__ must compare every attribute of _cmp_attr", node=eq)
    hs = ctx.func(CHEM, "Reaction.__hash__")
    lits = None
    for n in ast.walk(hs):
        if isinstance(n, (ast.List, ast.Tuple)) and n.elts and all(isinstance(e, ast.Constant) and isinstance(e.value, str) for e in n.elts):
            lits = [e.value for e in n.elts]
        if isinstance(n, ast.Attribute) and n.attr == "_cmp_attr":
            lits = list(cmp_attr)
    ctx.check(lits is not None and set(lits) <= set(cmp_attr), a + ".__hash__", "hash-subset-of-eq",
              "__hash__ uses %s, which must be a subset of what __eq__ compares %s" % (lits, cmp_attr), node=hs)
    cp = ctx.func(CHEM, "Reaction.copy")
    loops = for_loops(cp)
    ok = len(loops) == 1 and U(loops[0].iter) == "self._all_attr"
    if ok:
        v = target_names(loops[0].target)[0]
        b = U(loops[0])
        ok = ("if %s not in kwargs" % v) in b and ("kwargs[%s] = copy.copy(getattr(self, %s))" % (v, v)) in b
    ctx.check(ok, a + ".copy", "copy-all-attrs", "copy() must pass every _all_attr it was not given", node=cp)
    rets = [n for n in walk_shallow(cp) if isinstance(n, ast.Return)]
    ctx.check(len(rets) == 1 and U(rets[0].value) == "self.__class__(**kwargs)", a + ".copy", "same-class", "copy() must construct self.__class__(**kwargs)", node=cp)


def r5_name_field(ctx):
    pr = ctx.func(STR, "StrPrinter._print_Reaction")
    tr = ctx.func(PARSING, "to_reaction")
    raw = False
    for n in walk_shallow(pr):
        if isinstance(n, ast.If) and "with_name" in U(n.test):
            for b in n.body:
                if isinstance(b, ast.AugAssign) and U(b.value) == "rxn.name":
                    raw = True
    evals = any(call_name(c) == "eval" and "dict(" in U(c) and "parts[2:]" in U(c) for c in calls_in(tr))
    st = ctx.func(CHEM, "Reaction.__str__")
    default_with_name = "with_name=True" in U(st)
    ctx.check(not (raw and evals and default_with_name), STR + ":StrPrinter._print_Reaction", "name-field-roundtrip",
              "str(rxn) appends the bare reaction name as third field, which Reaction.from_string evaluates as dict(<field>): a named reaction does not parse back (NameError)",
              node=pr, printer_raw_name=raw, parser_evals_dict=evals)


def r6_layout(ctx):
    rp = ctx.func(STR, "StrPrinter._Reaction_parts")
    a = STR + ":StrPrinter._Reaction_parts"
    asg = None
    for n in walk_shallow(rp):
        if isinstance(n, ast.Assign) and isinstance(n.targets[0], (ast.Tuple, ast.List)) and len(n.targets[0].elts) == 4 and isinstance(n.value, ast.ListComp):
            asg = n
    if asg is None:
        raise AnalysisError("anchor vanished: 4-way unpack in _Reaction_parts")
    tg = target_names(asg.targets[0])
    outer = asg.value.generators[0]
    src = [U(x) for x in outer.iter.elts] if isinstance(outer.iter, (ast.Tuple, ast.List)) else None
    ctx.check(tg == ["reac", "prod", "i_reac", "i_prod"] and src == ["rxn.reac", "rxn.prod", "rxn.inact_reac", "rxn.inact_prod"], a, "sides-order",
              "sides unpacked as %s from %s" % (tg, src), node=asg)
    inner = asg.value.elt
    ok = isinstance(inner, ast.ListComp)
    if ok:
        g = inner.generators[0]
        kv = target_names(g.target)
        it = U(g.iter)
        ok = len(kv) == 2 and "%s.items()" % U(outer.target) in it and not g.ifs
        e = U(inner.elt)
        ok = ok and ("if %s != 1 else nullstr" % kv[1]) in e and ("coeff_fmt(%s) + space" % kv[1]) in e and ("substances.get(%s, %s)" % (kv[0], kv[0])) in e
        # coefficient precedes the formula
        ok = ok and isinstance(inner.elt, ast.BinOp) and "coeff_fmt" in U(inner.elt.left) and "formula_fmt" in U(inner.elt.right)
    ctx.check(ok, a, "coefficient-then-name", "each term must be (coefficient + space, omitted when 1) followed by the rendered substance, over all items in stored order", node=asg)
    ret = [n for n in walk_shallow(rp) if isinstance(n, ast.Return)][-1]
    ctx.check(U(ret.value) in ("(r_str, ir_str, arrow_str, p_str, ip_str)", "r_str, ir_str, arrow_str, p_str, ip_str"), a, "parts-order", "parts returned as %s" % U(ret.value), node=ret)
    vals = {}
    for n in walk_shallow(rp):
        if isinstance(n, ast.Assign) and isinstance(n.targets[0], ast.Name):
            vals[n.targets[0].id] = U(n.value)
    ctx.check("join(reac)" in vals.get("r_str", "") and "join(prod)" in vals.get("p_str", "") and "join(i_reac)" in vals.get("ir_str", "") and "join(i_prod)" in vals.get("ip_str", ""),
              a, "strings-from-own-side", "side strings are built from the wrong lists: %s" % {k: v[:40] for k, v in vals.items() if k.endswith("_str")}, node=rp)
    ctx.check(vals.get("arrow_str") == "self._get('%s_arrow' % rxn.__class__.__name__, **kwargs)", a, "arrow-by-class", "arrow looked up as %s" % vals.get("arrow_str"), node=rp)
    rs = ctx.func(STR, "StrPrinter._Reaction_str")
    t = U(rs)
    ctx.check("'{}{}%s{}%s{}{}'" in t and "Reaction_around_arrow" in t and "format(*self._Reaction_parts(rxn, **kwargs))" in t, STR + ":StrPrinter._Reaction_str", "format-order",
              "reaction string is not '{}{}%s{}%s{}{}' % around_arrow formatted with the parts in order", node=rs)


def r7_inactive_predicate(ctx):
    """a term is an inactive group iff its *leading* bracket is closed by its *last* character"""
    m = ctx.mod(PARSING)
    tr = ctx.func(PARSING, "to_reaction")
    preds = set()
    for c, l in _filters(tr):
        for t in l.generators[0].ifs:
            for n in ast.walk(t):
                if isinstance(n, ast.Call) and isinstance(n.func, ast.Name):
                    preds.add(n.func.id)
    preds = {p for p in preds if m.has_func(p)}
    if not preds:
        # inline filters: R2 already demands complementarity; the leading-bracket rule cannot be checked structurally
        ctx.holds(PARSING + ":to_reaction", "inline-filters")
        return
    for pn in sorted(preds):
        fn = ctx.func(PARSING, pn)
        a = PARSING + ":" + pn
        arg = fn.args.args[0].arg
        ctx.check(has(fn, "if not (%s.startswith('(') and %s.endswith(')')): return False" % (arg, arg)), a, "needs-both-brackets", "a term that does not both start with '(' and end with ')' is not an inactive group", node=fn)
        loops = [lp for lp in for_loops(fn) if has(lp.iter, "enumerate(%s)" % arg)]
        ok = len(loops) == 1
        if ok:
            lp = loops[0]
            iv, cv = target_names(lp.target)
            ok = has(lp, "if %s == '(': depth += 1 elif %s == ')': depth -= 1" % (cv, cv), scope=fn) and has(lp, "if depth == 0: return %s == len(%s) - 1" % (iv, arg), scope=fn)
        ctx.check(ok, a, "leading-bracket-closes-at-end", "the predicate must track the bracket depth and answer, at the first return to depth 0, whether that position is the last character "
                  "(balanced brackets alone also accept keys such as '(NH4)3(PO4)')", node=fn)
        ctx.check(has(fn, "depth = 0"), a, "depth-starts-at-0", "bracket depth must start at 0", node=fn)
        last = fn.body[-1]
        ctx.check(isinstance(last, ast.Return) and U(last.value) == "False", a, "never-closed->not-a-group", "a term whose leading bracket is never closed is not an inactive group", node=last)


def r8_arms(ctx):
    """which arm runs for which number of tokens/fields; verdict values of __eq__; omitted coefficient is exactly 1"""
    pm = ctx.func(PARSING, "_parse_multiplicity")
    a = PARSING + ":_parse_multiplicity"
    lp = [f for f in for_loops(pm) if "re.split" in U(f.iter)]
    if len(lp) != 1:
        raise AnalysisError("_parse_multiplicity: term loop not found")
    lp = lp[0]
    chain_ = [s_ for s_ in lp.body if isinstance(s_, ast.If)]
    arms = {}
    node = chain_[0] if chain_ else None
    last_else = None
    while isinstance(node, ast.If):
        t = node.test
        if isinstance(t, ast.Compare) and len(t.ops) == 1 and isinstance(t.ops[0], ast.Eq) and U(t.left) == "len(items)" and isinstance(t.comparators[0], ast.Constant):
            arms[t.comparators[0].value] = node.body
        else:
            arms["?" + U(t)] = node.body
        last_else = node.orelse
        node = node.orelse[0] if len(node.orelse) == 1 and isinstance(node.orelse[0], ast.If) else None
    ctx.check(set(arms) == {0, 1, 2}, a, "arms-by-token-count", "terms are handled by their number of tokens: 0 (skip), 1 (key), 2 (coefficient key); found arms %s" % sorted(map(str, arms)), node=lp)
    if set(arms) == {0, 1, 2}:
        ctx.check(len(arms[0]) == 1 and isinstance(arms[0][0], ast.Continue), a, "empty-term-skipped", "an empty term contributes nothing", node=lp)
        u1 = subscript_stores(arms[1], "result")
        ok = [(U(u.key), u.kind, U(u.value)) for u in u1 if u.kind != "="] == [("items[0]", "+=", "1")] and all(u.kind != "=" or (U(u.key) == "items[0]" and U(u.value) == "0") for u in u1)
        ctx.check(ok, a, "bare-key-counts-1", "a bare key adds exactly 1 under that key; found %s" % [(U(u.key), u.kind, U(u.value)) for u in u1], node=lp)
        u2 = subscript_stores(arms[2], "result")
        inc = [u for u in u2 if u.kind != "="]
        ok = len(inc) == 1 and U(inc[0].key) == "items[1]" and inc[0].kind == "+=" and all(u.kind != "=" or (U(u.key) == "items[1]" and U(u.value) == "0") for u in u2)
        if ok:
            v = inc[0].value
            ok = isinstance(v, ast.IfExp) and U(v.body) == "float(items[0])" and U(v.orelse) == "int(items[0])" and isinstance(v.test, ast.BoolOp) and isinstance(v.test.op, ast.Or) \
                and sorted(U(x) for x in v.test.values) == ["'.' in items[0]", "'e' in items[0]"]
        ctx.check(ok, a, "coefficient-then-key", "`n key` adds n (float when written with '.' or 'e', else int) under the key; found %s" % [(U(u.key), u.kind, U(u.value)) for u in u2], node=lp)
        ctx.check(bool(last_else) and isinstance(last_else[-1], ast.Raise), a, "too-many-tokens-refused", "a term with more than two tokens must be refused", node=lp)
    ctx.check(has(lp, "items = [x for x in items if x != '']"), a, "empty-tokens-dropped", "empty tokens from repeated separators are dropped (and only those)", node=lp)
    init = [n for n in pm.body if isinstance(n, ast.Assign) and U(n.targets[0]) == "result"]
    ctx.check(len(init) == 1 and U(init[0].value) in ("{}", "dict()"), a, "starts-empty", "the side starts empty", node=pm)
    tr = ctx.func(PARSING, "to_reaction")
    a = PARSING + ":to_reaction"
    ctx.check(has(tr, "parts = line.rstrip('\\n').split(';')") and has(tr, "stoich = parts[0].strip()"), a, "field0=stoichiometry", "the text before the first ';' is the stoichiometry", node=tr)
    ctx.check(has(tr, "if len(parts) > 1: param = parts[1].strip() else: param = kwargs.pop('param', 'None')"), a, "field1=parameter", "the second field, when present, is the parameter", node=tr)
    ctx.check(has(tr, "if len(parts) > 2: kwargs.update(eval('dict(' + ';'.join(parts[2:]) + '\\n)', globals_ or {}))"), a, "field2+=keywords", "fields from the third on are keyword arguments", node=tr)
    ctx.check(has(tr, "if token not in stoich: raise ValueError("), a, "missing-arrow-refused", "a line without the arrow token is refused", node=tr)
    ctx.check(has(tr, "if param.startswith(\"'\") and param.endswith(\"'\") and (\"'\" not in param[1:-1]):") and has(tr, "param = MassAction(Symbol(unique_keys=(param[1:-1],)))"), a, "quoted-parameter=named",
              "a parameter in single quotes is a named rate constant with the name between the quotes", node=tr)
    ctx.check(has(tr, "param = None if globals_ is False else eval(param, globals_)"), a, "parameter-evaluated", "any other parameter text is evaluated (unless evaluation is switched off)", node=tr)
    d = none_default(tr, "globals_")
    ctx.check(d is not None and U(d) == "get_parsing_context()", a, "default-context", "the evaluation context defaults only when None", node=tr)
    eq = ctx.func(CHEM, "Reaction.__eq__")
    a = CHEM + ":Reaction.__eq__"
    ctx.check(has(eq, "if lhs is rhs: return True"), a, "identical->True", "an object equals itself", node=eq)
    ctx.check(has(eq, "if not isinstance(lhs, Reaction) or not isinstance(rhs, Reaction): return NotImplemented"), a, "foreign->NotImplemented", "comparison with a non-reaction is not decided here", node=eq)
    ctx.check(has(eq, "if getattr(lhs, attr) != getattr(rhs, attr): return False"), a, "different->False", "a differing attribute makes the reactions unequal", node=eq)
    last = eq.body[-1]
    ctx.check(isinstance(last, ast.Return) and U(last.value) == "True", a, "all-equal->True", "reactions whose compared attributes all agree are equal", node=last)
    rp = ctx.func(STR, "StrPrinter._Reaction_parts")
    a = STR + ":StrPrinter._Reaction_parts"
    ctx.check(has(rp, "(coeff_fmt(v) + space if v != 1 else nullstr) + formula_fmt("), a, "coefficient-omitted-iff-1", "a coefficient is left out exactly when it is 1 (the reader supplies 1)", node=rp)
    ctx.check(has(rp, "for k, v in filter(itemgetter(1), d.items())"), a, "zero-entries-not-printed", "entries with coefficient 0 are not printed", node=rp)
    pr = ctx.func(STR, "StrPrinter._print_Reaction")
    a = STR + ":StrPrinter._print_Reaction"
    ctx.check(has(pr, "if self._get('with_param', **kwargs) and rxn.param is not None:"), a, "parameter-printed-iff-present", "the parameter field is printed when asked for and present", node=pr)
    ctx.check(has(pr, "if self._get('with_name', **kwargs) and rxn.name is not None:"), a, "name-printed-iff-present", "the name field is printed when asked for and present", node=pr)
    fs = ctx.func(RSYS, "ReactionSystem.from_string")
    a = RSYS + ":ReactionSystem.from_string"
    ctx.check(has(fs, "for r in s.split('\\n') if r.strip() != '' and (not any((r.strip().startswith(tok) for tok in comment_tokens)))"), a, "blank-and-comment-lines-skipped",
              "exactly the blank lines and the lines starting with a comment token are skipped", node=fs)
    ctx.check(has(fs, "return cls(rxns, substances, **kwargs)"), a, "ctor(rxns,substances)", "the constructor gets (reactions, substances)", node=fs)
    ctx.check(has(fs, "cls._BaseReaction.from_string(r, substance_keys, **rxn_parse_kwargs or {})"), a, "line->reaction", "each kept line is parsed with the allowed keys", node=fs)
    fr = ctx.func(CHEM, "Reaction.from_string")
    ctx.check(has(fr, "return to_reaction(string, substance_keys, cls._str_arrow, cls, globals_, **kwargs)"), CHEM + ":Reaction.from_string", "delegates(line,keys,arrow,cls)",
              "from_string passes (line, allowed keys, its own arrow token, its own class)", node=fr)
    ctx.check(has(fr, "if isinstance(substance_keys, str): if ' ' in substance_keys: substance_keys = substance_keys.split()"), CHEM + ":Reaction.from_string", "keys-string-split",
              "a space separated string of keys is split into keys", node=fr)


RULES = [
    Rule("C12-R1", r1_tokens, 10, "writer/reader token agreement (arrows, term/field/coefficient/line separators)"),
    Rule("C12-R2", r2_partition, 8, "term classification is a partition; sides reach the constructor in written order"),
    Rule("C12-R3", r3_allowed_keys, 10, "allowed-key check covers every key on every path; duplicates accumulate; key list forwarded"),
    Rule("C12-R4", r4_attrs, 16, "_all_attr/_cmp_attr vs constructor, __eq__, __hash__, copy"),
    Rule("C12-R5", r5_name_field, 1, "third printed field parses back"),
    Rule("C12-R6", r6_layout, 6, "printer lays out sides/coefficients in stored order"),
    Rule("C12-R8", r8_arms, 27, "arms by token/field count, __eq__ verdicts, coefficient omitted iff 1, skipped lines"),
    Rule("C12-R7", r7_inactive_predicate, 1, "inactive-group predicate: leading bracket closed by the last character"),
]

MUTANTS = [
    Mutant("equilibrium-arrow-differs", [(STR, 'Equilibrium_arrow="=",', 'Equilibrium_arrow="<=>",')], "C12-R1", "arrow:Equilibrium"),
    Mutant("term-separator-differs", [(PARSING, 'for y in x.split(" + ")]', 'for y in x.split("+")]')], "C12-R1", "term-separator"),
    Mutant("coeff-space-nbsp", [(PRN, 'Reaction_coeff_space=" ",', 'Reaction_coeff_space="\\u00a0",')], "C12-R1", "coeff-separator"),
    Mutant("from-string-wrong-arrow", [(CHEM, "string, substance_keys, cls._str_arrow, cls, globals_, **kwargs", "string, substance_keys, Reaction._str_arrow, cls, globals_, **kwargs")], "C12-R1", "own-arrow"),
    Mutant("sides-swapped", [(PARSING, "        act[0], act[1], param, inact_reac=inact[0], inact_prod=inact[1], **kwargs", "        act[0], act[1], param, inact_reac=inact[1], inact_prod=inact[0], **kwargs")], "C12-R2", "sides-to-constructor"),
    Mutant("inactive-keeps-bracket", [(PARSING, "[x[1:-1] for x in elements if", "[x[1:] for x in elements if")], "C12-R2", ""),
    Mutant("keys-not-forwarded", [(PARSING, '[x for x in elements if not _is_inactive_term(x)], substance_keys', '[x for x in elements if not _is_inactive_term(x)], None')], "C12-R3", "keys-forwarded"),
    Mutant("filters-not-complementary", [(PARSING, '[x for x in elements if not _is_inactive_term(x)], substance_keys', '[x for x in elements if not x.startswith("(")], substance_keys')], "C12-R2", "partition"),
    Mutant("inactive-filter-weaker", [(PARSING, "[x[1:-1] for x in elements if _is_inactive_term(x)]", '[x[1:-1] for x in elements if x.startswith("(")]')], "C12-R2", "partition"),
    Mutant("key-check-first-only", [(PARSING, "        for k in result:\n            if k not in substance_keys:", "        for k in list(result)[:1]:\n            if k not in substance_keys:")], "C12-R3", "membership-guard"),
    Mutant("duplicates-overwrite", [(PARSING, "            result[items[0]] += 1", "            result[items[0]] = 1")], "C12-R3", ""),
    Mutant("coeff-key-swapped", [(PARSING, "            if items[1] not in result:\n                result[items[1]] = 0\n            result[items[1]] += (", "            if items[0] not in result:\n                result[items[0]] = 0\n            result[items[0]] += (")], "C12-R3", ""),
    Mutant("rsys-keys-dropped", [(RSYS, "cls._BaseReaction.from_string(r, substance_keys, **(rxn_parse_kwargs or {}))", "cls._BaseReaction.from_string(r, None, **(rxn_parse_kwargs or {}))")], "C12-R3", "keys-forwarded"),
    Mutant("all-attr-loses-ref", [(CHEM, '_all_attr = _cmp_attr + ("name", "ref", "data")', '_all_attr = _cmp_attr + ("name", "reference", "data")')], "C12-R4", "attr:reference"),
    Mutant("cmp-attr-loses-inact", [(CHEM, '_cmp_attr = ("reac", "prod", "param", "inact_reac", "inact_prod")', '_cmp_attr = ("reac", "prod", "param")')], "C12-R4", "cmp-subset"),
    Mutant("init-crosswired", [(CHEM, "self.inact_prod = self._init_stoich(inact_prod)", "self.inact_prod = self._init_stoich(inact_reac)")], "C12-R4", "own-param:inact_prod"),
    Mutant("copy-cmp-only", [(CHEM, "        for k in self._all_attr:\n            if k not in kwargs:", "        for k in self._cmp_attr:\n            if k not in kwargs:")], "C12-R4", "copy-all"),
    Mutant("printer-sides-crossed", [(STR, "for d in (rxn.reac, rxn.prod, rxn.inact_reac, rxn.inact_prod)", "for d in (rxn.prod, rxn.reac, rxn.inact_reac, rxn.inact_prod)")], "C12-R6", "sides-order"),
    Mutant("printer-omits-coeff-2", [(STR, "if v != 1 else nullstr", "if v > 2 else nullstr")], "C12-R6", "coefficient"),
]

MUTANTS.append(Mutant("inactive-predicate-balanced-only", [(PARSING, "            if depth == 0:\n                return idx == len(term) - 1\n    return False", "            if depth < 0:\n                return False\n    return depth == 0")], "C12-R7", "leading-bracket"))

MUTANTS.append(Mutant("inactive-keys-not-validated", [(PARSING, "                [x[1:-1] for x in elements if _is_inactive_term(x)],\n                substance_keys,\n", "                [x[1:-1] for x in elements if _is_inactive_term(x)],\n")], "C12-R2", "keys-validated"))

TWINS = [
    Twin("param-sep-no-space", [(PRN, 'Reaction_param_separator="; ",', 'Reaction_param_separator=";",')]),
    Twin("filters-inline", [(PARSING, '[x for x in elements if not _is_inactive_term(x)], substance_keys', '[x for x in elements if not (_is_inactive_term(x))], substance_keys')]),
]
