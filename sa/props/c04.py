"""C04 -- generated ODE system is the kinetic model (alignment / plumbing clauses)."""
from __future__ import annotations

import ast

from ..astu import U, has, walk_shallow, call_name, calls_in, kwarg, names_in
from ..core import AnalysisError, Mutant, Rule, Twin
from ..idioms import for_loops, target_names, none_default

ID = "C04"
ODE = "chempy/kinetics/ode.py"
CHEM = "chempy/chemistry.py"
RSYS = "chempy/reactionsystem.py"
ENGINES = ["E0 core", "E5 siblings"]
TECHNIQUE = "def-use and order-preservation analysis of the rate-expression list, name/symbol lists and parameter/unit lists; sibling-closure fact comparison (ast)"
CLAIM = ("Decides: every definition of the per-reaction rate list is an order-preserving map over the reactions and is what dydt and "
         "reaction_rates consume; dependent-variable names, symbols and expressions iterate rsys.substances in one order; the two closures "
         "perform the same ordered writes to `variables`; parameter names and units pick the same include_params arm; unique keys are "
         "registered with their own argument index; both builders hand the composition vectors to linear_invariants."
         ' Configuration switches of both builders select the intended arms (R6). Shared rule A1: no swapped same-named arguments at resolved in-package call sites.')
DOES_NOT_DECIDE = "the symbolic identity RHS = N^T r (translation validation, another technique family); pyodesys internals"
ASSUMPTIONS = ["pyodesys SymbolicSys.from_callback(dep_by_name, par_by_name) pairs names with values as documented"]


def _order_preserving_listcomp(node, sources):
    return isinstance(node, ast.ListComp) and len(node.generators) == 1 and not node.generators[0].ifs and U(node.generators[0].iter) in sources


def _append_loop_lists(fn, sources):
    """names of lists built as  x = []; for e in <source>: ...; x.append(<f(e)>)  (one unconditional append per iteration)"""
    out = {}
    for lp in for_loops(fn):
        if U(lp.iter) not in sources:
            continue
        apps = [s for s in lp.body if isinstance(s, ast.Expr) and isinstance(s.value, ast.Call) and isinstance(s.value.func, ast.Attribute) and s.value.func.attr == "append"]
        nested = [c for c in calls_in(lp) if isinstance(c.func, ast.Attribute) and c.func.attr in ("append", "insert", "extend", "pop", "remove", "sort", "reverse")]
        if len(apps) == 1 and len(nested) == 1 and not any(isinstance(x, (ast.Break, ast.Continue, ast.If)) for x in walk_shallow(lp)):
            out[U(apps[0].value.func.value)] = lp
    return out


def r1_rate_list(ctx):
    fn = ctx.func(ODE, "get_odesys")
    a = ODE + ":get_odesys"
    defs = [n for n in walk_shallow(fn) if isinstance(n, ast.Assign) and any(U(t) == "r_exprs" for t in n.targets)]
    if not defs:
        raise AnalysisError("get_odesys: r_exprs is never defined")
    built = _append_loop_lists(fn, {"r_exprs", "rsys.rxns"})
    for i, d in enumerate(defs):
        v = d.value
        ok = _order_preserving_listcomp(v, {"rsys.rxns", "r_exprs"}) or (isinstance(v, ast.Name) and v.id in built)
        if ok and isinstance(v, ast.ListComp) and U(v.generators[0].iter) == "rsys.rxns":
            ok = U(v.elt) == "%s.rate_expr()" % U(v.generators[0].target)
        ctx.check(ok, a, "r_exprs-def-%d" % i, "definition `%s` of r_exprs is not an order-preserving map over the reactions (no filter/sort/slice allowed)" % U(d)[:100], node=d)
        if isinstance(v, ast.Name) and v.id in built:
            lp = built[v.id]
            app = [s for s in lp.body if isinstance(s, ast.Expr)][0].value
            # appended element derives from the loop variable through dedimensionalisation
            src = None
            for s in lp.body:
                if isinstance(s, ast.Assign) and isinstance(s.value, ast.Call) and U(s.value.func) == "%s.dedimensionalisation" % U(lp.target):
                    tn = target_names(s.targets[0])
                    src = tn[1] if len(tn) == 2 else None
            ctx.check(src is not None and U(app.args[0]) == src, a, "dedimensionalised-element", "the element appended (%s) is not the dedimensionalised rate expression of the same reaction" % U(app.args[0]), node=lp)
    # no other mutation of r_exprs
    muts = [c for c in ast.walk(fn) if isinstance(c, ast.Call) and isinstance(c.func, ast.Attribute) and U(c.func.value) == "r_exprs" and c.func.attr in ("sort", "reverse", "pop", "insert", "remove", "append", "extend")]
    ctx.check(not muts, a, "r_exprs-not-mutated", "r_exprs is mutated in place: %s" % [U(m) for m in muts], node=fn)
    # consumers
    dy = ctx.func(ODE, "get_odesys.dydt")
    ret = [n for n in walk_shallow(dy) if isinstance(n, ast.Return)][-1]
    c = ret.value
    ok = isinstance(c, ast.Call) and call_name(c) == "rsys.rates" and U(c.args[0]) == "variables" and kwarg(c, "ratexs") is not None and U(kwarg(c, "ratexs")) == "r_exprs" \
        and kwarg(c, "backend") is not None and U(kwarg(c, "backend")) == "backend" and kwarg(c, "cstr_fr_fc") is not None and U(kwarg(c, "cstr_fr_fc")) == "cstr_fr_fc"
    ctx.check(ok, a + ".dydt", "rates(ratexs=r_exprs)", "dydt must return rsys.rates(variables, backend=backend, ratexs=r_exprs, cstr_fr_fc=cstr_fr_fc); found %s" % U(c), node=ret)
    rr = ctx.func(ODE, "get_odesys.reaction_rates")
    ret = [n for n in walk_shallow(rr) if isinstance(n, ast.Return)][-1]
    v = ret.value
    ok = isinstance(v, ast.ListComp) and U(v.generators[0].iter) == "zip(rsys.rxns, r_exprs)" and not v.generators[0].ifs
    if ok:
        rx, ra = target_names(v.generators[0].target)
        ok = U(v.elt) == "%s(variables, backend=backend, reaction=%s)" % (ra, rx)
    ctx.check(ok, a + ".reaction_rates", "zip(rxns,r_exprs)", "reaction_rates must evaluate ratex(variables, backend=backend, reaction=rxn) over zip(rsys.rxns, r_exprs)", node=ret)
    # every substance of a reaction receives its contribution: the default key list is all four dicts
    rt = ctx.func(CHEM, "Reaction.rate")
    dk = None
    for n in walk_shallow(rt):
        if isinstance(n, ast.If) and U(n.test) == "substance_keys is None" and isinstance(n.body[0], ast.Assign):
            dk = n.body[0].value
    ctx.check(dk is not None and U(dk) == "self.keys()", CHEM + ":Reaction.rate", "default-keys=all-species",
              "without explicit keys Reaction.rate must report every species of the reaction (self.keys(): active and inactive, both sides); found %s" % (U(dk) if dk is not None else None), node=rt)
    rs = ctx.func(RSYS, "ReactionSystem.rates")
    ok = any(isinstance(c, ast.Call) and isinstance(c.func, ast.Attribute) and c.func.attr == "rate" and [U(x) for x in c.args] == ["variables", "backend", "substance_keys"] and kwarg(c, "ratex") is not None
             for c in calls_in(rs))
    ctx.check(ok, RSYS + ":ReactionSystem.rates", "per-reaction-rate-call", "ReactionSystem.rates must call rxn.rate(variables, backend, substance_keys, ratex=ratex)", node=rs)
    # unique-key registration walks the same pairing
    ok = False
    for lp in for_loops(fn):
        if U(lp.iter) == "zip(rsys.rxns, r_exprs)":
            rx, ra = target_names(lp.target)
            ok = any(call_name(c) == "_reg_unique" and [U(x) for x in c.args] == [ra, rx] for c in calls_in(lp))
    ctx.check(ok, a, "reg-unique-paired", "_reg_unique must be called as _reg_unique(ratex, rxn) over zip(rsys.rxns, r_exprs)", node=fn)


def r2_names_order(ctx):
    fn = ctx.func(ODE, "get_odesys")
    a = ODE + ":get_odesys"
    vals = {}
    for n in walk_shallow(fn):
        if isinstance(n, ast.Assign) and isinstance(n.targets[0], ast.Name):
            vals.setdefault(n.targets[0].id, []).append(n.value)
    nm = vals.get("names", [])
    ok = len(nm) == 1 and _order_preserving_listcomp(nm[0], {"rsys.substances.values()"}) and U(nm[0].elt) == "%s.name" % U(nm[0].generators[0].target)
    ctx.check(ok, a, "names-in-substance-order", "names must be [s.name for s in rsys.substances.values()]; found %s" % [U(x) for x in nm], node=fn)
    fc = [c for c in ast.walk(fn) if isinstance(c, ast.Call) and call_name(c) == "SymbolicSys.from_callback"]
    if len(fc) != 1:
        raise AnalysisError("get_odesys: SymbolicSys.from_callback call not found")
    c = fc[0]
    ctx.check(U(c.args[0]) == "dydt", a, "rhs-is-dydt", "right-hand side callback is %s" % U(c.args[0]), node=c)
    for kw, want in (("names", "names"), ("param_names", "param_names_for_odesys")):
        v = kwarg(c, kw)
        ctx.check(v is not None and U(v) == want, a, "kw:" + kw, "%s= receives %s, expected %s" % (kw, U(v) if v is not None else None, want), node=c)
    for kw in ("dep_by_name", "par_by_name"):
        v = kwarg(c, kw)
        ctx.check(isinstance(v, ast.Constant) and v.value is True, a, "kw:" + kw, "%s must be True (values are paired with names)" % kw, node=c)
    # symbolic rate expressions: names<->dep and param_names<->params
    sr = vals.get("symbolic_ratexs", [])
    ok = len(sr) == 1 and isinstance(sr[0], ast.Call) and call_name(sr[0]) == "reaction_rates"
    if ok:
        args = [U(x) for x in sr[0].args]
        ok = args == ["odesys.indep", "dict(zip(odesys.names, odesys.dep))", "dict(zip(odesys.param_names, odesys.params))"]
    ctx.check(ok, a, "rate_exprs_cb-pairing", "reaction_rates must be evaluated with t=indep, names zipped with dep and param_names zipped with params", node=fn)
    # alternative builder
    fn = ctx.func(ODE, "_create_odesys")
    a = ODE + ":_create_odesys"
    cs = [c for c in ast.walk(fn) if isinstance(c, ast.Call) and call_name(c) == "SymbolicSys"]
    if len(cs) != 1:
        raise AnalysisError("_create_odesys: SymbolicSys(...) call not found")
    c = cs[0]
    z = c.args[0]
    ok = isinstance(z, ast.Call) and call_name(z) == "zip" and len(z.args) == 2 and all(isinstance(x, ast.ListComp) for x in z.args)
    if ok:
        l1, l2 = z.args
        ok = U(l1.generators[0].iter) == U(l2.generators[0].iter) == "rsys.substances" and not l1.generators[0].ifs and not l2.generators[0].ifs
        k1, k2 = U(l1.generators[0].target), U(l2.generators[0].target)
        ok = ok and U(l1.elt) == "substance_symbols[%s]" % k1 and U(l2.elt) == "rates[%s]" % k2
    ctx.check(ok, a, "symbols-and-exprs-same-order", "dependent symbols and expressions must both iterate rsys.substances: %s" % U(z)[:120], node=c)
    v = kwarg(c, "names")
    ctx.check(v is not None and U(v) == "list(rsys.substances.keys())", a, "names-in-substance-order", "names= %s" % (U(v) if v is not None else None), node=c)
    ctx.check(len(c.args) >= 3 and U(c.args[2]) == "parameter_symbols.values()" and kwarg(c, "param_names") is not None and U(kwarg(c, "param_names")) == "parameter_symbols.keys()",
              a, "params-keys-values-paired", "parameter symbols and names must be values()/keys() of the same OrderedDict", node=c)
    ctx.check(len(c.args) >= 2 and U(c.args[1]) == "symbols['time']", a, "indep-is-time", "independent variable is %s" % (U(c.args[1]) if len(c.args) > 1 else None), node=c)
    vals = {}
    for n in walk_shallow(fn):
        if isinstance(n, ast.Assign) and isinstance(n.targets[0], ast.Name):
            vals[n.targets[0].id] = U(n.value)
    ctx.check(vals.get("rates") == "rsys.rates(varbls, **rates_kw or {})", a, "rates-from-rsys", "rates = %s" % vals.get("rates"), node=fn)
    # the ordered-keys guard
    ok = "list(substance_symbols) != list(rsys.substances)" in U(fn)
    ctx.check(ok, a, "ordered-keys-guard", "substance_symbols ordering guard removed", node=fn)


def _variable_writes(fn):
    """Ordered facts about writes to `variables` in a closure."""
    facts = []

    def rec(stmts, ctxs):
        for s in stmts:
            if isinstance(s, ast.Assign) and any(U(t) == "variables" or (isinstance(t, ast.Subscript) and U(t.value) == "variables") for t in s.targets):
                facts.append((tuple(ctxs), U(s)))
            elif isinstance(s, ast.Expr) and isinstance(s.value, ast.Call) and U(s.value.func).startswith("variables."):
                facts.append((tuple(ctxs), U(s)))
            elif isinstance(s, ast.For):
                rec(s.body, ctxs + ["for %s in %s" % (U(s.target), U(s.iter))])
            elif isinstance(s, ast.If):
                if any(isinstance(x, ast.Raise) for x in s.body):
                    facts.append((tuple(ctxs), "guard " + U(s.test)))
                rec(s.body, ctxs + ["if " + U(s.test)])
                rec(s.orelse, ctxs + ["else " + U(s.test)])
            elif isinstance(s, ast.Assign) and any("act" in target_names(t) for t in s.targets):
                facts.append((tuple(ctxs), U(s)))
    rec(fn.body, [])
    return facts


def r3_sibling_closures(ctx):
    dy = ctx.func(ODE, "get_odesys.dydt")
    rr = ctx.func(ODE, "get_odesys.reaction_rates")
    a = ODE + ":get_odesys.dydt|reaction_rates"
    f1, f2 = _variable_writes(dy), _variable_writes(rr)
    ctx.check(f1 == f2, a, "same-variable-writes", "dydt and reaction_rates build `variables` differently:\n  dydt: %s\n  reaction_rates: %s" % (
        [x for x in f1 if x not in f2], [x for x in f2 if x not in f1]), node=rr, writes=[w[1] for w in f1])
    texts = [w[1] for w in f1]
    want_order = ["variables = dict(chain(y.items(), p.items()))", "guard 'time' in variables", "variables['time'] = t"]
    ctx.check(texts[:3] == want_order, ODE + ":get_odesys.dydt", "y-p-time", "variables must start as y∪p, reject a reserved 'time' key, then bind time = t; found %s" % texts[:3], node=dy)
    ok = len(texts) >= 2 and texts[-1] == "variables.update(_passive_subst)" and any("variables[k] = act(variables, backend=backend)" == t for t in texts)
    ctx.check(ok, ODE + ":get_odesys.dydt", "active-then-passive", "active substitutions must be evaluated on the variables and passive ones applied last; found %s" % texts[3:], node=dy)
    ok = any(w[1] == "_, act = act.dedimensionalisation(unit_registry)" and "if unit_registry is not None and act.args" in w[0][-1] for w in f1)
    ctx.check(ok, ODE + ":get_odesys.dydt", "active-dedimensionalised", "active substitutions must be dedimensionalised iff a registry is given", node=dy)
    for fn, q in ((dy, "dydt"), (rr, "reaction_rates")):
        ps = [x.arg for x in fn.args.args]
        ctx.check(ps[:3] == ["t", "y", "p"], ODE + ":get_odesys." + q, "signature", "closure signature is %s" % ps, node=fn)


def r4_param_units(ctx):
    fn = ctx.func(ODE, "get_odesys")
    a = ODE + ":get_odesys"
    arms = None
    for n in walk_shallow(fn):
        if isinstance(n, ast.If) and U(n.test) == "include_params" and n.orelse:
            b, o = n.body[0], n.orelse[0]
            if isinstance(b, ast.Assign) and U(b.targets[0]) == "param_names_for_odesys":
                arms = (U(b.value), U(o.value))
    ctx.check(arms == ("all_pk", "all_pk_with_unique"), a, "param-names-arms", "param_names_for_odesys arms are %s" % (arms,), node=fn)
    pu = None
    pk = None
    apu = None
    for n in walk_shallow(fn):
        if isinstance(n, ast.Assign) and U(n.targets[0]) == "p_units" and isinstance(n.value, ast.IfExp):
            pu = n.value
        if isinstance(n, ast.Assign) and U(n.targets[0]) == "pk_units":
            pk = n.value
        if isinstance(n, ast.Assign) and U(n.targets[0]) == "all_pk_with_unique":
            apu = n.value
    ok = pu is not None and U(pu.test) == "include_params" and U(pu.body) == "pk_units" and U(pu.orelse).replace("(", "").replace(")", "") == "pk_units + [unique_units[k] for k in unique]"
    ctx.check(ok, a, "p-units-arms", "p_units must be pk_units (params included) / pk_units + units of the unique keys; found %s" % (U(pu) if pu is not None else None), node=fn)
    ok = pk is not None and _order_preserving_listcomp(pk, {"all_pk"}) and U(pk.elt) == "_get_derived_unit(unit_registry, %s)" % U(pk.generators[0].target)
    ctx.check(ok, a, "pk-units-over-all_pk", "pk_units must map all_pk in order; found %s" % (U(pk) if pk is not None else None), node=fn)
    ok = apu is not None and U(apu) == "list(chain(all_pk, filter(lambda k: k not in all_pk, unique.keys())))"
    ctx.check(ok, a, "all_pk_with_unique", "all_pk_with_unique must be all_pk followed by the unique keys; found %s" % (U(apu) if apu is not None else None), node=fn)
    # extra dict reports them
    ret = [n for n in walk_shallow(fn) if isinstance(n, ast.Return)][-1]
    d = ret.value.elts[1] if isinstance(ret.value, ast.Tuple) else None
    ok = isinstance(d, ast.Dict)
    if ok:
        kv = {k.value: U(v) for k, v in zip(d.keys, d.values) if isinstance(k, ast.Constant)}
        ok = kv.get("param_keys") == "all_pk" and kv.get("unique") == "unique" and kv.get("p_units") == "p_units" and kv.get("rate_exprs_cb") == "rate_exprs_cb"
    ctx.check(ok, a, "extra-dict", "the extra dict reports wrong objects", node=ret)
    # unique registration: own index
    ru = ctx.func(ODE, "get_odesys._reg_unique")
    ar = ODE + ":get_odesys._reg_unique"
    n_sites = 0
    for c in calls_in(ru):
        if call_name(c) != "_reg_unique_unit":
            continue
        n_sites += 1
        # enclosing enumerate loop?
        encl = None
        for lp in for_loops(ru):
            if any(x is c for x in ast.walk(lp)) and isinstance(lp.iter, ast.Call) and call_name(lp.iter) == "enumerate":
                encl = lp
        idx = U(c.args[2])
        if encl is None:
            ctx.check(idx == "0", ar, "index:%d" % n_sites, "single-argument MassAction registers index %s, expected 0" % idx, node=c)
        else:
            iv = target_names(encl.target)[0]
            ctx.check(idx == iv, ar, "index:%d" % n_sites, "unique key registered with index %s instead of the loop index %s" % (idx, iv), node=c)
        ctx.check(U(c.args[1]) == "_get_arg_dim(expr, rxn)", ar, "argdim:%d" % n_sites, "argument dimensionality taken from %s" % U(c.args[1]), node=c)
    if n_sites < 4:
        raise AnalysisError("_reg_unique: only %d _reg_unique_unit sites" % n_sites)
    # unique[uk] = arg with uk = expr.unique_keys[idx]
    ok = False
    for lp in for_loops(ru):
        if U(lp.iter) == "enumerate(expr.args)":
            iv, av = target_names(lp.target)
            t = U(lp)
            ok = ("uk = expr.unique_keys[%s]" % iv) in t and ("unique[uk] = %s" % av) in t
    ctx.check(ok, ar, "unique-value-own-arg", "unique[uk] must be the argument at the same index as unique_keys[idx]", node=ru)
    uu = ctx.func(ODE, "get_odesys._reg_unique_unit")
    t = U(uu)
    ctx.check("unit_registry[dim] ** v for dim, v in arg_dim[idx].items()" in t and "reduce(mul, [1] + [" in t, ODE + ":get_odesys._reg_unique_unit", "unit-product",
              "unique unit must be the product of registry[dim]**v over the argument's dimensionality", node=uu)


def r5_invariants(ctx):
    for q in ("get_odesys", "_create_odesys"):
        fn = ctx.func(ODE, q)
        li = None
        for c in ast.walk(fn):
            if isinstance(c, ast.Call) and kwarg(c, "linear_invariants") is not None:
                li = kwarg(c, "linear_invariants")
        src = [n for n in ast.walk(fn) if isinstance(n, ast.Assign) and "compo_vecs" in target_names(n.targets[0])]
        ok = li is not None and "compo_vecs" in names_in(li) and len(src) == 1 and target_names(src[0].targets[0])[0] == "compo_vecs" and U(src[0].value) == "rsys.composition_balance_vectors()"
        ctx.check(ok, ODE + ":" + q, "linear_invariants", "linear_invariants must be the first result of rsys.composition_balance_vectors()", node=fn)


def r6_config_skeleton(ctx):
    """which configuration switch selects which arm: the builders differ between configurations only in which symbols stay free"""
    fn = ctx.func(ODE, "get_odesys")
    a = ODE + ":get_odesys"

    def chk(fragment, key, msg, scope=fn, node=None, anchor=a):
        ctx.check(has(scope, fragment), anchor, key, msg + " (expected `%s`)" % fragment, node=node or scope)

    chk("substitutions = substitutions or {}", "substitutions-kept", "given substitutions must be used, only a missing mapping becomes {}")
    chk("('feedratio', OrderedDict([(sk, 'fc_' + sk) for sk in rsys.substances])) if cstr is True else cstr", "cstr-default",
        "cstr=True means the default feed naming, anything else is taken as the (ratio key, feed map) pair")
    chk("if cstr_fr_fc: _ori_pk.add(cstr_fr_fc[0]) for k in cstr_fr_fc[1].values(): _ori_pk.add(k)", "cstr-keys-are-parameters",
        "the feed-ratio key and every feed-concentration key must become parameter keys")
    chk("if sk not in _ori_pk and sk not in _ori_uk: raise ValueError(", "unknown-substitution-refused", "a substitution for a key that no rate expression uses must be refused")
    chk("if isinstance(sv, Expr): _subst_pk.update(sv.parameter_keys) _active_subst[sk] = sv if not include_params: _reg_unique(sv)", "active-substitution-arm",
        "an Expr substitution is evaluated at run time; its own parameters become parameters and (params free) its unique keys are registered")
    chk("_passive_subst[sk] = sv", "passive-substitution-arm", "a plain value is substituted as is")
    chk("for pk in filter(lambda x: x not in substitutions and x != 'time', _ori_pk.union(_subst_pk)):", "parameter-key-set",
        "parameters are the parameter keys of all rate expressions and substitutions, minus substituted keys and 'time'")
    chk("if hasattr(constants, pk): const = getattr(constants, pk)", "constants-inlined", "keys naming physical constants are bound to the constant")
    chk("_passive_subst[pk] = const else: all_pk.append(pk)", "constant-or-parameter", "a key is either bound to its constant or listed as a free parameter")
    chk("if not include_params: for rxn, ratex in zip(rsys.rxns, r_exprs): _reg_unique(ratex, rxn)", "unique-registered-iff-params-free",
        "rate constants become named free parameters exactly when include_params is false")
    ru = ctx.func(ODE, "get_odesys._reg_unique")
    ar = ODE + ":get_odesys._reg_unique"
    n_guard = 0
    for st in walk_shallow(ru):
        if isinstance(st, ast.Assign) and isinstance(st.targets[0], ast.Subscript) and U(st.targets[0].value) == "unique":
            key = U(st.targets[0].slice)
            par = [i for i in walk_shallow(ru) if isinstance(i, ast.If) and any(x is st for x in i.body)]
            ok = len(par) == 1 and U(par[0].test) == "%s not in substitutions" % key
            n_guard += 1
            ctx.check(ok, ar, "unique-unless-substituted:%d" % n_guard, "a unique key is registered unless the caller substitutes it; guard is `%s`" % (U(par[0].test) if par else None), node=st)
    if n_guard < 4:
        raise AnalysisError("_reg_unique: only %d stores into `unique`" % n_guard)
    chk("if not isinstance(expr, Expr): raise NotImplementedError(", "expr-only", "only Expr rate expressions can be registered", scope=ru, anchor=ar)
    chk("if isinstance(arg, Expr): _reg_unique(arg, rxn=rxn) elif expr.unique_keys is not None and idx < len(expr.unique_keys):", "nested-or-own-key",
        "nested expressions are registered recursively, plain arguments under their own unique key when there is one", scope=ru, anchor=ar)
    chk("if expr.args is None: for idx, k in enumerate(expr.unique_keys): if k not in substitutions: unique[k] = None", "argless-keys-free",
        "an expression without stored arguments exposes all its unique keys as free parameters (value None)", scope=ru, anchor=ar)

    # alternative builder
    fn2 = ctx.func(ODE, "_create_odesys")
    a2 = ODE + ":_create_odesys"
    d = none_default(fn2, "substance_symbols")
    ctx.check(d is not None and has(d, "OrderedDict([(key, backend.Symbol(key)) for key in rsys.substances])", scope=fn2), a2, "default-substance-symbols",
              "given symbols are used as given; the default is one symbol per substance key in substance order", node=fn2)
    chk("if isinstance(substance_symbols, OrderedDict): if list(substance_symbols) != list(rsys.substances): raise ValueError(", "symbol-order-checked",
        "ordered symbols must be in substance order", scope=fn2, anchor=a2)
    d = none_default(fn2, "parameter_symbols")
    ctx.check(d is None and has(fn2, "if parameter_symbols is None: keys = []", scope=fn2), a2, "default-parameter-symbols", "parameter symbols are derived only when not given", node=fn2)
    chk("if isinstance(rxnpar, str): if rxnpar in (parameter_expressions or {}): for pk in parameter_expressions[rxnpar].all_parameter_keys(): keys.append(pk) else: keys.append(rxnpar)",
        "named-parameter-arm", "a named rate constant is a parameter unless an expression overrides it (then that expression's parameters are)", scope=fn2, anchor=a2)
    chk("elif isinstance(rxnpar, Expr): keys.extend(rxnpar.all_unique_keys()) for pk in rxnpar.all_parameter_keys(): if pk not in keys: keys.append(pk)",
        "expr-parameter-arm", "an Expr contributes its unique keys and its parameter keys once", scope=fn2, anchor=a2)
    chk("if rates_kw and 'cstr_fr_fc' in rates_kw: flowrate_volume, feed_conc = rates_kw['cstr_fr_fc'] keys.append(flowrate_volume) keys.extend(feed_conc.values())",
        "cstr-keys-are-parameters", "stirred-tank keys are parameters", scope=fn2, anchor=a2)
    chk("if len(keys) != len(set(keys)): raise ValueError(", "duplicate-keys-refused", "duplicate parameter keys must be refused", scope=fn2, anchor=a2)
    chk("parameter_symbols = OrderedDict([(key, backend.Symbol(key)) for key in keys])", "one-symbol-per-key", "one symbol per parameter key, named by the key", scope=fn2, anchor=a2)
    chk("varbls.update(parameter_expressions or {})", "overrides-applied", "parameter expressions override the plain symbols", scope=fn2, anchor=a2)
    chk("rates = rsys.rates(varbls, **(rates_kw or {}))", "rhs-from-rsys.rates", "the right-hand side is rsys.rates on the symbols", scope=fn2, anchor=a2)
    chk("if any(symbols['time'] == v for k, v in symbols.items() if k != 'time'): raise ValueError(", "time-symbol-clash-refused", "a time symbol equal to another symbol must be refused", scope=fn2, anchor=a2)
    cs = [c for c in ast.walk(fn2) if isinstance(c, ast.Call) and call_name(c) == "SymbolicSys"]
    for c in cs:
        for kw in ("dep_by_name", "par_by_name"):
            v = kwarg(c, kw)
            ctx.check(isinstance(v, ast.Constant) and v.value is True, a2, "kw:" + kw, "%s must be True (values are paired with names)" % kw, node=c)


RULES = [
    Rule("C04-R1", r1_rate_list, 9, "rate list aligned with reactions in every definition and consumer"),
    Rule("C04-R2", r2_names_order, 13, "names/symbols/expressions in substance order; name/value pairings"),
    Rule("C04-R3", r3_sibling_closures, 6, "dydt and reaction_rates perform the same ordered writes to variables"),
    Rule("C04-R4", r4_param_units, 14, "parameter names/units arms; unique-key registration index alignment"),
    Rule("C04-R5", r5_invariants, 2, "composition vectors handed to linear_invariants"),
    Rule("C04-R6", r6_config_skeleton, 25, "configuration switches select the intended arms in both builders"),
]

MUTANTS = [
    Mutant("r_exprs-filtered", [(ODE, "r_exprs = [rxn.rate_expr() for rxn in rsys.rxns]", "r_exprs = [rxn.rate_expr() for rxn in rsys.rxns if rxn.param is not None]")], "C04-R1", "r_exprs-def"),
    Mutant("r_exprs-reversed-after-dedim", [(ODE, "        r_exprs = new_r_exprs\n", "        r_exprs = new_r_exprs[::-1]\n")], "C04-R1", "r_exprs-def"),
    Mutant("dedim-appends-original", [(ODE, "new_r_exprs.append(_new_ratex)", "new_r_exprs.append(ratex)")], "C04-R1", "dedimensionalised"),
    Mutant("dydt-drops-ratexs", [(ODE, "variables, backend=backend, ratexs=r_exprs, cstr_fr_fc=cstr_fr_fc", "variables, backend=backend, cstr_fr_fc=cstr_fr_fc")], "C04-R1", "rates("),
    Mutant("names-sorted", [(ODE, "names = [s.name for s in rsys.substances.values()]", "names = sorted(s.name for s in rsys.substances.values())")], "C04-R2", "names-in"),
    Mutant("create-exprs-sorted", [(ODE, "            [rates[key] for key in rsys.substances],", "            [rates[key] for key in sorted(rsys.substances)],")], "C04-R2", "same-order"),
    Mutant("ratecb-params-misnamed", [(ODE, "dict(zip(odesys.param_names, odesys.params)),", "dict(zip(odesys.names, odesys.params)),")], "C04-R2", "rate_exprs_cb"),
    Mutant("reaction-rates-no-passive", [(ODE, "            variables[k] = act(variables, backend=backend)\n        variables.update(_passive_subst)\n        return [", "            variables[k] = act(variables, backend=backend)\n        return [")], "C04-R3", "same-variable"),
    Mutant("passive-before-active", [(ODE, "        variables[\"time\"] = t\n        for k, act in _active_subst.items():\n            if unit_registry is not None and act.args:\n                _, act = act.dedimensionalisation(unit_registry)\n            variables[k] = act(variables, backend=backend)\n        variables.update(_passive_subst)\n        return rsys.rates(", "        variables[\"time\"] = t\n        variables.update(_passive_subst)\n        for k, act in _active_subst.items():\n            if unit_registry is not None and act.args:\n                _, act = act.dedimensionalisation(unit_registry)\n            variables[k] = act(variables, backend=backend)\n        return rsys.rates(")], "C04-R3", ""),
    Mutant("param-names-arms-swapped", [(ODE, "        param_names_for_odesys = all_pk\n    else:\n        param_names_for_odesys = all_pk_with_unique", "        param_names_for_odesys = all_pk_with_unique\n    else:\n        param_names_for_odesys = all_pk")], "C04-R4", "param-names-arms"),
    Mutant("p-units-arms-swapped", [(ODE, "            if include_params\n            else (pk_units + [unique_units[k] for k in unique])", "            if not include_params\n            else (pk_units + [unique_units[k] for k in unique])")], "C04-R4", "p-units"),
    Mutant("unique-index-off", [(ODE, "                        unique[uk] = arg\n                        _reg_unique_unit(uk, _get_arg_dim(expr, rxn), idx)", "                        unique[uk] = arg\n                        _reg_unique_unit(uk, _get_arg_dim(expr, rxn), 0)")], "C04-R4", "index"),
    Mutant("invariants-none", [(ODE, "linear_invariants=None if len(compo_vecs) == 0 else compo_vecs,", "linear_invariants=None,")], "C04-R5", "linear_invariants"),
]

MUTANTS.append(Mutant("rate-default-keys-active-only", [(CHEM, "            substance_keys = self.keys()\n        if ratex is None:", "            substance_keys = set(chain(self.reac.keys(), self.prod.keys()))\n        if ratex is None:")], "C04-R1", "default-keys"))

TWINS = [
    Twin("extra-debug-in-one-closure", [(ODE, "        variables.update(_passive_subst)\n        return [", "        variables.update(_passive_subst)\n        _n = len(variables)\n        return [")]),
    Twin("names-via-keys-same-order", []),
]
TWINS = TWINS[:1]
