"""C16 -- rate-constant models equal their formulas under every backend."""
from __future__ import annotations

import ast
from fractions import Fraction

from ..astu import U, S, has, same, walk_shallow, call_name, calls_in, kwarg, linform, lin_str, monomial, mono_str, param_names, fold, NotLiteral, names_in
from ..core import AnalysisError, Mutant, Rule, Twin
from ..dims import V, opaque, mk_dim, dim_str, units_ns, constants_ns, si_value, lx_const
from ..dimrun import run
from ..idioms import target_names
from ..tables import CODATA

ID = "C16"
EXPR = "chempy/util/_expr.py"
RATES = "chempy/kinetics/rates.py"
RATES2 = "chempy/kinetics/_rates.py"
ARR = "chempy/kinetics/arrhenius.py"
EYR = "chempy/kinetics/eyring.py"
THERMO = "chempy/thermodynamics/expressions.py"
FILES = [EXPR, RATES, RATES2, ARR, EYR, THERMO]
ENGINES = ["E0 core", "E2 dims", "E4 linform", "E5 siblings"]
TECHNIQUE = "call-site rule (backend threading) over all functions with a backend parameter; units-of-measure abstract interpretation of the Arrhenius/Eyring formulas in both constant modes; monomial comparison of the inverse pair; operator-table sibling comparison (ast)"
CLAIM = ("Decides: inside every function that receives a backend, nested evaluations receive that backend and no transcendental is taken from "
         "math/numpy directly; arrhenius_equation/eyring_equation have dimensionless exponent arguments and the stated result dimension in "
         "both constant modes with hard-coded R and kB/h within 1e-4 of CODATA and every units attribute existing; from_rateconst_at_T uses "
         "the negated exponent of arrhenius_equation; positional arguments handed to Arrhenius/Eyring match argument_names; Expr.arg uses "
         "one index for unique key, argument and default; the operator overloads build the matching binary node with operands in order."
         ' Identity-element short-cuts of the operators, RT on both arms, radiolytic / ramp / sinusoid formulas, create_Poly arms. Shared rule A1: no swapped same-named arguments at resolved in-package call sites.')
DOES_NOT_DECIDE = "numerical agreement between backends, create_Poly/create_Piecewise arithmetic, curve fitting"
ASSUMPTIONS = ["`quantities` unit/constant tables (typing environment)", "operator.add/sub/mul/truediv/pow semantics"]
F1 = Fraction(1)

NESTED = {"all_args": 1, "arg": 2, "all_params": 1, "rate_coeff": 1, "active_conc_prod": 1, "eq_const": 1}
DIRECT_MATH = {"exp", "log", "log10", "sqrt", "sin", "cos", "tanh", "log2", "expm1", "log1p"}
# functions that are numpy-only by documentation (fitting helpers) -- one line each
EXEMPT = {
    (ARR, "_fit_arrhenius_equation"): "deprecated numpy/scipy fitting helper, no backend parameter semantics",
}


def _passes_backend(c: ast.Call, pos: int) -> bool:
    k = kwarg(c, "backend")
    if k is not None:
        return U(k) in ("backend", "be", "self.backend") or "backend" in names_in(k)
    if len(c.args) > pos and U(c.args[pos]) == "backend":
        return True
    return False


def r1_backend_threading(ctx):
    n = 0
    for rel in FILES:
        m = ctx.mod(rel)
        for q, fn in m.functions.items():
            if (rel, q) in EXEMPT:
                continue
            ps = param_names(fn)
            if "backend" not in ps:
                continue
            a = "%s:%s" % (rel, q)
            ctx.functions_seen.add(a)
            for c in calls_in(fn):
                if isinstance(c.func, ast.Attribute) and c.func.attr in NESTED and not isinstance(c.func.value, ast.Call):
                    star = any(isinstance(x, ast.Starred) for x in c.args) and any(k.arg is None for k in c.keywords)
                    ok = _passes_backend(c, NESTED[c.func.attr]) or (star and len(c.args) == 1)
                    n += 1
                    ctx.check(ok, a, "nested:%s" % S(c)[:70], "`%s` evaluates nested expressions without the backend it was given (they fall back to `math`)" % U(c)[:100], node=c)
                elif isinstance(c.func, ast.Name) and c.args and any(isinstance(x, ast.Name) and x.id == "variables" for x in c.args) and c.func.id not in ("dict", "isinstance", "defaultkeydict", "len"):
                    ok = _passes_backend(c, 99)
                    n += 1
                    ctx.check(ok, a, "call-with-variables:%s" % S(c)[:70], "`%s` is evaluated on the variables without the backend" % U(c)[:100], node=c)
                nm = call_name(c) or ""
                if nm.split(".")[0] in ("math", "np", "numpy") and nm.split(".")[-1] in DIRECT_MATH:
                    n += 1
                    ctx.violation(a, "direct-math:%s" % nm, "`%s` bypasses the backend parameter" % U(c)[:80], node=c)
    if n < 25:
        raise AnalysisError("backend threading: only %d call sites found" % n)
    # the nested Expr call inside Expr.arg and all_params
    arg = ctx.func(EXPR, "Expr.arg")
    ctx.check(has(arg, "return res(variables, backend=backend, **kwargs)"), EXPR + ":Expr.arg", "nested-expr-evaluated-with-backend", "a nested Expr argument must be evaluated with the same backend", node=arg)
    ap = ctx.func(EXPR, "Expr.all_params")
    ctx.check(has(ap, "v(variables, backend=backend) if isinstance(v, Expr) else v"), EXPR + ":Expr.all_params", "nested-param-evaluated-with-backend", "Expr-valued parameters must be evaluated with the same backend", node=ap)
    aa = ctx.func(EXPR, "Expr.all_args")
    ctx.check(has(aa, "self.arg(variables, i, backend, evaluate, **kwargs) for i in range(nargs)"), EXPR + ":Expr.all_args", "all-args-in-order", "all_args must evaluate arguments 0..nargs-1 in order with the backend", node=aa)


ENERGY_PER_AMOUNT = mk_dim(M=1, L=2, T=-2, N=-1)
ENTROPY_PER_AMOUNT = mk_dim(M=1, L=2, T=-2, N=-1, K=-1)
RATE1 = mk_dim(T=-1)
BAD = ("inhomogeneous", "transcendental", "dimensional-exponent", "missing-attribute", "rescale-mismatch", "to_unitless-mismatch")


def r2_formula_dims(ctx):
    units_v = units_ns(ctx.repo)
    consts_v = constants_ns()
    T = opaque(mk_dim(K=1), "T")
    table = [
        (ARR, "arrhenius_equation", dict(A=opaque(RATE1, "A"), Ea=opaque(ENERGY_PER_AMOUNT, "Ea"), T=T), RATE1),
        (EYR, "eyring_equation", dict(dH=opaque(ENERGY_PER_AMOUNT, "dH"), dS=opaque(ENTROPY_PER_AMOUNT, "dS"), T=T), RATE1),
        (ARR, "_get_R", {}, ENTROPY_PER_AMOUNT),
        (EYR, "_get_kB_over_h", {}, mk_dim(T=-1, K=-1)),
    ]
    codata = {"_get_R": CODATA["R"], "_get_kB_over_h": CODATA["kB_over_h"]}
    for rel, name, spec, expect in table:
        fn = ctx.func(rel, name)
        a = "%s:%s" % (rel, name)
        rets = {}
        for mname, cv in (("units", None), ("units+constants", consts_v)):
            params = dict(spec)
            params["units"] = units_v
            if cv is not None:
                params["constants"] = cv
            it = run(ctx.repo, rel, name, params, units_extras=units_v.extra.extras)
            ctx.modes_seen.add("%s[%s]" % (name, mname))
            for t in it.tops:
                ctx.top("%s[%s] %s" % (name, mname, t))
            bad = [r for r in it.reports if r.kind in BAD]
            seen = set()
            for r in bad:
                k = "%s:%s[%s]" % (r.kind, U(r.node)[:60], mname)
                if k not in seen:
                    seen.add(k)
                    ctx.violation(a, k, "in unit mode (%s): %s" % (mname, r.msg), node=r.node)
            if not bad:
                ctx.holds(a, "well-dimensioned[%s]" % mname)
            known = [v for v in it.returns if v.kind == "q" and v.dim is not None]
            rets[mname] = known
            if not known and not bad:
                ctx.violation(a, "result-dimension[%s]" % mname, "result dimension of %s not derivable in mode %s" % (name, mname), node=fn)
            for v in known:
                ctx.check(v.dim == expect, a, "result-dimension[%s]" % mname, "%s has dimension %s in mode %s; expected %s" % (name, dim_str(v.dim), mname, dim_str(expect)), node=fn)
                if name in codata:
                    sv = si_value(v, units_v.extra.extras)
                    if sv is not None:
                        ctx.check(abs(sv - codata[name]) <= 1e-4 * codata[name], a, "value[%s]" % mname, "%s evaluates to %.9g (SI) in mode %s; CODATA gives %.9g" % (name, sv, mname, codata[name]), node=fn, value=sv)
                    elif mname == "units":
                        ctx.violation(a, "value[%s]" % mname, "the hard-coded magnitude of %s could not be read" % name, node=fn)


def r3_inverse_pair(ctx):
    fwd = ctx.func(ARR, "arrhenius_equation")
    env = {}
    for s in walk_shallow(fwd):
        if isinstance(s, ast.Assign) and U(s.targets[0]) == "RT" and isinstance(s.value, ast.BinOp):
            env["RT"] = monomial(s.value)
    ret = [n for n in walk_shallow(fwd) if isinstance(n, ast.Return)][-1]
    c, p = monomial(ret.value, atom=lambda n: "EXP" if isinstance(n, ast.Call) and (call_name(n) or "").endswith(".exp") else U(n))
    ex = [n for n in ast.walk(ret.value) if isinstance(n, ast.Call) and (call_name(n) or "").endswith(".exp")]
    ok = c == 1 and set(p) == {"A", "EXP"} and all(e == {"1": 1} for e in p.values()) and len(ex) == 1
    ctx.check(ok, ARR + ":arrhenius_equation", "k=A*exp(.)", "arrhenius_equation must return A * exp(...); found %s" % U(ret.value), node=ret)
    if not ex or "RT" not in env:
        raise AnalysisError("arrhenius_equation: exponent / RT not found")
    mf = monomial(ex[0].args[0], env=env)
    ctx.check(mf == (-F1, {"Ea": {"1": F1}, "R": {"1": -F1}, "T": {"1": -F1}}), ARR + ":arrhenius_equation", "exponent=-Ea/(R*T)", "exponent is %s" % mono_str(mf), node=ex[0])
    inv = ctx.func(ARR, "ArrheniusParam.from_rateconst_at_T")
    ret = [n for n in walk_shallow(inv) if isinstance(n, ast.Return)][-1]
    c0 = ret.value
    ok = isinstance(c0, ast.Call) and U(c0.func) == "cls" and len(c0.args) == 2 and U(c0.args[1]) == "Ea"
    ex2 = [n for n in ast.walk(c0) if isinstance(n, ast.Call) and (call_name(n) or "").endswith(".exp")]
    if not ex2:
        raise AnalysisError("from_rateconst_at_T: exponential not found")
    mi = monomial(ex2[0].args[0])
    neg = (-mf[0], mf[1])
    ctx.check(ok and mi == neg, ARR + ":ArrheniusParam.from_rateconst_at_T", "A=k*exp(+Ea/(R*T))",
              "the pre-exponential factor must be k * exp(+Ea/(R*T)), the inverse of arrhenius_equation; exponent is %s" % mono_str(mi), node=ex2[0])
    m = monomial(c0.args[0], atom=lambda n: "EXP" if n is ex2[0] else U(n))
    ctx.check(m == (F1, {"k": {"1": F1}, "EXP": {"1": F1}}), ARR + ":ArrheniusParam.from_rateconst_at_T", "A=k*exp", "A must be k * exp(...); found %s" % mono_str(m), node=c0)
    ctx.check(has(inv, "T, k = T_k") and has(inv, "R = _get_R(constants, units)"), ARR + ":ArrheniusParam.from_rateconst_at_T", "T,k-unpack", "T_k must unpack as (T, k) and R come from _get_R(constants, units)", node=inv)
    call = ctx.func(ARR, "ArrheniusParam.__call__")
    ctx.check(has(call, "return arrhenius_equation(self.A, self.Ea, T, constants=constants, units=units, backend=backend)"), ARR + ":ArrheniusParam.__call__", "delegates", "ArrheniusParam.__call__ must delegate to arrhenius_equation with its own A, Ea", node=call)
    call = ctx.func(EYR, "EyringParam.__call__")
    ctx.check(has(call, "return eyring_equation(self.dH, self.dS, T, constants=constants, units=units, backend=backend)"), EYR + ":EyringParam.__call__", "delegates", "EyringParam.__call__ must delegate to eyring_equation with its own dH, dS", node=call)
    ey = ctx.func(EYR, "eyring_equation")
    for fq, f_ in ((ARR + ":arrhenius_equation", fwd), (EYR + ":eyring_equation", ey)):
        forms_rt = []
        for s_ in walk_shallow(f_):
            if isinstance(s_, ast.Assign) and U(s_.targets[0]) == "RT":
                v_ = s_.value
                if isinstance(v_, ast.Call) and isinstance(v_.func, ast.Attribute) and v_.func.attr == "rescale":
                    v_ = v_.func.value
                forms_rt.append(monomial(v_))
        ok_rt = len(forms_rt) == 2 and all(m_ == (F1, {"R": {"1": F1}, "T": {"1": F1}}) for m_ in forms_rt)
        ctx.check(ok_rt, fq, "RT=R*T-both-arms", "RT must be R * T both with and without units; found %s" % [mono_str(m_) for m_ in forms_rt], node=f_)
    ret = [n for n in walk_shallow(ey) if isinstance(n, ast.Return)][-1]
    exps = [n for n in ast.walk(ret.value) if isinstance(n, ast.Call) and (call_name(n) or "").endswith(".exp")]
    forms = sorted(mono_str(monomial(e.args[0], env={"RT": (F1, {"R": {"1": F1}, "T": {"1": F1}})})) for e in exps)
    want = sorted([mono_str((F1, {"dS": {"1": F1}, "R": {"1": -F1}})), mono_str((-F1, {"dH": {"1": F1}, "R": {"1": -F1}, "T": {"1": -F1}}))])
    ctx.check(forms == want, EYR + ":eyring_equation", "exp(dS/R)*exp(-dH/RT)", "Eyring exponents are %s; expected %s" % (forms, want), node=ret)
    c, p = monomial(ret.value, atom=lambda n: "EXP%d" % exps.index(n) if n in exps else U(n))
    ctx.check(c == 1 and set(p) == {"kB_over_h", "T", "EXP0", "EXP1"} and all(v == {"1": F1} for v in p.values()), EYR + ":eyring_equation", "kB/h*T*exp*exp", "Eyring rate must be kB_over_h * T * exp(.) * exp(.); found %s" % mono_str((c, p)), node=ret)


def _class_tuple(m, cls, name):
    try:
        return tuple(fold(m.class_assign(cls, name), {}))
    except (NotLiteral, AnalysisError, TypeError):
        return None


def r4_positional_named(ctx):
    rm = ctx.mod(RATES)
    for rel, q, cls in ((ARR, "ArrheniusParam.as_RateExpr", "Arrhenius"), (EYR, "EyringParam.as_RateExpr", "Eyring")):
        fn = ctx.func(rel, q)
        a = "%s:%s" % (rel, q)
        names = _class_tuple(rm, cls, "argument_names")
        if names is None:
            raise AnalysisError("%s.argument_names is not a literal tuple" % cls)
        lst = None
        for s in walk_shallow(fn):
            if isinstance(s, ast.Assign) and U(s.targets[0]) == "args" and isinstance(s.value, ast.List):
                lst = s.value
        if lst is None:
            raise AnalysisError("%s: args list not found" % q)
        for i, e in enumerate(lst.elts):
            nm = None
            if isinstance(e, ast.Attribute) and U(e.value) == "self":
                nm = e.attr
            elif isinstance(e, ast.Call) and isinstance(e.func, ast.Attribute) and U(e.func.value) == "self":
                nm = e.func.attr
            ctx.check(i < len(names) and nm == names[i], a, "arg[%d]=%s" % (i, names[i] if i < len(names) else "?"),
                      "positional argument %d handed to %s is `%s`; %s.argument_names[%d] is %r" % (i, cls, U(e), cls, i, names[i] if i < len(names) else None), node=e)
        ret = [n for n in walk_shallow(fn) if isinstance(n, ast.Return)][-1]
        ctx.check(same(ret.value, "MassAction(%s(args, unique_keys))" % cls, scope=fn), a, "wrapped-in-MassAction", "as_RateExpr must return MassAction(%s(args, unique_keys))" % cls, node=ret)
    # helper methods compute what their name says
    f = ctx.func(ARR, "ArrheniusParam.Ea_over_R")
    ctx.check(has(f, "return self.Ea / _get_R(constants, units)"), ARR + ":ArrheniusParam.Ea_over_R", "Ea/R", "Ea_over_R must be self.Ea / R", node=f)
    f = ctx.func(EYR, "EyringParam.dH_over_R")
    ctx.check(has(f, "R = _get_R(constants, units)") and has(f, "return self.dH / R"), EYR + ":EyringParam.dH_over_R", "dH/R", "dH_over_R must be self.dH / R", node=f)
    f = ctx.func(EYR, "EyringParam.kB_h_times_exp_dS_R")
    ctx.check(has(f, "return kB_over_h * backend.exp(self.dS / R)") and has(f, "kB_over_h = _get_kB_over_h(constants, units)"), EYR + ":EyringParam.kB_h_times_exp_dS_R", "kB/h*exp(dS/R)", "kB_h_times_exp_dS_R must be kB/h * exp(dS/R) through the backend", node=f)
    # every __call__ unpacks as many arguments as argument_names declares
    for rel in (RATES, THERMO):
        m = ctx.mod(rel)
        for cname, cdef in m.classes.items():
            names = _class_tuple(m, cname, "argument_names")
            if names is None or Ellipsis in names:
                continue
            for meth in ("__call__", "eq_const", "rate_coeff"):
                q = "%s.%s" % (cname, meth)
                if not m.has_func(q):
                    continue
                fn = m.func(q)
                for s in walk_shallow(fn):
                    if isinstance(s, ast.Assign) and isinstance(s.value, ast.Call) and call_name(s.value) == "self.all_args" and isinstance(s.targets[0], (ast.Tuple, ast.List)):
                        ctx.functions_seen.add("%s:%s" % (rel, q))
                        ctx.check(len(s.targets[0].elts) == len(names), "%s:%s" % (rel, q), "unpack-count", "%s unpacks %d arguments but argument_names has %d entries %s" % (
                            q, len(s.targets[0].elts), len(names), names), node=s)
    # Expr.arg: one index throughout
    arg = ctx.func(EXPR, "Expr.arg")
    a = EXPR + ":Expr.arg"
    ctx.check(has(arg, "uk = self.unique_keys[index]") and has(arg, "res = variables[uk]"), a, "unique-key-by-index", "the unique key must be unique_keys[index]", node=arg)
    n_same = sum(1 for n in ast.walk(arg) if isinstance(n, ast.Assign) and U(n.targets[0]) == "res" and U(n.value) == "self.args[index]")
    ctx.check(n_same == 3, a, "fallback-same-index", "every fallback must read self.args[index] (found %d of 3)" % n_same, node=arg)
    ctx.check(has(arg, "res = self.argument_defaults[index - self.nargs + len(self.argument_defaults)]"), a, "defaults-aligned-from-end", "defaults must be aligned from the end of the argument list", node=arg)
    init = ctx.func(EXPR, "Expr.__init__")
    ctx.check(has(init, "n_missing = self.nargs - len(args)") and has(init, "args = tuple(chain(args, self.argument_defaults[-n_missing:]))"), EXPR + ":Expr.__init__", "defaults-fill-missing-tail",
              "missing trailing arguments must be filled from the tail of argument_defaults", node=init)
    ctx.check(has(init, "args = [args[k] for k in self.argument_names or self.unique_keys]"), EXPR + ":Expr.__init__", "dict-args-by-name-order", "dict args must be ordered by argument_names", node=init)


OPS = {"_AddExpr": ("add", "+"), "_SubExpr": ("sub", "-"), "_MulExpr": ("mul", "*"), "_DivExpr": ("truediv", "/"), "_PowExpr": ("pow", "**")}


def r5_operator_table(ctx):
    m = ctx.mod(EXPR)
    imp = {k: v for k, v in m.imports.items() if v[0] == "operator"}
    for cls, (op, sym) in OPS.items():
        o = m.class_assign(cls, "_op")
        s_ = m.class_assign(cls, "_op_str")
        ok = isinstance(o, ast.Name) and imp.get(o.id, (None, None))[1] == op and isinstance(s_, ast.Constant) and s_.value == sym
        ctx.check(ok, EXPR + ":" + cls, "op-and-token", "%s must use operator.%s and the token %r; found _op=%s (%s), _op_str=%s" % (cls, op, sym, U(o), imp.get(U(o)), U(s_)), node=m.cls(cls))
    conv = "_implicit_conversion(other)"
    table = {
        "Expr.__add__": "_AddExpr[self,_other]", "Expr.__sub__": "_SubExpr[self,_implicit_conversionother]", "Expr.__mul__": "_MulExpr[self,_implicit_conversionother]",
        "Expr.__truediv__": "_DivExpr[self,_implicit_conversionother]", "Expr.__pow__": "_PowExpr[self,_implicit_conversionother]",
        "Expr.__rtruediv__": "_DivExpr[_implicit_conversionother,self]", "Expr.__rpow__": "_PowExpr[_implicit_conversionother,self]",
        "Expr.__rsub__": "-self+other", "Expr.__radd__": "self+other", "Expr.__rmul__": "self*other", "Expr.__neg__": "_NegExprself,",
        "UnaryWrapper.__mul__": "self.__class__[_MulExpr[arg,_implicit_conversionother]]", "UnaryWrapper.__truediv__": "self.__class__[_DivExpr[arg,_implicit_conversionother]]",
        "UnaryWrapper.__rtruediv__": "self.__class__[_DivExpr[_implicit_conversionother,arg]]",
    }
    for q, want in table.items():
        fn = ctx.func(EXPR, q)
        ret = [n for n in walk_shallow(fn) if isinstance(n, ast.Return)][-1]
        ctx.check(S(ret.value) == want, EXPR + ":" + q, "builds", "%s returns `%s`" % (q, U(ret.value)), node=ret)
    f = ctx.func(EXPR, "Expr.__add__")
    ctx.check(has(f, "_other = _implicit_conversion(other)"), EXPR + ":Expr.__add__", "converted-operand", "__add__ must convert its operand", node=f)
    # short-circuits: `return self` only for the operator's identity element
    identity = {
        "Expr.__add__": {"_other.trivially_zero", "other == 0", "other == other * 0"},
        "Expr.__sub__": {"other == other * 0", "other == 0", "_other.trivially_zero"},
        "Expr.__mul__": {"other == 1", "1 == other"},
        "Expr.__truediv__": {"other == 1", "1 == other"},
        "UnaryWrapper.__truediv__": {"other == 1", "1 == other"},
        "UnaryWrapper.__mul__": {"other == 1", "1 == other"},
        "Expr.__pow__": {"other == 1", "1 == other"},
    }
    for q in table:
        identity.setdefault(q, set())   # the reflected / remaining operators have no operand for which `self` is the answer (1 / x is not x)
    for q, accepted in identity.items():
        fn = ctx.func(EXPR, q)
        for r in [n for n in walk_shallow(fn) if isinstance(n, ast.Return) and U(n.value) == "self"]:
            par = [i for i in walk_shallow(fn) if isinstance(i, ast.If) and any(x is r for x in i.body)]
            ok = len(par) == 1 and U(par[0].test) in accepted
            ctx.check(ok, EXPR + ":" + q, "shortcut-only-for-identity", "`return self` is allowed only when the operand is the operator's identity element (%s); guard is `%s`" % (
                " / ".join(sorted(accepted)), U(par[0].test) if par else None), node=r)
    ng = ctx.func(EXPR, "Expr.__neg__")
    ctx.check(has(ng, "if isinstance(self, _NegExpr): return self.args[0]"), EXPR + ":Expr.__neg__", "double-negation", "negating a negation returns its (first and only) operand", node=ng)
    f = ctx.func(EXPR, "_BinaryExpr.__call__")
    ctx.check(has(f, "arg0, arg1 = self.all_args(variables, backend=backend, **kwargs)") and has(f, "return self._op(arg0, arg1)"), EXPR + ":_BinaryExpr.__call__", "op(arg0,arg1)", "binary nodes must evaluate _op(arg0, arg1) in order", node=f)
    f = ctx.func(EXPR, "_NegExpr.__call__")
    ctx.check(has(f, "return -arg0"), EXPR + ":_NegExpr.__call__", "negation", "_NegExpr must return -arg0", node=f)
    f = ctx.func(EXPR, "Constant.__call__")
    ctx.check(has(f, "return self.args[0]"), EXPR + ":Constant.__call__", "constant", "Constant must return its argument", node=f)
    f = ctx.func(EXPR, "Symbol.__call__")
    ctx.check(has(f, "uk, = self.unique_keys") and has(f, "return variables[uk]"), EXPR + ":Symbol.__call__", "symbol", "Symbol must return variables[unique key]", node=f)
    f = ctx.func(EXPR, "UnaryFunction.__call__")
    ctx.check(has(f, "return getattr(backend, self._func_name)(arg)"), EXPR + ":UnaryFunction.__call__", "backend-function", "UnaryFunction must call getattr(backend, _func_name)", node=f)
    for cls, nm in (("Log10", "log10"), ("Exp", "exp")):
        v = m.class_assign(cls, "_func_name")
        ctx.check(isinstance(v, ast.Constant) and v.value == nm, EXPR + ":" + cls, "func-name", "%s._func_name is %s" % (cls, U(v)), node=m.cls(cls))


def r6_thermo(ctx):
    f = ctx.func(THERMO, "MassActionEq.active_conc_prod")
    a = THERMO + ":MassActionEq.active_conc_prod"
    ctx.check(has(f, "for exp_factor, stoichs in [(1, equilibrium.prod), (-1, equilibrium.reac)]:"), a, "prod:+,reac:-", "products must enter with +nu and reactants with -nu", node=f)
    ups = [s for s in ast.walk(f) if isinstance(s, (ast.Assign, ast.AugAssign)) and "variables[k]" in U(s)]
    ok = len(ups) == 2 and all(same(u.value, "variables[k] ** (exp_factor * v)", scope=f) for u in ups) and any(isinstance(u, ast.AugAssign) and isinstance(u.op, ast.Mult) for u in ups)
    ctx.check(ok, a, "factor=c**(sign*nu)", "each factor must be variables[k] ** (exp_factor * v), multiplied up", node=f)
    f = ctx.func(THERMO, "GibbsEqConst.eq_const")
    ret = [n for n in walk_shallow(f) if isinstance(n, ast.Return)][-1]
    ok = isinstance(ret.value, ast.Call) and call_name(ret.value) == "backend.exp" and linform(ret.value.args[0]) == {"dS_over_R": F1, "dH_over_R / T": -F1}
    ctx.check(ok, THERMO + ":GibbsEqConst.eq_const", "K=exp(dS/R-dH/(RT))", "GibbsEqConst must be backend.exp(dS_over_R - dH_over_R / T); found %s" % U(ret.value), node=ret)
    names = _class_tuple(ctx.mod(THERMO), "GibbsEqConst", "argument_names")
    ctx.check(names == ("dH_over_R", "dS_over_R") and has(f, "dH_over_R, dS_over_R = self.all_args(variables, backend=backend)"), THERMO + ":GibbsEqConst.eq_const", "argument-order", "arguments must unpack in argument_names order %s" % (names,), node=f)
    f = ctx.func(THERMO, "MassActionEq.equilibrium_equation")
    ret = [n for n in walk_shallow(f) if isinstance(n, ast.Return)][-1]
    v = ret.value
    ok = isinstance(v, ast.BinOp) and isinstance(v.op, ast.Sub) and call_name(v.left) == "self.eq_const" and call_name(v.right) == "self.active_conc_prod"
    ctx.check(ok, THERMO + ":MassActionEq.equilibrium_equation", "K-Q", "equilibrium_equation must be eq_const - active_conc_prod", node=ret)


IDENTITY_WRAPPERS = {"_pure_number"}  # rescales a dimensionless quantity to a pure number; value preserving


def _unwrap(n):
    while isinstance(n, ast.Call) and isinstance(n.func, ast.Name) and n.func.id in IDENTITY_WRAPPERS and len(n.args) == 1:
        n = n.args[0]
    return n


def _exp_atom(exps):
    def atom(n):
        if n in exps:
            return "EXP%d" % exps.index(n)
        if isinstance(n, ast.Call) and isinstance(n.func, ast.Attribute) and n.func.attr == "order" and "reaction" in U(n.func.value):
            return "order"
        return U(n)
    return atom


def r7_class_formulas(ctx):
    """Arrhenius: A*exp(-Ea_over_R/T); Eyring: c0*T*exp(-c1/T)*conc0**(1-order); EyringHS: kB/h*T*exp(-(dH-T*dS)/(R*T))*c0**(1-order)"""
    m = ctx.mod(RATES)
    for cq, want_mono, want_exps in (
        ("Arrhenius", (F1, {"A": {"1": F1}, "EXP0": {"1": F1}}), [(-F1, {"Ea_over_R": {"1": F1}, "variables['temperature']": {"1": -F1}})]),
        ("Eyring", (F1, {"c0": {"1": F1}, "T": {"1": F1}, "EXP0": {"1": F1}, "conc0": {"1": F1, "order": -F1}}), [(-F1, {"c1": {"1": F1}, "T": {"1": -F1}})]),
        ("EyringHS", (F1, {"kB": {"1": F1}, "h": {"1": -F1}, "T": {"1": F1}, "EXP0": {"1": F1}, "c0": {"1": F1, "order": -F1}}), None),
    ):
        fn = ctx.func(RATES, cq + ".__call__")
        a = "%s:%s.__call__" % (RATES, cq)
        ret = [n for n in walk_shallow(fn) if isinstance(n, ast.Return)][-1]
        exps = [n for n in ast.walk(ret.value) if isinstance(n, ast.Call) and (call_name(n) or "").endswith(".exp")]
        at = _exp_atom(exps)
        try:
            mm = monomial(ret.value, atom=at)
        except Exception as e:
            ctx.violation(a, "formula", "%s.__call__ is not a product form: %s" % (cq, e), node=ret)
            continue
        ctx.check(mm == want_mono, a, "formula", "%s must evaluate to %s; found %s (a flipped exponent of the standard concentration changes the rate by conc0**(2*(order-1)))" % (
            cq, mono_str(want_mono), mono_str(mm)), node=ret, found=mono_str(mm))
        if want_exps is not None:
            got = [monomial(_unwrap(e.args[0]), atom=at) for e in exps]
            ctx.check(got == want_exps, a, "exponent", "%s exponent must be %s; found %s" % (cq, [mono_str(x) for x in want_exps], [mono_str(x) for x in got]), node=ret)
        else:
            # -(dH - T*dS) / (R*T)
            e = _unwrap(exps[0].args[0]) if exps else None
            ok = e is not None
            if ok:
                c, p = monomial(e, atom=at)
                num_ = [k for k in p if " - " in k]
                ok = c == -1 and len(num_) == 1 and p[num_[0]] == {"1": F1} and {k: v for k, v in p.items() if k != num_[0]} == {"R": {"1": -F1}, "T": {"1": -F1}} \
                    and linform(ast.parse(num_[0], mode="eval").body) == {"dH": F1, "T * dS": -F1}
            ctx.check(ok, a, "exponent", "EyringHS exponent must be -(dH - T*dS)/(R*T); found %s" % (U(e) if e is not None else None), node=ret)
    # radiolytic production: density * sum_k doserate_k * G_k, yields paired with their own dose-rate keys
    fn = ctx.func(RATES, "mk_Radiolytic._Radiolytic.__call__")
    a = RATES + ":mk_Radiolytic._Radiolytic.__call__"
    ret = [n for n in walk_shallow(fn) if isinstance(n, ast.Return)][-1]
    red = [n for n in ast.walk(ret.value) if isinstance(n, ast.Call) and call_name(n) == "reduce"]
    ok = len(red) == 1 and monomial(ret.value, atom=lambda n: "SUM" if red and n is red[0] else U(n)) == (F1, {"variables['density']": {"1": F1}, "SUM": {"1": F1}})
    ctx.check(ok, a, "density*sum", "radiolytic rate must be density * sum(...); found %s" % U(ret.value)[:80], node=ret)
    if ok:
        r_ = red[0]
        lc = r_.args[1] if len(r_.args) >= 2 else None
        ok = U(r_.args[0]) == "add" and isinstance(lc, (ast.ListComp, ast.GeneratorExp)) and len(lc.generators) == 1 and not lc.generators[0].ifs
        if ok:
            g = lc.generators[0]
            k_, g_ = target_names(g.target)
            ok = monomial(lc.elt) == (F1, {"variables[%s]" % k_: {"1": F1}, g_: {"1": F1}}) and isinstance(g.iter, ast.Call) and call_name(g.iter) == "zip" \
                and [U(x) for x in g.iter.args] == ["self.parameter_keys[1:]", "self.all_args(variables, backend=backend, **kwargs)"]
        ctx.check(ok, a, "sum(doserate_k*G_k)", "the sum must run over zip(parameter_keys[1:], all arguments) with terms doserate * yield", node=ret)
    cls_ = [n for n in ast.walk(ctx.func(RATES, "mk_Radiolytic")) if isinstance(n, ast.ClassDef) and n.name == "_Radiolytic"]
    ok = len(cls_) == 1
    if ok:
        asg = {U(n.targets[0]): n.value for n in cls_[0].body if isinstance(n, ast.Assign)}
        an, pk_ = asg.get("argument_names"), asg.get("parameter_keys")
        ok = an is not None and pk_ is not None and has(an, "tuple(('radiolytic_yield{0}'.format('' if drn == '' else '_' + drn) for drn in doserate_names))") \
            and has(pk_, "('density',) + tuple(('doserate{0}'.format('' if drn == '' else '_' + drn) for drn in doserate_names))")
    ctx.check(ok, RATES + ":mk_Radiolytic", "yield_k<->doserate_k", "argument k (yield) and parameter key k+1 (dose rate) must be generated from the same dose-rate names in the same order", node=fn)
    # temperature programmes: T0 + dTdt*t ; Tbase + Tamp*sin(angvel*t + phase)
    fn = ctx.func(RATES, "RampedTemp.__call__")
    ret = [n for n in walk_shallow(fn) if isinstance(n, ast.Return)][-1]
    lf = linform(ret.value)
    ok = len(lf) == 2 and lf.get("T0") == 1 and any(v == 1 and k != "T0" and monomial(ast.parse(k, mode="eval").body) == (F1, {"dTdt": {"1": F1}, "variables['time']": {"1": F1}}) for k, v in lf.items())
    ctx.check(ok and has(fn, "T0, dTdt = self.all_args(variables, backend=backend, **kwargs)"), RATES + ":RampedTemp.__call__", "T0+dTdt*t", "ramped temperature must be T0 + dTdt * time; found %s" % U(ret.value), node=ret)
    fn = ctx.func(RATES, "SinTemp.__call__")
    ret = [n for n in walk_shallow(fn) if isinstance(n, ast.Return)][-1]
    sins = [n for n in ast.walk(ret.value) if isinstance(n, ast.Call) and (call_name(n) or "").endswith(".sin")]
    ok = len(sins) == 1
    if ok:
        v = ret.value
        ok = isinstance(v, ast.BinOp) and isinstance(v.op, ast.Add)
        if ok:
            a_, b_ = (v.left, v.right) if U(v.left) == "Tbase" else (v.right, v.left)
            ok = U(a_) == "Tbase" and monomial(b_, atom=lambda n: "SIN" if n is sins[0] else U(n)) == (F1, {"Tamp": {"1": F1}, "SIN": {"1": F1}})
        if ok:
            arg = sins[0].args[0]
            ok = isinstance(arg, ast.BinOp) and isinstance(arg.op, ast.Add)
            if ok:
                ph, an = (arg.left, arg.right) if U(arg.left) == "phase" else (arg.right, arg.left)
                ok = U(ph) == "phase" and monomial(_unwrap(an)) == (F1, {"angvel": {"1": F1}, "variables['time']": {"1": F1}})
    ctx.check(ok and has(fn, "Tbase, Tamp, angvel, phase = self.all_args(variables, backend=backend, **kwargs)"), RATES + ":SinTemp.__call__", "Tbase+Tamp*sin(w*t+phase)",
              "sinusoidal temperature must be Tbase + Tamp * sin(angvel * time + phase); found %s" % U(ret.value), node=ret)
    fn = ctx.func(RATES, "Eyring.__call__")
    ctx.check(has(fn, "T = variables['temperature']") and has(fn, "c0, c1, conc0 = self.all_args(variables, backend=backend, **kwargs)"), RATES + ":Eyring.__call__", "bindings", "Eyring must bind (c0, c1, conc0) from its arguments and T from variables['temperature']", node=fn)
    fn = ctx.func(RATES, "EyringHS.__call__")
    ctx.check(has(fn, "T, R, kB, h = [variables[k] for k in self.parameter_keys]") and has(fn, "dH, dS, c0 = self.all_args(variables, backend=backend, **kwargs)"), RATES + ":EyringHS.__call__", "bindings",
              "EyringHS must bind (dH, dS, c0) from its arguments and (T, R, kB, h) from its parameter keys in order", node=fn)
    pk = _class_tuple(m, "EyringHS", "parameter_keys")
    ctx.check(pk == ("temperature", "molar_gas_constant", "Boltzmann_constant", "Planck_constant"), RATES + ":EyringHS", "parameter-keys-order", "EyringHS.parameter_keys = %s" % (pk,), node=m.cls("EyringHS"))


def r8_scale_safe_formulas(ctx):
    """under the default `math` backend no rate-expression class reads the bare magnitude of a value that still
    carries a caller-chosen unit ratio (K/mK, kJ/J, s/min); uses the E2 run of C10-R1"""
    from . import c10
    from ..unitsmod import derived_table, module_dimdicts
    from ..dimrun import module_env, make_resolver
    from ..dims import Interp
    derived = derived_table(ctx.repo)
    dd = module_dimdicts(ctx.repo)
    m = ctx.mod(RATES)
    for cq, expect, as_arg in c10.CLASSES:
        argdims, rep, adfn = c10._declared(ctx, RATES, cq, dd, derived)
        fn = ctx.func(RATES, cq + ".__call__")
        pk = c10._param_keys(ctx, m, cq)
        params = {"self": V("self"), "variables": V("variables"), "backend": V("be", name="math"), "reaction": V("reaction"),
                  "kwargs": V("kwargs", items={"reaction": V("reaction")})}
        it = Interp(fn, params, module_env(ctx.repo, RATES), make_resolver(ctx.repo, RATES), hooks=c10._hooks(argdims, derived, pk, len(argdims)))
        it.run()
        ctx.modes_seen.add("%s.__call__[backend=math]" % cq)
        a = "%s:%s.__call__" % (RATES, cq)
        bad = [r for r in it.reports if r.kind in ("raw-magnitude", "scaled-exponent")]
        seen = set()
        for r in bad:
            k = "%s:%s" % (r.kind, U(r.node)[:70])
            if k not in seen:
                seen.add(k)
                ctx.violation(a, k, "with unit-carrying arguments and the default math backend: %s" % r.msg, node=r.node)
        if not bad:
            ctx.holds(a, "scale-safe")


def r9_piecewise_poly(ctx):
    """numeric and symbolic branch of create_Piecewise use the same closed intervals and the same index arithmetic; create_Poly is Horner-free power accumulation"""
    pw = ctx.func(EXPR, "create_Piecewise._pw")
    a = EXPR + ":create_Piecewise._pw"
    idx = {}
    for n in walk_shallow(pw):
        if isinstance(n, ast.Assign) and isinstance(n.value, ast.ListComp) and U(n.targets[0]) in ("lower", "upper", "exprs"):
            sub = n.value.elt
            if isinstance(sub, ast.Subscript):
                idx[U(n.targets[0])] = (linform(sub.slice), U(n.value.generators[0].iter))
    i_ = "i"
    ok = idx.get("lower", (None,))[0] == {i_: 2} and idx.get("upper", (None,))[0] == {i_: 2, "1": 2} and idx.get("exprs", (None,))[0] == {i_: 2, "1": 1} \
        and all(v[1] == "range(n_exprs)" for v in idx.values()) and has(pw, "n_exprs = (len(bounds_exprs) - 1) // 2")
    ctx.check(ok, a, "bounds-exprs-indexing", "lower/upper/exprs must be bounds_exprs[2i], [2i+2], [2i+1] for i < (len-1)//2; found %s" % {k: str(v[0]) for k, v in idx.items()}, node=pw)
    num = [n for n in ast.walk(pw) if isinstance(n, ast.If) and isinstance(n.test, ast.Compare) and len(n.test.ops) == 2]
    sym = [c for c in ast.walk(pw) if isinstance(c, ast.Call) and (call_name(c) or "").endswith(".And")]
    ok = len(num) == 1 and len(sym) == 1
    facts = {}
    if ok:
        t = num[0].test
        facts["numeric"] = (U(t.left), type(t.ops[0]).__name__, U(t.comparators[0]), type(t.ops[1]).__name__, U(t.comparators[1]))
        cs = sym[0].args
        ok = len(cs) == 2 and all(isinstance(c, ast.Compare) and len(c.ops) == 1 for c in cs)
        if ok:
            facts["symbolic"] = (U(cs[0].left), type(cs[0].ops[0]).__name__, U(cs[0].comparators[0]), type(cs[1].ops[0]).__name__, U(cs[1].comparators[0]))
            ok = facts["numeric"] == facts["symbolic"] and facts["numeric"][1] == facts["numeric"][3] == "LtE" and U(cs[1].left) == facts["numeric"][2]
    ctx.check(ok, a, "numeric-and-symbolic-same-intervals", "the float branch and the symbolic branch must select a piece by the same closed interval lo <= x <= up; found %s" % facts, node=pw)
    loops = [U(n.iter) for n in ast.walk(pw) if isinstance(n, (ast.For, ast.comprehension)) and "zip(lower, upper, exprs)" in U(n.iter)]
    ctx.check(len(loops) == 2, a, "same-piece-order", "both branches must iterate zip(lower, upper, exprs)", node=pw)
    ctx.check(has(pw, "raise ValueError('not within any bounds: %s' % x)"), a, "outside-raises", "a value outside all intervals must raise in the float branch", node=pw)
    po = ctx.func(EXPR, "create_Poly._poly")
    a2 = EXPR + ":create_Poly._poly"
    ctx.check(has(po, "if res is None: res = coeff * cur else: res += coeff * cur") and has(po, "if reciprocal: cur /= x0 else: cur *= x0") and has(po, "cur = 1"), a2, "sum-coeff*x0**i",
              "the polynomial must accumulate coeff * cur with cur multiplied (reciprocal: divided) by x0 after every term", node=po)
    ctx.check(has(po, "coeffs = args[1:]") and has(po, "x_shift = args[0]") and has(po, "x0 = x - x_shift") and has(po, "coeffs = args") and has(po, "x0 = x"), a2, "shift", "with a shift the first argument is subtracted from x and the rest are the coefficients", node=po)
    ret = [n for n in walk_shallow(po) if isinstance(n, ast.Return)][-1]
    ctx.check(U(ret.value) == "res", a2, "returns-sum", "returns %s" % U(ret.value), node=ret)
    cp = ctx.func(EXPR, "create_Poly")
    ctx.check(has(po, "if shift is None: coeffs = args x0 = x else: coeffs = args[1:] x_shift = args[0] x0 = x - x_shift", scope=cp), a2, "shift-arm", "without a shift all arguments are coefficients; with one the first is the shift", node=po)
    ctx.check(has(cp, "if shift is None: argument_names = None else: argument_names = (shift, Ellipsis)"), EXPR + ":create_Poly", "shift-named-first-argument", "with a shift the first argument is named after it", node=cp)


RULES = [
    Rule("C16-R1", r1_backend_threading, 28, "backend threading at every nested evaluation site"),
    Rule("C16-R2", r2_formula_dims, 14, "Arrhenius/Eyring formulas and R, kB/h in both constant modes (E2)"),
    Rule("C16-R3", r3_inverse_pair, 9, "from_rateconst_at_T is the inverse of arrhenius_equation; Eyring form"),
    Rule("C16-R4", r4_positional_named, 14, "positional vs named arguments; Expr.arg index discipline"),
    Rule("C16-R5", r5_operator_table, 26, "operator table"),
    Rule("C16-R6", r6_thermo, 5, "equilibrium expressions"),
    Rule("C16-R7", r7_class_formulas, 8, "Arrhenius / Eyring / EyringHS class formulas as monomials"),
    Rule("C16-R8", r8_scale_safe_formulas, 7, "rate-expression classes: no raw-magnitude read of a scaled dimensionless value under the math backend (E2)"),
    Rule("C16-R9", r9_piecewise_poly, 7, "create_Piecewise: float and symbolic branch agree; create_Poly accumulation"),
]

MUTANTS = [
    Mutant("arrhenius-call-drops-backend", [(RATES, "        A, Ea_over_R = self.all_args(variables, backend=backend, **kwargs)", "        A, Ea_over_R = self.all_args(variables, **kwargs)")], "C16-R1", "Arrhenius.__call__"),
    Mutant("gibbs-math-exp", [(THERMO, "return backend.exp(dS_over_R - dH_over_R / T)", "return math.exp(dS_over_R - dH_over_R / T)")], "C16-R1", "direct-math"),
    Mutant("all-params-drops-backend", [(EXPR, "v(variables, backend=backend) if isinstance(v, Expr) else v", "v(variables) if isinstance(v, Expr) else v")], "C16-R1", "all_params"),
    Mutant("massaction-ratecoeff-no-backend", [(RATES, "        return self.rate_coeff(\n            variables, backend=backend, reaction=reaction\n        )", "        return self.rate_coeff(\n            variables, reaction=reaction\n        )")], "C16-R1", "MassAction.__call__"),
    Mutant("R-unit-missing-K", [(ARR, "            R *= J / mol / K", "            R *= J / mol")], "C16-R2", "_get_R"),
    Mutant("R-value", [(ARR, "R = 8.314472", "R = 8.134472")], "C16-R2", "value"),
    Mutant("kB-over-h-unit", [(EYR, "kB_over_h /= s * K", "kB_over_h /= s")], "C16-R2", "_get_kB_over_h"),
    Mutant("kB-over-h-inverted", [(EYR, "kB_over_h = constants.Boltzmann_constant / constants.Planck_constant", "kB_over_h = constants.Planck_constant / constants.Boltzmann_constant")], "C16-R2", "_get_kB_over_h"),
    Mutant("eyring-dS-over-RT", [(EYR, "return kB_over_h * T * be.exp(dS / R) * be.exp(-dH / RT)", "return kB_over_h * T * be.exp(dS / RT) * be.exp(-dH / RT)")], "C16-R2", "eyring_equation"),
    Mutant("arrhenius-exp-sign", [(ARR, "    return A * be.exp(-Ea / RT)", "    return A * be.exp(Ea / RT)")], "C16-R3", "exponent"),
    Mutant("from-rateconst-sign", [(ARR, "return cls(k * backend.exp(Ea / R / T), Ea, **kwargs)", "return cls(k * backend.exp(-Ea / R / T), Ea, **kwargs)")], "C16-R3", "A=k*exp"),
    Mutant("from-rateconst-Tk-swapped", [(ARR, "        T, k = T_k\n", "        k, T = T_k\n")], "C16-R3", "unpack"),
    Mutant("as-rateexpr-order", [(ARR, "args = [self.A, self.Ea_over_R(constants, units)]", "args = [self.Ea_over_R(constants, units), self.A]")], "C16-R4", "arg[0]"),
    Mutant("eyring-argument-names-swapped", [(RATES, 'argument_names = ("kB_h_times_exp_dS_R", "dH_over_R", "conc0")', 'argument_names = ("dH_over_R", "kB_h_times_exp_dS_R", "conc0")')], "C16-R4", "arg[0]"),
    Mutant("arg-default-misaligned", [(EXPR, "index - self.nargs + len(self.argument_defaults)", "index - self.nargs")], "C16-R4", "defaults"),
    Mutant("sub-builds-add", [(EXPR, "return _SubExpr([self, _implicit_conversion(other)])", "return _AddExpr([self, _implicit_conversion(other)])")], "C16-R5", "Expr.__sub__"),
    Mutant("rtruediv-order", [(EXPR, "    def __rtruediv__(self, other):\n        return _DivExpr([_implicit_conversion(other), self])", "    def __rtruediv__(self, other):\n        return _DivExpr([self, _implicit_conversion(other)])")], "C16-R5", "__rtruediv__"),
    Mutant("div-op-mul", [(EXPR, "class _DivExpr(_BinaryExpr):\n    _op = truediv", "class _DivExpr(_BinaryExpr):\n    _op = mul")], "C16-R5", "_DivExpr"),
    Mutant("pow-op-str", [(EXPR, '    _op = pow\n    _op_str = "**"', '    _op = pow\n    _op_str = "^"')], "C16-R5", "_PowExpr"),
    Mutant("masseq-signs", [(THERMO, "[(1, equilibrium.prod), (-1, equilibrium.reac)]", "[(-1, equilibrium.prod), (1, equilibrium.reac)]")], "C16-R6", "prod"),
    Mutant("gibbs-sign", [(THERMO, "backend.exp(dS_over_R - dH_over_R / T)", "backend.exp(dH_over_R / T - dS_over_R)")], "C16-R6", "K=exp"),
]

MUTANTS += [
    Mutant("arrhenius-raw-exponent", [(RATES, 'return A * backend.exp(_pure_number(-Ea_over_R / variables["temperature"]))', 'return A * backend.exp(-Ea_over_R / variables["temperature"])')], "C16-R8", "Arrhenius"),
    Mutant("eyring-raw-exponent", [(RATES, "            * backend.exp(_pure_number(-c1 / T))\n", "            * backend.exp(-c1 / T)\n")], "C16-R8", "Eyring"),
    Mutant("arrhenius-fold-constants-only", [(RATES, 'return A * backend.exp(_pure_number(-Ea_over_R / variables["temperature"]))', 'return A * backend.exp(fold_constants(-Ea_over_R / variables["temperature"]))')], "C16-R7", "Arrhenius"),
    Mutant("piecewise-half-open-float-branch", [(EXPR, "                if lo <= x <= up:", "                if lo <= x < up:")], "C16-R9", "same-intervals"),
    Mutant("piecewise-upper-index", [(EXPR, "upper = [bounds_exprs[2 * (i + 1)] for i in range(n_exprs)]", "upper = [bounds_exprs[2 * i + 1] for i in range(n_exprs)]")], "C16-R9", "indexing"),
    Mutant("poly-reciprocal-inverted", [(EXPR, "            if reciprocal:\n                cur /= x0\n            else:\n                cur *= x0", "            if reciprocal:\n                cur *= x0\n            else:\n                cur /= x0")], "C16-R9", "sum-coeff"),
    Mutant("eyring-conc0-exponent-flipped", [(RATES, '* conc0 ** (1 - kwargs["reaction"].order())', '* conc0 ** (kwargs["reaction"].order() - 1)')], "C16-R7", "Eyring"),
    Mutant("arrhenius-class-sign", [(RATES, 'return A * backend.exp(_pure_number(-Ea_over_R / variables["temperature"]))', 'return A * backend.exp(_pure_number(Ea_over_R / variables["temperature"]))')], "C16-R7", "Arrhenius"),
    Mutant("eyringhs-entropy-sign", [(RATES, "* backend.exp(_pure_number(-(dH - T * dS) / (R * T)))", "* backend.exp(_pure_number(-(dH + T * dS) / (R * T)))")], "C16-R7", "EyringHS"),
    Mutant("units-Joule", [(ARR, "            J = units.joule\n", "            J = units.Joule\n")], "C16-R2", "missing-attribute"),
    Mutant("subclass-from-callback-drops-backend", [(RATES, "                    self.all_args(variables, backend=backend),\n", "                    self.all_args(variables),\n")], "C16-R1", "subclass_from_callback"),
]

TWINS = [
    Twin("backend-positional", [(RATES, "        A, Ea_over_R = self.all_args(variables, backend=backend, **kwargs)", "        A, Ea_over_R = self.all_args(variables, backend, **kwargs)")]),
    Twin("R-more-digits", [(ARR, "R = 8.314472", "R = 8.314462618")]),
    Twin("gibbs-reordered", [(THERMO, "backend.exp(dS_over_R - dH_over_R / T)", "backend.exp(-dH_over_R / T + dS_over_R)")]),
]
MUTANTS.append(Mutant("constants-units-swapped", [(ARR, "self.Ea_over_R(constants, units)", "self.Ea_over_R(units, constants)")], "C16-A1", "slot:"))
MUTANTS.append(Mutant("get_R-swapped-cross-module", [(EYR, "        R = _get_R(constants, units)\n        return", "        R = _get_R(units, constants)\n        return")], "C16-A1", "slot:"))
MUTANTS.append(Mutant("mul-shortcut-for-non-identity", [(EXPR, "    def __mul__(self, other):\n        if other == 1:\n            return self\n        if isinstance(other, UnaryWrapper):", "    def __mul__(self, other):\n        if other != 1:\n            return self\n        if isinstance(other, UnaryWrapper):")], "C16-R5", "shortcut"))
MUTANTS.append(Mutant("eyring-RT-divided", [(EYR, "    except AttributeError:\n        RT = R * T\n\n    try:\n        kB_over_h", "    except AttributeError:\n        RT = R / T\n\n    try:\n        kB_over_h")], "C16-R3", "RT=R*T"))
MUTANTS.append(Mutant("radiolytic-yield-misaligned", [(RATES, "                    for k, gval in zip(\n                        self.parameter_keys[1:],", "                    for k, gval in zip(\n                        self.parameter_keys[2:],")], "C16-R7", "sum(doserate"))
MUTANTS.append(Mutant("ramp-subtracted", [(RATES, "return T0 + dTdt * variables[\"time\"]", "return T0 - dTdt * variables[\"time\"]")], "C16-R7", "T0+dTdt*t"))


MUTANTS.append(Mutant("rtruediv-one-shortcut", [(EXPR, "    def __rtruediv__(self, other):\n        return _DivExpr([_implicit_conversion(other), self])", "    def __rtruediv__(self, other):\n        if other == 1:\n            return self\n        return _DivExpr([_implicit_conversion(other), self])")], "C16-R5", "shortcut-only-for-identity"))

# shared rule A3 (guarded helpers)
MUTANTS.append(Mutant("pure-number-magnitude", [("chempy/kinetics/rates.py", "        return arg.simplified\n    except AttributeError:", "        return arg.magnitude\n    except AttributeError:")], "C16-A3", "guarded-helper-changed"))
TWINS.append(Twin("pure-number-temporary", [("chempy/kinetics/rates.py", "        return arg.simplified\n    except AttributeError:", "        reduced = arg.simplified\n        return reduced\n    except AttributeError:")]))
