"""C02 -- balancing returns only balanced, positive, canonical coefficients or refuses."""
from __future__ import annotations

import ast

from ..astu import U, S, has, same, walk_shallow, call_name, calls_in, kwarg, names_in
from ..cfg import build, find_guards, defs_of
from ..core import AnalysisError, Mutant, Rule, Twin
from ..idioms import none_default, for_loops, target_names, exc_name

ID = "C02"
CHEM = "chempy/chemistry.py"
ENGINES = ["E0 core", "E3 cfg"]
TECHNIQUE = "mode-specialised statement CFG of balance_stoichiometry (underdetermined in {True, False, None}); must-pass-through of result-validating raise-guards after the last definition of the solution vector (ast)"
CLAIM = ("Decides, per mode of the under-determination switch: a raise-guard on negative coefficients, on zero coefficients, on a non-zero "
         "residual A*sol (ILP mode), on free symbols (mode False) lies on every path between the last definition of the solution vector and "
         "the final return; the vector is divided by the gcd of itself after its last external definition and made int in ILP mode; matrix "
         "columns and coefficient lookup share one key list; the duplicate search cannot fall through; the ILP is x>=1 integer, min sum, A x = 0."
         ' Every redefinition of the solution vector is a whole-vector rescaling / re-parametrisation (null space preserved); switch rebinding; defaults; recursion keeps sides (R10). Shared rule A1: no swapped same-named arguments at resolved in-package call sites.')
DOES_NOT_DECIDE = ("that sympy's null space / CBC are right, minimality of the coefficient sum, behaviour with fractional compositions, whether the "
                   "parameter elimination of mode True reaches the minimal form (depends on sympy's algebra; only that every step keeps the vector in the null space)")
ASSUMPTIONS = ["sympy linsolve/gcd/nsimplify and PuLP/CBC behave as documented", "sympy `.is_negative` is True exactly for numerically negative entries"]

MODES = {"True": True, "False": False, "None": None}
UNK = object()


def _eval(node, env):
    """three-valued evaluation of a test under constant bindings"""
    if isinstance(node, ast.Constant):
        return node.value
    if isinstance(node, ast.Name):
        return env.get(node.id, UNK)
    if isinstance(node, ast.UnaryOp) and isinstance(node.op, ast.Not):
        v = _eval(node.operand, env)
        return UNK if v is UNK else (not v)
    if isinstance(node, ast.Compare) and len(node.ops) == 1:
        l, r = _eval(node.left, env), _eval(node.comparators[0], env)
        if l is UNK or r is UNK:
            return UNK
        op = node.ops[0]
        if isinstance(op, ast.Is):
            return l is r
        if isinstance(op, ast.IsNot):
            return l is not r
        if isinstance(op, ast.Eq):
            return l == r
        if isinstance(op, ast.NotEq):
            return l != r
        return UNK
    if isinstance(node, ast.BoolOp):
        vals = [_eval(v, env) for v in node.values]
        if isinstance(node.op, ast.And):
            if any(v is not UNK and not v for v in vals):
                return False
            return UNK if any(v is UNK for v in vals) else True
        if any(v is not UNK and v for v in vals):
            return True
        return UNK if any(v is UNK for v in vals) else False
    return UNK


def _pruner(env):
    def prune(test):
        v = _eval(test, env)
        return None if v is UNK else bool(v)
    return prune


def _setup(ctx):
    fn = ctx.func(CHEM, "balance_stoichiometry")
    final = fn.body[-1]
    if not isinstance(final, ast.Return):
        raise AnalysisError("balance_stoichiometry: last statement is not the final return")
    # local constant names used in mode tests (integer_one = 1)
    consts = {}
    for s in fn.body:
        if isinstance(s, ast.Assign) and isinstance(s.targets[0], ast.Name) and isinstance(s.value, ast.Constant):
            consts[s.targets[0].id] = s.value.value
    return fn, final, consts


def _guards(fn, pred):
    out = []
    for g in find_guards(fn):
        if g.outer in fn.body and pred(g):
            out.append(g)
    return out


def _on_all_paths(ctx, fn, final, consts, mode, guards, solname="sol"):
    """Is one of the guards on every path to the final return, after the last def of sol?"""
    env = dict(consts)
    env["underdetermined"] = MODES[mode]
    g = build(fn, prune=_pruner(env))
    ctx.modes_seen.add("underdetermined=" + mode)
    nfinal = g.node_of(final)
    if nfinal not in g.reachable():
        raise AnalysisError("final return unreachable in mode %s" % mode)
    for gd in guards:
        # the guard must be live in this mode
        if not g.live(gd.stmt):
            continue
        nouter = g.node_of(gd.outer)
        if not g.must_pass({nouter}, nfinal):
            continue
        # no redefinition of sol between guard and return
        after = g.reach(nouter)
        stale = [d for d in defs_of(g, solname) if d in after and nfinal in g.reach(d) and d != nouter]
        if stale:
            continue
        return gd
    return None


def _mentions(node, name):
    return name in names_in(node)


def _orders_against_zero(gd) -> bool:
    txt = " ".join(U(t) for t, pol in gd.tests())
    if "is_negative" in txt or "is_nonpositive" in txt:
        return True
    if "is_positive" in txt and "not" in txt:
        return True
    for t, pol in gd.tests():
        for n in ast.walk(t):
            if isinstance(n, ast.Compare) and len(n.ops) == 1 and isinstance(n.ops[0], (ast.Lt, ast.LtE)) and isinstance(n.comparators[0], ast.Constant) \
                    and n.comparators[0].value in (0, 1):
                return True
            if isinstance(n, ast.Compare) and len(n.ops) == 1 and isinstance(n.ops[0], (ast.Gt, ast.GtE)) and isinstance(n.left, ast.Constant) and n.left.value in (0, 1):
                return True
    return False


def r1_positivity(ctx):
    fn, final, consts = _setup(ctx)
    a = CHEM + ":balance_stoichiometry"
    gs = _guards(fn, lambda g: (any(_mentions(t, "sol") for t, _ in g.tests()) or any(_mentions(i.iter, "sol") for i in g.iters()))
                 and _orders_against_zero(g) and exc_name(g.stmt) == "ValueError")
    for mode in MODES:
        hit = _on_all_paths(ctx, fn, final, consts, mode, gs)
        ctx.check(hit is not None, a, "positivity-guard:mode=" + mode,
                  "no `raise ValueError` guarded by a sign test of the solution vector lies between its last definition and the final return when underdetermined=%s: "
                  "a null-space vector with mixed signs (e.g. C + CO -> CO2 gives C: -1) is returned as an answer" % mode, node=final,
                  guard=hit.text() if hit else None)
        if hit is not None:
            its = [i for i in hit.iters() if _mentions(i.iter, "sol")]
            for t_, _pol in hit.tests():
                for n_ in ast.walk(t_):
                    if isinstance(n_, ast.comprehension) and _mentions(n_.iter, "sol"):
                        its.append(n_)
            partial = [U(i.iter) for i in its if U(i.iter) not in ("sol", "list(sol)", "tuple(sol)", "iter(sol)")]
            ctx.check(not partial, a, "positivity-guard-covers-all:mode=" + mode,
                      "the sign test must range over every coefficient of the solution vector; it iterates %s (a zip with the reactants, say, stops after the reactants and never "
                      "looks at the product coefficients)" % partial, node=hit.stmt)


def r2_zero(ctx):
    fn, final, consts = _setup(ctx)
    a = CHEM + ":balance_stoichiometry"

    def is_zero_guard(g):
        for t, pol in g.tests():
            if not pol:
                continue
            for n in ast.walk(t):
                if isinstance(n, ast.Compare) and isinstance(n.ops[0], ast.In) and isinstance(n.left, ast.Constant) and n.left.value == 0 and U(n.comparators[0]) == "sol":
                    return True
                if isinstance(n, ast.Compare) and isinstance(n.ops[0], ast.Eq) and isinstance(n.comparators[0], ast.Constant) and n.comparators[0].value == 0 and _mentions(t, "sol"):
                    return True
        return False
    gs = _guards(fn, is_zero_guard)
    for mode in MODES:
        hit = _on_all_paths(ctx, fn, final, consts, mode, gs)
        ctx.check(hit is not None, a, "zero-guard:mode=" + mode, "no raise on a zero coefficient (superfluous species) dominates the return when underdetermined=%s" % mode, node=final)


def r3_residual(ctx):
    fn, final, consts = _setup(ctx)
    a = CHEM + ":balance_stoichiometry"

    def is_residual_guard(g):
        for t, pol in g.tests():
            txt = S(t)
            if "A*sol" in txt and ("==0" in txt or "!=0" in txt):
                return True
        return False
    gs = _guards(fn, is_residual_guard)
    hit = _on_all_paths(ctx, fn, final, consts, "None", gs)
    ctx.check(hit is not None, a, "residual-guard:mode=None",
              "in ILP mode (underdetermined=None) the vector does not come from the null space; a guard raising unless A*sol == 0 must dominate the return", node=final)
    # the guard really rejects a non-zero residual (not all(...) / any(... != 0))
    if hit is not None:
        t = [S(t) for t, pol in hit.tests() if "A*sol" in S(t)][0]
        ok = t.startswith("notall") and "==0" in t or t.startswith("any") and "!=0" in t
        ctx.check(ok, a, "residual-guard-polarity", "the residual test is `%s`; it must raise when some residual is non-zero" % t, node=hit.stmt)
    # the ILP definition of sol is confined to mode None
    ilp = [s for s in walk_shallow(fn) if isinstance(s, ast.Assign) and U(s.targets[0]) == "sol" and "_solve_balancing_ilp_pulp(A)" in U(s.value)]
    ctx.check(len(ilp) == 1, a, "ilp-single-site", "ILP solution assigned at %d sites" % len(ilp), node=fn)
    for mode in ("True", "False"):
        env = dict(consts)
        env["underdetermined"] = MODES[mode]
        g = build(fn, prune=_pruner(env))
        live = bool(ilp) and g.live(ilp[0])
        ctx.check(not live, a, "ilp-only-in-mode-None:" + mode, "the ILP replaces the null-space vector also when underdetermined=%s" % mode, node=ilp[0] if ilp else fn)


def r4_determinacy(ctx):
    fn, final, consts = _setup(ctx)
    a = CHEM + ":balance_stoichiometry"
    gs = _guards(fn, lambda g: any("free_symbols" in U(t) for t, _ in g.tests()) and any(U(i.iter) == "sol" for i in g.iters()))
    hit = _on_all_paths(ctx, fn, final, consts, "False", gs)
    ctx.check(hit is not None, a, "determinacy-guard:mode=False", "with underdetermined=False a raise on free symbols in any coefficient must dominate the return", node=final)
    if hit is not None:
        t = [S(t) for t, pol in hit.tests() if "free_symbols" in S(t)][0]
        ctx.check(t in ("lenx.free_symbols!=0", "lenx.free_symbols>0", "x.free_symbols"), a, "determinacy-polarity", "free-symbol test is `%s`" % t, node=hit.stmt)


def r5_canonical(ctx):
    fn, final, consts = _setup(ctx)
    a = CHEM + ":balance_stoichiometry"
    divs = [s for s in fn.body if (isinstance(s, ast.AugAssign) and isinstance(s.op, ast.Div) and U(s.target) == "sol" and (same(s.value, "reduce(gcd, sol)") or same(s.value, "gcd(sol)") or same(s.value, "gcd(*sol)")))]
    if not divs:
        ctx.violation(a, "gcd-division", "the solution vector is no longer divided by the gcd of its entries (coprimality)", node=fn)
        return
    d = divs[-1]
    for mode in MODES:
        env = dict(consts)
        env["underdetermined"] = MODES[mode]
        g = build(fn, prune=_pruner(env))
        if not g.live(d):
            ctx.violation(a, "gcd-division:mode=" + mode, "the gcd division is not executed when underdetermined=%s" % mode, node=d)
            continue
        nd, nf = g.node_of(d), g.node_of(final)
        ok = g.must_pass({nd}, nf)
        # after the gcd division only value-preserving redefinitions (nsimplify) may follow
        later = [x for x in defs_of(g, "sol") if x in g.reach(nd) and nf in g.reach(x)]
        ok2 = all(same(g.nodes[x].stmt, "sol = nsimplify(sol)") for x in later)
        ctx.check(ok and ok2, a, "gcd-division:mode=" + mode, "division by the gcd must follow the last external definition of sol on every path (mode %s); later definitions: %s" % (
            mode, [U(g.nodes[x].stmt) for x in later]), node=d)
    x = ctx.func(CHEM, "balance_stoichiometry._x")
    ret = [n for n in walk_shallow(x) if isinstance(n, ast.Return)][-1]
    ctx.check(same(ret.value, "int(coeff) if underdetermined is None else coeff", scope=x), a + "._x", "int-in-ilp-mode", "coefficients returned as %s" % U(ret.value), node=ret)


def r6_keys(ctx):
    fn, final, consts = _setup(ctx)
    a = CHEM + ":balance_stoichiometry"
    defs = [s for s in walk_shallow(fn) if isinstance(s, ast.Assign) and U(s.targets[0]) == "subst_keys"]
    ctx.check(len(defs) == 1 and same(defs[0].value, "list(reactants) + list(products)"), a, "key-list", "subst_keys must be defined once as list(reactants) + list(products); found %s" % [U(d.value) for d in defs], node=fn)
    A = [s for s in walk_shallow(fn) if isinstance(s, ast.Assign) and U(s.targets[0]) == "A" and "MutableDenseMatrix" in U(s.value)]
    ok = len(A) == 1 and has(A[0].value, "[[_get(ck, sk) for sk in subst_keys] for ck in cks]")
    ctx.check(ok, a, "matrix-columns=key-list", "matrix must have one column per subst_keys entry and one row per composition key; found %s" % (U(A[0].value) if A else None), node=fn)
    x = ctx.func(CHEM, "balance_stoichiometry._x")
    ctx.check(has(x, "coeff = sol[subst_keys.index(k)]"), a + "._x", "lookup-same-key-list", "coefficient lookup must index sol with subst_keys.index(k)", node=x)
    g_ = ctx.func(CHEM, "balance_stoichiometry._get")
    ctx.check(has(g_, "substances[sk].composition.get(ck, 0) * (-1 if sk in reactants else 1)"), a + "._get", "reactants-negated", "reactant columns must be negated: %s" % U(g_.body[-1]), node=g_)
    ok = isinstance(final.value, ast.Tuple) and len(final.value.elts) == 2 and \
        same(final.value.elts[0], "OrderedDict([(k, _x(k)) for k in reactants])", scope=final) and same(final.value.elts[1], "OrderedDict([(k, _x(k)) for k in products])", scope=final)
    ctx.check(ok, a, "result-over-given-species", "the two results must be mappings over exactly `reactants` and `products`", node=final)
    ctx.check(has(fn, "cks = Substance.composition_keys(substances.values())"), a, "all-composition-keys", "rows must be all composition keys (incl. charge)", node=fn)
    ctx.check(has(fn, "sol, = linsolve((A, zeros(len(cks), 1)), symbs)"), a, "homogeneous-system", "the null space must be that of A x = 0", node=fn)


def r7_duplicates(ctx):
    fn, final, consts = _setup(ctx)
    a = CHEM + ":balance_stoichiometry"
    top = [s for s in fn.body if isinstance(s, ast.If) and U(s.test) == "_intersect"]
    if not top:
        raise AnalysisError("balance_stoichiometry: `if _intersect:` not found")
    blk = top[0]
    g = build(fn)
    nxt = fn.body[fn.body.index(blk) + 1]
    reach_t = g.reach(g.node_of(blk), first_labels={"T"})
    ctx.check(g.node_of(nxt) not in reach_t, a, "duplicate-branch-cannot-fall-through",
              "with species on both sides the duplicate search must end in `return result` or `raise`; it can fall through to the main algorithm", node=blk)
    # each search loop: except -> continue, exhaustion of the last loop -> raise
    loops = [lp for lp in for_loops(blk) if any(isinstance(x, ast.Try) for x in lp.body)]
    ctx.check(len(loops) == 2, a, "two-search-loops", "expected the drop-duplicate loop and the brute-force loop; found %d" % len(loops), node=blk)
    if loops:
        last = loops[-1]
        ok = bool(last.orelse) and isinstance(last.orelse[-1], ast.Raise) and exc_name(last.orelse[-1]) == "ValueError"
        ctx.check(ok, a, "exhaustion-raises", "when every assignment of the duplicates fails the search must raise ValueError (for...else)", node=last)
        for i, lp in enumerate(loops):
            tr = [x for x in lp.body if isinstance(x, ast.Try)][0]
            ok = all(len(h.body) == 1 and isinstance(h.body[0], ast.Continue) for h in tr.handlers) and tr.orelse and isinstance(tr.orelse[-1], ast.Return) and U(tr.orelse[-1].value) == "result"
            ctx.check(ok, a, "search-loop-%d" % i, "a failed attempt must `continue`, a successful one `return result`", node=tr)
    ctx.check(has(blk, "raise ValueError('Substances on both sides: %s' % str(_intersect))"), a, "duplicates-rejected-by-default", "without allow_duplicates species on both sides must raise", node=blk)


def r8_ilp(ctx):
    fn = ctx.func(CHEM, "_solve_balancing_ilp_pulp")
    a = CHEM + ":_solve_balancing_ilp_pulp"
    var = [c for c in calls_in(fn) if call_name(c) == "pulp.LpVariable"]
    ok = len(var) == 1 and isinstance(kwarg(var[0], "lowBound"), ast.Constant) and kwarg(var[0], "lowBound").value == 1 and isinstance(kwarg(var[0], "cat"), ast.Constant) and kwarg(var[0], "cat").value == "Integer"
    ctx.check(ok, a, "x>=1-integer", "variables must be integer with lower bound 1; found %s" % (U(var[0]) if var else None), node=fn)
    ctx.check(has(fn, "for i in range(A.shape[1])"), a, "one-variable-per-species", "one variable per matrix column", node=fn)
    ctx.check(has(fn, "pulp.LpProblem('chempy_balancing_problem', pulp.LpMinimize)") and has(fn, "prob += reduce(add, x)"), a, "min-sum", "objective must be min sum(x)", node=fn)
    ctx.check(has(fn, "pulp.lpSum([x[i] * e for i, e in enumerate(row)]) for row in A.tolist()") and has(fn, "prob += expr == 0"), a, "A-x=0", "every row must be constrained to A x = 0", node=fn)
    ctx.check(has(fn, "return [pulp.value(_) for _ in x]"), a, "returns-all-values", "must return the value of every variable in order", node=fn)


def r9_presence_precheck(ctx):
    """the up-front refusal fires only when a component is really absent from one side (a negative amount, i.e. charge, counts as present)"""
    fn, final, consts = _setup(ctx)
    a = CHEM + ":balance_stoichiometry"
    outer = [lp for lp in for_loops(fn) if U(lp.iter) == "cks" and lp in fn.body]
    if len(outer) != 1:
        raise AnalysisError("balance_stoichiometry: presence pre-check loop over cks not found")
    lp = outer[0]
    inner = [l2 for l2 in lp.body if isinstance(l2, ast.For)]
    sides = {}
    for l2 in inner:
        side = U(l2.iter)
        v = target_names(l2.target)[0]
        t = None
        for s_ in l2.body:
            if isinstance(s_, ast.If) and any(isinstance(b, ast.Break) for b in s_.body):
                t = s_.test
        sides[side] = (v, t, l2)
    for side, other in (("reactants", "products"), ("products", "reactants")):
        if side not in sides:
            ctx.violation(a, "presence-test:" + side, "no presence loop over %s" % side, node=lp)
            continue
        v, t, l2 = sides[side]
        ok = t is not None and same(t, "substances[%s].composition.get(ck, 0) != 0" % v, scope=fn)
        ctx.check(ok, a, "presence-test:" + side, "a component is present on the %s side iff some species has a NON-ZERO amount of it (net charge may be negative); found `%s`: anion-only sides would be "
                  "refused although a positive balanced solution exists" % (side, U(t) if t is not None else None), node=l2)
        # absent: refuse unless the other side carries it with both signs
        els = l2.orelse
        txt_ok = bool(els) and has(ast.Module(body=els, type_ignores=[]), "if any_pos and any_neg: pass else: raise ValueError(", scope=fn) and \
            has(ast.Module(body=els, type_ignores=[]), "any(substances[pk].composition.get(ck, 0) > 0 for pk in %s)" % other, scope=fn) and \
            has(ast.Module(body=els, type_ignores=[]), "any(substances[pk].composition.get(ck, 0) < 0 for pk in %s)" % other, scope=fn)
        ctx.check(txt_ok, a, "absent-refused-unless-self-cancelling:" + side, "when a component is absent from the %s the reaction must be refused unless the %s carry it with both signs" % (side, other), node=l2)


def _elementwise_kind(comp, fnscope):
    """Classify `[f(arg) for arg in <src>]`: 'uniform' (every entry times/over one scalar), 'reparam' (a substitution applied to
    every entry), 'convert' (a type conversion of every entry), 'bad:<why>' (not the same homogeneous map on every entry), None (unknown)."""
    if not isinstance(comp, (ast.ListComp, ast.GeneratorExp)) or len(comp.generators) != 1:
        return None
    g = comp.generators[0]
    if g.ifs:
        return "bad:entries filtered"
    if not isinstance(g.target, ast.Name):
        return None
    if isinstance(g.iter, ast.Subscript):
        return "bad:source sliced (%s)" % U(g.iter)
    v = g.target.id
    e = comp.elt
    kinds = set()
    # peel method calls .expand() / .subs(...) / .simplify()
    while isinstance(e, ast.Call) and isinstance(e.func, ast.Attribute) and e.func.attr in ("expand", "subs", "simplify", "doit"):
        if e.func.attr == "subs":
            if any(v in names_in(x) for x in e.args):
                return "bad:substitution depends on the entry"
            kinds.add("reparam")
        e = e.func.value
    if isinstance(e, ast.Call) and call_name(e) in ("Integer", "int", "nsimplify", "Rational") and len(e.args) == 1 and U(e.args[0]) == v:
        kinds.add("convert")
        e = e.args[0]
    if isinstance(e, ast.Name) and e.id == v:
        return "+".join(sorted(kinds)) or "identity"
    if isinstance(e, ast.BinOp):
        if isinstance(e.op, (ast.Add, ast.Sub)):
            return "bad:entry shifted by a constant (%s)" % U(e)
        if isinstance(e.op, (ast.Mult, ast.Div)):
            l, r = e.left, e.right
            if isinstance(l, ast.Name) and l.id == v and v not in names_in(r):
                kinds.add("uniform")
                return "+".join(sorted(kinds))
            if isinstance(e.op, ast.Mult) and isinstance(r, ast.Name) and r.id == v and v not in names_in(l):
                kinds.add("uniform")
                return "+".join(sorted(kinds))
            return "bad:not a scalar multiple of the entry (%s)" % U(e)
        if isinstance(e.op, ast.Pow):
            return "bad:entry raised to a power (%s)" % U(e)
    return None


def r10_nullspace_preserved(ctx):
    """Between linsolve and the guards the solution vector is only rescaled as a whole or re-parametrised: a vector of the null space of A
    stays one, identically in the free parameters (mode True has no residual guard, so this is what keeps its answers balanced)."""
    fn, final, consts = _setup(ctx)
    a = CHEM + ":balance_stoichiometry"

    def classify(st, scope, name):
        """kind of one (re)definition of the vector `name`"""
        if isinstance(st, ast.AugAssign):
            if isinstance(st.op, (ast.Div, ast.Mult)):
                return "uniform"
            return "bad:%s" % U(st)
        v = st.value
        if isinstance(st.targets[0], (ast.Tuple, ast.List)) and isinstance(v, ast.Call) and call_name(v) == "linsolve":
            return "source:linsolve"
        if isinstance(v, ast.Call) and call_name(v) == "nsimplify" and U(v.args[0]) == name:
            return "identity"
        if isinstance(v, ast.Call) and call_name(v) == "remove" and U(v.args[0]) == name:
            return "call:remove"
        if isinstance(v, ast.Call) and call_name(v) == "Tuple" and "_solve_balancing_ilp_pulp(A)" in U(v):
            comp = v.args[0].value if v.args and isinstance(v.args[0], ast.Starred) else None
            k = _elementwise_kind(comp, scope)
            return "source:ilp" if k == "convert" and U(comp.generators[0].iter) == "_solve_balancing_ilp_pulp(A)" else ("bad:ILP result reshaped (%s)" % k)
        # <name>.func(*[...]) / MutableDenseMatrix([...]).reshape(len(name), 1)
        comp = None
        if isinstance(v, ast.Call) and U(v.func) == "%s.func" % name and len(v.args) == 1 and isinstance(v.args[0], ast.Starred):
            comp = v.args[0].value
            src_ok = U(comp.generators[0].iter) == "%s.args" % name if isinstance(comp, (ast.ListComp, ast.GeneratorExp)) else False
        elif isinstance(v, ast.Call) and isinstance(v.func, ast.Attribute) and v.func.attr == "reshape" and isinstance(v.func.value, ast.Call) \
                and call_name(v.func.value) in ("MutableDenseMatrix", "Matrix") and [U(x) for x in v.args] == ["len(%s)" % name, "1"]:
            comp = v.func.value.args[0]
            src_ok = U(comp.generators[0].iter) == name if isinstance(comp, (ast.ListComp, ast.GeneratorExp)) else False
        elif isinstance(v, ast.BinOp) and isinstance(v.op, (ast.Div, ast.Mult)) and U(v.left) == name and name not in names_in(v.right):
            return "uniform"
        if comp is not None:
            k = _elementwise_kind(comp, scope)
            if k is None:
                return None
            if k.startswith("bad:"):
                return k
            if not src_ok:
                return "bad:not every entry of %s is mapped (%s)" % (name, U(comp.generators[0].iter))
            return k
        return None

    n = 0
    for st in walk_shallow(fn):
        is_def = (isinstance(st, ast.Assign) and "sol" in [x for t in st.targets for x in target_names(t)]) or (isinstance(st, ast.AugAssign) and U(st.target) == "sol")
        if not is_def:
            continue
        k = classify(st, fn, "sol")
        n += 1
        if k is None:
            raise AnalysisError("balance_stoichiometry: unrecognised redefinition of the solution vector: %s" % U(st))
        ctx.check(not k.startswith("bad:"), a, "sol-def:%s" % U(st)[:60], "the solution vector may only be rescaled as a whole or re-parametrised; `%s` is %s" % (U(st), k), node=st, kind=k)
    rm = ctx.func(CHEM, "balance_stoichiometry.remove")
    for st in walk_shallow(rm):
        if isinstance(st, ast.Assign) and U(st.targets[0]) == "cont":
            k = classify(st, rm, "cont")
            if k is None:
                raise AnalysisError("balance_stoichiometry.remove: unrecognised redefinition: %s" % U(st))
            ctx.check(not k.startswith("bad:"), a + ".remove", "cont-def", "`%s` is %s" % (U(st), k), node=st, kind=k)
    ret = [x for x in walk_shallow(rm) if isinstance(x, ast.Return)]
    ctx.check(len(ret) == 1 and U(ret[0].value) == "cont", a + ".remove", "returns-mapped-vector", "remove() must return the mapped vector", node=rm)
    # the switch itself is rebound only to normalise the deprecated literal 1 to None
    rebinds = [st for st in walk_shallow(fn) if isinstance(st, ast.Assign) and "underdetermined" in [x for t in st.targets for x in target_names(t)]]
    okr = True
    for st in rebinds:
        par = [i for i in walk_shallow(fn) if isinstance(i, ast.If) and any(x is st for x in i.body)]
        okr = okr and len(par) == 1 and isinstance(par[0].test, ast.Compare) and isinstance(par[0].test.ops[0], ast.Is) and U(par[0].test.left) == "underdetermined" \
            and consts.get(U(par[0].test.comparators[0]), UNK) == 1 and type(consts.get(U(par[0].test.comparators[0]))) is int and U(st.value) == "None"
    ctx.check(okr, a, "switch-rebound-only-from-1", "the under-determination switch may be rebound only as `if underdetermined is <1>: underdetermined = None`; rebinds: %s" % [U(x) for x in rebinds], node=fn)
    # omitted arguments
    d = none_default(fn, "substances")
    ctx.check(d is not None and has(d, "OrderedDict([(k, substance_factory(k)) for k in chain(reactants, products)])", scope=fn), a, "default-substances",
              "given substances must be used as given; only `substances is None` builds them from the species names", node=fn)
    d = none_default(fn, "parametric_symbols")
    ctx.check(d is not None and "numbered_symbols(" in U(d), a, "default-symbols", "parametric symbols default only when None", node=fn)
    # the sign test of a parametric answer (`x.is_negative`) can only decide when the free symbols are known to be positive integers
    calls_ = [c for c in ast.walk(d) if isinstance(c, ast.Call) and (call_name(c) or "").split(".")[-1] == "numbered_symbols"] if d is not None else []
    kw_ = {k.arg: U(k.value) for c in calls_ for k in c.keywords}
    ctx.check(bool(calls_) and kw_.get("integer") == "True" and kw_.get("positive") == "True", a, "default-symbols-positive-integers",
              "the default free symbols must be created with integer=True and positive=True (a coefficient like -2*x1 - 1 is only recognised as negative, "
              "and the wrong-side answer refused, when x1 is known to be positive); found %s" % kw_, node=calls_[0] if calls_ else fn)
    # recursive attempts keep the sides where the caller put them
    rec = [c for c in calls_in(fn) if call_name(c) == "balance_stoichiometry"]
    for i, c in enumerate(rec):
        a0, a1 = U(c.args[0]), U(c.args[1])
        ok = (("reactants" in a0 and "products" not in a0) or a0 == "r") and (("products" in a1 and "reactants" not in a1) or a1 == "p")
        ctx.check(ok, a, "recursion-keeps-sides:%d" % i, "a recursive attempt must pass the (reduced) reactants first and products second; found (%s, %s)" % (a0[:40], a1[:40]), node=c)
        # ... and solve the reduced problem in the caller's mode with the caller's species: these arguments are forwarded unchanged
        kws = {k.arg: U(k.value) for k in c.keywords if k.arg}
        for nm in ("underdetermined", "substances", "substance_factory"):
            ctx.check(kws.get(nm) == nm and len(c.args) == 2, a, "recursion-forwards:%s:%d" % (nm, i),
                      "a recursive attempt must be made with %s=%s (the caller's); found %s" % (nm, nm, kws.get(nm, "<not passed: the default>")), node=c)
    for nm, src in (("r", "set(reactants)"), ("p", "set(products)")):
        ds = [st for st in walk_shallow(fn) if isinstance(st, ast.Assign) and U(st.targets[0]) == nm]
        ctx.check(len(ds) == 1 and U(ds[0].value) == src, a, "trial-side:%s" % nm, "`%s` must start as %s" % (nm, src), node=fn)


RULES = [
    Rule("C02-R1", r1_positivity, 6, "positivity guard dominates the return in all three modes"),
    Rule("C02-R2", r2_zero, 3, "zero-coefficient guard in all three modes"),
    Rule("C02-R3", r3_residual, 4, "residual guard in ILP mode; ILP confined to mode None"),
    Rule("C02-R4", r4_determinacy, 2, "free-symbol guard in mode False"),
    Rule("C02-R5", r5_canonical, 4, "gcd division after the last external definition; int() in ILP mode"),
    Rule("C02-R6", r6_keys, 7, "one key list for matrix columns and lookup; results over given species"),
    Rule("C02-R7", r7_duplicates, 5, "duplicate search cannot fall through"),
    Rule("C02-R8", r8_ilp, 5, "ILP formulation"),
    Rule("C02-R9", r9_presence_precheck, 4, "presence pre-check: non-zero (not positive) amount counts as present"),
    Rule("C02-R10", r10_nullspace_preserved, 21, "solution vector only rescaled as a whole / re-parametrised; switch rebinding; defaults; recursion keeps sides"),
]

_POS = '    if any(x.is_negative for x in sol):\n        raise ValueError("Unable to balance: species given on the wrong side.")\n'
MUTANTS = [
    Mutant("positivity-guard-removed", [(CHEM, _POS, "")], "C02-R1", "positivity"),
    Mutant("positivity-guard-before-ilp", [(CHEM, _POS, ""), (CHEM, "    if underdetermined is None:\n        sol = Tuple(", _POS + "    if underdetermined is None:\n        sol = Tuple(")], "C02-R1", "mode=None"),
    Mutant("positivity-only-when-determined", [(CHEM, _POS, "    if not underdetermined:\n        if any(x.is_negative for x in sol):\n            raise ValueError(\"wrong side\")\n")], "C02-R1", "mode=True"),
    Mutant("zero-guard-removed", [(CHEM, '    if 0 in sol:\n        raise ValueError("Superfluous species given.")\n', "")], "C02-R2", "zero"),
    Mutant("residual-guard-mode-false-only", [(CHEM, "        if not all(residual == 0 for residual in A * sol):", "        if underdetermined is False and not all(residual == 0 for residual in A * sol):")], "C02-R3", "residual"),
    Mutant("residual-any", [(CHEM, "if not all(residual == 0 for residual in A * sol):", "if not any(residual == 0 for residual in A * sol):")], "C02-R3", "polarity"),
    Mutant("ilp-in-all-modes", [(CHEM, "    if underdetermined is None:\n        sol = Tuple(", "    if not underdetermined:\n        sol = Tuple(")], "C02-R3", "ilp-only"),
    Mutant("determinacy-guard-removed", [(CHEM, "            if len(x.free_symbols) != 0:\n                raise ValueError(\"The system was under-determined\")", "            if len(x.free_symbols) != 0:\n                pass")], "C02-R4", "determinacy"),
    Mutant("gcd-before-ilp", [(CHEM, "    sol /= reduce(gcd, sol)\n", ""), (CHEM, "    if underdetermined is None:\n        sol = Tuple(", "    sol /= reduce(gcd, sol)\n    if underdetermined is None:\n        sol = Tuple(")], "C02-R5", "gcd"),
    Mutant("no-int-in-ilp", [(CHEM, "return int(coeff) if underdetermined is None else coeff", "return coeff")], "C02-R5", "int"),
    Mutant("lookup-other-key-order", [(CHEM, "coeff = sol[subst_keys.index(k)]", "coeff = sol[sorted(subst_keys).index(k)]")], "C02-R6", "lookup"),
    Mutant("reactants-not-negated", [(CHEM, "* (-1 if sk in reactants else 1)", "* (-1 if sk in products else 1)")], "C02-R6", "negated"),
    Mutant("duplicates-fall-through", [(CHEM, "            else:\n                raise ValueError(\"Failed to remove duplicate keys: %s\" % _intersect)\n", "")], "C02-R7", ""),
    Mutant("ilp-lowbound-0", [(CHEM, 'lowBound=1, cat="Integer"', 'lowBound=0, cat="Integer"')], "C02-R8", "x>=1"),
]

MUTANTS.append(Mutant("presence-positive-only", [(CHEM, "        for rk in reactants:\n            if substances[rk].composition.get(ck, 0) != 0:", "        for rk in reactants:\n            if substances[rk].composition.get(ck, 0) > 0:")], "C02-R9", "presence-test:reactants"))
MUTANTS.append(Mutant("ilp-int-cast", [(CHEM, "pulp.lpSum([x[i] * e for i, e in enumerate(row)])", "pulp.lpSum([x[i] * int(e) for i, e in enumerate(row)])")], "C02-R8", "A-x=0"))

TWINS = [
    Twin("positivity-explicit-loop", [(CHEM, _POS, "    for coeff_ in sol:\n        if coeff_.is_negative:\n            raise ValueError(\"wrong side\")\n")]),
    Twin("positivity-lt-0", [(CHEM, _POS, "    if any(x < 0 for x in sol if x.is_number):\n        raise ValueError(\"wrong side\")\n")]),
    Twin("zero-guard-any", [(CHEM, "    if 0 in sol:\n", "    if any(x == 0 for x in sol):\n")]),
]
MUTANTS.append(Mutant("sol-shifted-not-scaled", [(CHEM, "sol = sol.func(*[arg / cd for arg in sol.args])", "sol = sol.func(*[arg - cd for arg in sol.args])")], "C02-R10", "sol-def"))
MUTANTS.append(Mutant("sol-entry-dropped", [(CHEM, "MutableDenseMatrix([e / fact for e in sol]).reshape(len(sol), 1)", "MutableDenseMatrix([e / fact for e in sol if e != 1]).reshape(len(sol), 1)")], "C02-R10", "sol-def"))
MUTANTS.append(Mutant("switch-rebound-for-every-mode", [(CHEM, "if underdetermined is integer_one:", "if underdetermined is not integer_one:")], "C02-R10", "switch-rebound"))
MUTANTS.append(Mutant("recursion-swaps-sides", [(CHEM, "                        [sp for sp in reactants if sp != dupl],\n                        [sp for sp in products if sp != dupl],", "                        [sp for sp in products if sp != dupl],\n                        [sp for sp in reactants if sp != dupl],")], "C02-R10", "recursion-keeps-sides"))
MUTANTS.append(Mutant("recursion-drops-mode", [(CHEM, "                        parametric_symbols=parametric_symbols,\n                        underdetermined=underdetermined,\n", "                        parametric_symbols=parametric_symbols,\n")], "C02-R10", "recursion-forwards:underdetermined"))
MUTANTS.append(Mutant("default-symbols-not-positive", [(CHEM, 'numbered_symbols("x", start=1, integer=True, positive=True)', 'numbered_symbols("x", start=1, integer=True)')], "C02-R10", "default-symbols-positive"))
MUTANTS.append(Mutant("recursion-default-substances", [(CHEM, "                        [sp for sp in products if sp != dupl],\n                        substances=substances,\n", "                        [sp for sp in products if sp != dupl],\n")], "C02-R10", "recursion-forwards:substances"))
MUTANTS.append(Mutant("given-substances-ignored", [(CHEM, "    if substances is None:\n        substances = OrderedDict(\n            [(k, substance_factory(k)) for k in chain(reactants, products)]", "    if substances is not None:\n        substances = OrderedDict(\n            [(k, substance_factory(k)) for k in chain(reactants, products)]")], "C02-R10", "default-substances"))
TWINS.append(Twin("sol-matrix-division", [(CHEM, "sol = sol.func(*[arg / cd for arg in sol.args])", "sol = sol.func(*[arg * (1 / cd) for arg in sol.args])")]))
MUTANTS.append(Mutant("positivity-guard-reactants-only", [(CHEM, _POS, "    for sk_, coeff_ in zip(reactants, sol):\n        if coeff_.is_negative:\n            raise ValueError(\"wrong side\")\n")], "C02-R1", "covers-all"))

