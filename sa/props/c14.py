"""C14 -- molar mass is the composition-weighted sum of standard atomic weights."""
from __future__ import annotations

import ast
from fractions import Fraction

from ..astu import (has, U, dotted, walk_shallow, fold, NotLiteral, fold_module_tables, linform, monomial,
                    mono_str, call_name, calls_in, _num, names_in)
from ..core import AnalysisError, Mutant, Rule, Twin
from ..idioms import for_loops, target_names
from ..tables import CODATA, NAME_VARIANTS, iupac_table, IUPAC
from .c01 import check_offsets, PARSING, PERIODIC

ID = "C14"
CHEM = "chempy/chemistry.py"
ENGINES = ["E0 core", "E1 tables", "E4 linform"]
TECHNIQUE = "literal-table comparison against an embedded IUPAC table + linear/monomial normal forms of the mass formulas (ast)"
CLAIM = ("Decides: _elements agrees with the IUPAC table (118 symbols, names, abridged weights within 2.5 units of the last common decimal, mass "
         "numbers within 4 u); derived tuples use the right columns; Z<->index offsets; mass = sum v*m[k-1] - v0*m_e; "
         "case-normalised lookup; mass fractions share one term."
         ' Both mass terms accumulated; stored mass wins; defaults. Shared rule A1: no swapped same-named arguments at resolved in-package call sites.')
DOES_NOT_DECIDE = "float rounding; masses supplied through data['mass']; additivity over formulas (follows from C01 + R3 only modulo arithmetic)"
ASSUMPTIONS = ["embedded IUPAC abridged standard atomic weights (2013-2021 revisions agree within tolerance)",
               "CODATA electron mass 5.4858e-4 u"]

REL_TOL = 2e-4  # (historic) superseded by _digit_tol


def _decimals(txt):
    txt = str(txt)
    return len(txt.split(".")[1]) if "." in txt else 0


def _digit_tol(ref_txt, value):
    """2.5 units in the last decimal place that the reference and the repository value have in common:
    IUPAC revisions move a weight by a few units of its last digit at most, a typo moves it by more."""
    d = min(_decimals(ref_txt), _decimals(repr(float(value))))
    return 2.5 * 10 ** (-d)
ABS_TOL_BRACKET = 4.0


def _env(ctx):
    m = ctx.mod(PERIODIC)
    env = fold_module_tables(m.tree)
    if "_elements" not in env:
        raise AnalysisError("cannot fold periodic._elements to a literal table")
    return m, env


def r1_element_table(ctx):
    m, env = _env(ctx)
    el = env["_elements"]
    ref = iupac_table()
    ref_text = {int(l.split()[0]): l.split()[3] for l in IUPAC.strip().splitlines()}
    anchor = PERIODIC + ":_elements"
    ctx.check(len(el) == 118, anchor, "rows=118", "_elements has %d rows, expected 118" % len(el))
    for z in range(1, min(len(el), 118) + 1):
        row = el[z - 1]
        sym, name, w, radio = ref[z]
        if len(row) < 4:
            ctx.violation(anchor, "row-shape:Z=%d" % z, "row %d has %d columns" % (z, len(row)))
            continue
        ok_sym = row[0] == sym
        ok_name = row[1] == name or row[1] in NAME_VARIANTS.get(name, ())
        mass = row[2]
        try:
            if isinstance(mass, str):
                if not (mass.startswith("[") and mass.endswith("]")):
                    raise ValueError
                val = float(mass[1:-1])
                ok_mass = abs(val - w) <= ABS_TOL_BRACKET
                if ok_mass and val != round(val):
                    ok_mass = False
            else:
                val = float(mass)
                ok_mass = abs(val - w) <= (ABS_TOL_BRACKET if radio else _digit_tol(ref_text[z], mass))
        except (ValueError, TypeError):
            ok_mass, val = False, mass
        ok_unc = isinstance(row[3], (int, float)) and row[3] >= 0 and (isinstance(mass, str) or row[3] < 0.02 * float(val))
        ctx.check(ok_sym and ok_name and ok_mass and ok_unc, anchor, "Z=%d" % z,
                  "row for Z=%d is %r; IUPAC: symbol %s, name %s, weight %s%s" % (z, row, sym, name, w, " (mass number)" if radio else ""),
                  row=list(row), symbol_ok=ok_sym, name_ok=ok_name, mass_ok=ok_mass, uncertainty_ok=ok_unc)
    # derived tuples
    for nm, col, fn in (("symbols", 0, None), ("names", 1, None), ("lower_names", 1, str.lower)):
        if nm not in env:
            raise AnalysisError("cannot fold periodic.%s" % nm)
        want = tuple((fn(r[col]) if fn else r[col]) for r in el)
        ctx.check(tuple(env[nm]) == want, PERIODIC + ":" + nm, "derived-column",
                  "%s is not column %d of _elements%s" % (nm, col, " lower-cased" if fn else ""), node=_assign_node(m, nm))
    # relative_atomic_masses: float() of column 2, brackets stripped for '[A]' entries.  The constant is folded (the table-building generator is
    # evaluated on the literal table: constant propagation of a module-level constant); only when that is out of the folder's reach is the
    # spelling of the generator examined instead
    gen = ctx.func(PERIODIC, "_get_relative_atomic_masses")
    a = PERIODIC + ":_get_relative_atomic_masses"
    ram = _assign_node(m, "relative_atomic_masses")
    folded = env.get("relative_atomic_masses")
    if isinstance(folded, (tuple, list)):
        want = []
        for r in el:
            try:
                want.append(float(r[2][1:-1]) if isinstance(r[2], str) and r[2].startswith("[") else float(r[2]))
            except (ValueError, TypeError):
                want.append(None)
        bad = [(i + 1, folded[i] if i < len(folded) else None, want[i]) for i in range(len(want)) if i >= len(folded) or folded[i] != want[i] or type(folded[i]) is not float]
        ctx.check(not bad and len(folded) == len(want), a, "masses=float(column-2)",
                  "relative_atomic_masses must be float(entry) of column 2 of every row of _elements, in order, brackets stripped for '[A]' entries; "
                  "%d entries, %d expected; first differences (Z, found, expected): %s" % (len(folded), len(want), bad[:4]), node=gen)
        for k in ("built-from-generator", "iterates-mass-column", "float-of-entry"):
            ctx.holds(a, k + ":by-folding")
        return
    ctx.check(isinstance(ram, ast.Call) and call_name(ram) == "tuple" and len(ram.args) == 1
              and isinstance(ram.args[0], ast.Call) and call_name(ram.args[0]) == "_get_relative_atomic_masses",
              PERIODIC + ":relative_atomic_masses", "built-from-generator",
              "relative_atomic_masses is not tuple(_get_relative_atomic_masses()): %s" % U(ram), node=ram)
    loops = for_loops(gen)
    if not loops:
        raise AnalysisError("anchor vanished: loop in _get_relative_atomic_masses")
    lp = loops[0]
    var = target_names(lp.target)[0]
    try:
        col = fold(lp.iter, {"_elements": el})
        col = list(col)
    except NotLiteral:
        col = None
    ctx.check(col is not None and list(col) == [r[2] for r in el], a, "iterates-mass-column",
              "the generator must iterate over column 2 (mass) of all of _elements; iterates %s" % U(lp.iter), node=lp)
    ys = [n for n in walk_shallow(lp) if isinstance(n, ast.Yield)]
    ok = bool(ys)
    for y in ys:
        v = y.value
        arms = [v.body, v.orelse] if isinstance(v, ast.IfExp) else [v]
        for arm in arms:
            if not (isinstance(arm, ast.Call) and call_name(arm) == "float" and len(arm.args) == 1
                    and U(arm.args[0]) in (var, "%s[1:-1]" % var)):
                ok = False
        if isinstance(v, ast.IfExp):
            t = U(v.test)
            if not ("startswith('[')" in t):
                ok = False
            # the stripped arm must belong to the bracket test
            if U(v.body.args[0]) != "%s[1:-1]" % var or U(v.orelse.args[0]) != var:
                ok = False
    ctx.check(ok, a, "float-of-entry", "each mass must be float(entry) with brackets stripped for '[A]' entries; found %s" % (
        [U(y.value) for y in ys]), node=ys[0] if ys else gen)


def _assign_node(m, name):
    """the module-level assignment of `name`, for the report's position only (None when the name is bound some other way, e.g. by unpacking)"""
    try:
        return m.assign(name)
    except AnalysisError:
        return None


def r2_offsets(ctx):
    check_offsets(ctx, [PARSING, PERIODIC])


def r3_mass_formula(ctx):
    fn = ctx.func(PERIODIC, "mass_from_composition")
    anchor = PERIODIC + ":mass_from_composition"
    loops = [f for f in for_loops(fn) if isinstance(f.iter, ast.Call) and isinstance(f.iter.func, ast.Attribute) and f.iter.func.attr == "items"]
    if not loops:
        raise AnalysisError("anchor vanished: loop over composition.items() in mass_from_composition")
    lp = loops[0]
    kn, vn = target_names(lp.target)
    ctx.check(U(lp.iter.func.value) == fn.args.args[0].arg, anchor, "iterates-whole-composition",
              "loop source is %s, expected the composition argument" % U(lp.iter), node=lp)
    ret = [n for n in walk_shallow(fn) if isinstance(n, ast.Return)]
    if not ret or not isinstance(ret[-1].value, ast.Name):
        raise AnalysisError("mass_from_composition does not return a name")
    acc = ret[-1].value.id
    init = [n for n in fn.body if isinstance(n, ast.Assign) and U(n.targets[0]) == acc]
    ctx.check(bool(init) and _num(init[0].value) == 0, anchor, "accumulator-starts-at-0",
              "mass accumulator does not start at 0", node=init[0] if init else fn)

    # contributions per branch
    def contribs(stmts, cond):
        out = []
        for s in stmts:
            if isinstance(s, ast.AugAssign) and U(s.target) == acc and isinstance(s.op, (ast.Add, ast.Sub)):
                out.append((cond, s, 1 if isinstance(s.op, ast.Add) else -1, s.value))
            elif isinstance(s, ast.Assign) and U(s.targets[0]) == acc and isinstance(s.value, ast.BinOp) \
                    and isinstance(s.value.op, (ast.Add, ast.Sub)) and U(s.value.left) == acc:
                out.append((cond, s, 1 if isinstance(s.value.op, ast.Add) else -1, s.value.right))
            elif isinstance(s, ast.If):
                out += contribs(s.body, (s.test, True))
                out += contribs(s.orelse, (s.test, False))
            elif isinstance(s, ast.Continue) or isinstance(s, ast.Break):
                out.append((cond, s, 0, None))
        return out

    cs = contribs(lp.body, None)
    el_ok = ch_ok = False
    for cond, s, sign, val in cs:
        if val is None:
            ctx.violation(anchor, "loop-skip", "mass loop skips entries (%s)" % U(s), node=s)
            continue
        is_charge = None
        if cond is not None:
            t, pol = cond
            tt = U(t).replace(" ", "")
            if tt in ("%s==0" % kn, "0==%s" % kn):
                is_charge = pol
            elif tt in ("%s!=0" % kn, "0!=%s" % kn, kn):
                is_charge = not pol
            elif tt == "not%s" % kn:
                is_charge = pol
        c, p = monomial(val)
        c *= sign
        if is_charge is True:
            # - v * m_e
            ok = set(p) == {vn} and p[vn] == {"1": 1} and c < 0 \
                and abs(float(-c) - CODATA["m_e_u"]) <= 1e-3 * CODATA["m_e_u"]
            ch_ok = ok
            ctx.check(ok, anchor, "electron-term", "charge term must be  - v * m_e  (m_e = 5.4858e-4 u within 0.1%%); found `%s` (%s)" % (
                U(s), mono_str((c, p))), node=s)
        elif is_charge is False:
            tab = "relative_atomic_masses[%s - 1]" % kn
            ok = c == 1 and set(p) == {vn, tab} and p[vn] == {"1": 1} and p[tab] == {"1": 1}
            el_ok = ok
            ctx.check(ok, anchor, "element-term", "element term must be  + v * relative_atomic_masses[k - 1]; found `%s` (%s)" % (
                U(s), mono_str((c, p))), node=s)
        else:
            ctx.violation(anchor, "unclassified-term", "mass update `%s` is not under a `k == 0` test" % U(s), node=s)
    if not (el_ok or any(x[0] is not None and x[3] is not None for x in cs)):
        raise AnalysisError("mass_from_composition: no classified mass update found")
    n_el = sum(1 for cond, s_, sign, val in cs if val is not None and cond is not None and sign > 0)
    n_ch = sum(1 for cond, s_, sign, val in cs if val is not None and cond is not None and sign < 0)
    ctx.check(n_el >= 1 and n_ch >= 1, anchor, "both-terms-present", "both the element term (+) and the electron term (-) must be accumulated; found %d element / %d electron updates" % (n_el, n_ch), node=lp)
    # Substance.mass: stored mass wins, else computed whenever a composition exists
    sm_ = ctx.func(CHEM, "Substance.mass")
    ctx.check(has(sm_, "try: return self.data['mass'] except KeyError: if self.composition is not None: return mass_from_composition(self.composition)"), CHEM + ":Substance.mass",
              "stored-else-computed", "a stored mass is returned as is; otherwise the mass is computed when there is a composition", node=sm_)
    mm_ = ctx.func(CHEM, "Substance.molar_mass")
    from ..idioms import none_default
    d_ = none_default(mm_, "units")
    ctx.check(d_ is not None and U(d_) == "default_units", CHEM + ":Substance.molar_mass", "given-units-used", "a given units module is used; the default only when None", node=mm_)
    ch_ = ctx.func(CHEM, "Substance.charge")
    ctx.check(has(ch_, "return self.composition.get(0, 0)"), CHEM + ":Substance.charge", "charge=composition[0]-or-0", "the charge is composition[0], 0 when absent", node=ch_)
    mf_ = ctx.func(CHEM, "mass_fractions")
    ctx.check(has(mf_, "if isinstance(stoichiometries, set): stoichiometries = {k: 1 for k in stoichiometries}"), CHEM + ":mass_fractions", "set->unit-coefficients", "a set of species means coefficient 1 each", node=mf_)
    d_ = none_default(mf_, "substances")
    ctx.check(d_ is not None and has(d_, "OrderedDict([(k, substance_factory(k)) for k in stoichiometries])", scope=mf_), CHEM + ":mass_fractions", "given-substances-used",
              "given substances are used; the default builds them from the keys", node=mf_)

    # Substance.mass falls back on its own composition
    sm = ctx.func(CHEM, "Substance.mass")
    cs2 = [c for c in calls_in(sm) if call_name(c) == "mass_from_composition"]
    ctx.check(len(cs2) == 1 and len(cs2[0].args) == 1 and U(cs2[0].args[0]) == "self.composition", CHEM + ":Substance.mass",
              "fallback-on-own-composition", "Substance.mass must fall back on mass_from_composition(self.composition)", node=sm)
    rets = [n for n in walk_shallow(sm) if isinstance(n, ast.Return)]
    ctx.check(any(isinstance(r.value, ast.Call) and call_name(r.value) == "mass_from_composition" for r in rets),
              CHEM + ":Substance.mass", "fallback-returned", "the computed mass is not returned unchanged", node=sm)
    # molar_mass = mass * g / mol
    mm = ctx.func(CHEM, "Substance.molar_mass")
    rets = [n for n in walk_shallow(mm) if isinstance(n, ast.Return)]
    c, p = monomial(rets[-1].value)
    want = {"self.mass": {"1": Fraction(1)}, "units.g": {"1": Fraction(1)}, "units.mol": {"1": Fraction(-1)}}
    ctx.check(c == 1 and p == want, CHEM + ":Substance.molar_mass", "mass*g/mol",
              "molar mass must be self.mass * units.g / units.mol; found %s" % mono_str((c, p)), node=rets[-1])


def _isfloat(s):
    try:
        float(Fraction(s))
        return True
    except (ValueError, ZeroDivisionError):
        return False


def r4_lookup(ctx):
    fn = ctx.func(PERIODIC, "atomic_number")
    anchor = PERIODIC + ":atomic_number"
    arg = fn.args.args[0].arg
    found = {}
    for c in calls_in(fn):
        if isinstance(c.func, ast.Attribute) and c.func.attr == "index" and dotted(c.func.value) in ("symbols", "lower_names", "names"):
            found[dotted(c.func.value)] = U(c.args[0]) if c.args else ""
    from .c01 import _derived_sites, derived_number_tables
    key_errors = set()
    for q, node, tname, key in _derived_sites(ctx, ctx.mod(PERIODIC)):
        if q == "atomic_number":    # a module-level dict standing for <base>.index(key) + 1 (its content is checked by C14-R2); misses raise KeyError
            found.setdefault(derived_number_tables(ctx)[tname][0], U(key))
            if isinstance(node, ast.Subscript):
                key_errors.add(derived_number_tables(ctx)[tname][0])
    ctx.check(found.get("symbols") == "%s.capitalize()" % arg, anchor, "symbol-lookup-capitalized",
              "symbol lookup must normalise case with .capitalize(); found %s" % found.get("symbols"), node=fn)
    ctx.check(found.get("lower_names") == "%s.lower()" % arg, anchor, "name-lookup-lowercased",
              "name lookup must be lower_names.index(name.lower()); found %s" % found, node=fn)
    # the fallback is reached on ValueError only and nothing is swallowed
    tr = [n for n in walk_shallow(fn) if isinstance(n, ast.Try)]
    ok = len(tr) == 1 and len(tr[0].handlers) == 1 and dotted(tr[0].handlers[0].type) == ("KeyError" if "symbols" in key_errors else "ValueError") \
        and (isinstance(tr[0].handlers[0].body[-1], ast.Return)
             or (isinstance(tr[0].handlers[0].body[-1], ast.Assign) and isinstance(tr[0].body[-1], ast.Assign) and len(tr[0].body) == 1 and not tr[0].orelse and not tr[0].finalbody
                 and U(tr[0].handlers[0].body[-1].targets[0]) == U(tr[0].body[-1].targets[0]) and isinstance(tr[0].body[-1].targets[0], ast.Name)
                 and any(isinstance(r_, ast.Return) and r_.value is not None and tr[0].body[-1].targets[0].id in names_in(r_.value) for r_ in fn.body[fn.body.index(tr[0]) + 1:])))
    ctx.check(ok, anchor, "fallback-on-ValueError", "the name lookup must be the ValueError fallback of the symbol lookup and return its result", node=fn)


MUTATORS = {"pop", "popitem", "clear", "update", "setdefault", "__setitem__", "__delitem__"}


def _mutations_of(fn, names):
    """statements of fn that mutate an object named by one of `names` (a parameter or self attribute)"""
    out = []
    for n in ast.walk(fn):
        if isinstance(n, ast.Call) and isinstance(n.func, ast.Attribute) and n.func.attr in MUTATORS and U(n.func.value) in names:
            out.append(n)
        elif isinstance(n, (ast.Assign, ast.AugAssign)):
            tg = n.targets if isinstance(n, ast.Assign) else [n.target]
            for t in tg:
                if isinstance(t, ast.Subscript) and U(t.value) in names:
                    out.append(n)
        elif isinstance(n, ast.Delete):
            for t in n.targets:
                if isinstance(t, ast.Subscript) and U(t.value) in names:
                    out.append(n)
    return out


def r7_no_mutation(ctx):
    """computing a mass must not change the composition it is computed from (the charge entry must survive)"""
    fn = ctx.func(PERIODIC, "mass_from_composition")
    arg = fn.args.args[0].arg
    muts = _mutations_of(fn, {arg})
    rebinds = [n for n in walk_shallow(fn) if isinstance(n, ast.Assign) and U(n.targets[0]) == arg]
    copied = any(isinstance(r.value, ast.Call) and (call_name(r.value) in ("dict", "copy.copy", "copy.deepcopy") or (isinstance(r.value.func, ast.Attribute) and r.value.func.attr == "copy")) for r in rebinds)
    ctx.check(not muts or copied, PERIODIC + ":mass_from_composition", "argument-not-mutated",
              "mass_from_composition mutates the composition it was given (%s): Substance.mass passes self.composition, so the first read of an ion's mass would strip its charge" % [U(m_)[:60] for m_ in muts],
              node=muts[0] if muts else fn)
    for q, names in (("Substance.mass", {"self.composition", "self.data"}), ("Substance.molar_mass", {"self.composition", "self.data"}), ("Substance.charge", {"self.composition"})):
        f2 = ctx.func(CHEM, q)
        m2 = _mutations_of(f2, names)
        ctx.check(not m2, CHEM + ":" + q, "state-not-mutated", "%s mutates the substance (%s)" % (q, [U(x)[:60] for x in m2]), node=m2[0] if m2 else f2)
    mf = ctx.func(CHEM, "mass_fractions")
    m3 = _mutations_of(mf, {"substances", "stoichiometries"})
    ctx.check(not m3, CHEM + ":mass_fractions", "arguments-not-mutated", "mass_fractions mutates its arguments (%s)" % [U(x)[:60] for x in m3], node=m3[0] if m3 else mf)


def r5_mass_fractions(ctx):
    fn = ctx.func(CHEM, "mass_fractions")
    anchor = CHEM + ":mass_fractions"
    # every mass is looked up by the key it is weighted for (never by position in another mapping)
    reads = [n for n in ast.walk(fn) if isinstance(n, ast.Attribute) and n.attr == "mass"]
    keyed = []
    for r in reads:
        ok_ = isinstance(r.value, ast.Subscript) and U(r.value.value) == "substances"
        if ok_:
            kname = U(r.value.slice)
            # the key must be bound by iterating the stoichiometries
            bound = False
            for comp in ast.walk(fn):
                if isinstance(comp, (ast.ListComp, ast.GeneratorExp, ast.DictComp, ast.SetComp)) and any(x is r for x in ast.walk(comp)):
                    for g in comp.generators:
                        if kname in target_names(g.target) and U(g.iter).startswith("stoichiometries"):
                            bound = True
                elif isinstance(comp, ast.For) and any(x is r for x in ast.walk(comp)):
                    if kname in target_names(comp.target) and U(comp.iter).startswith("stoichiometries"):
                        bound = True
            ok_ = bound
        keyed.append(ok_)
    ctx.check(bool(reads) and all(keyed), anchor, "mass-looked-up-by-key", "every mass in mass_fractions must be substances[k].mass for the key k of the stoichiometry entry it weights; "
              "pairing substances and stoichiometries by position breaks when the two mappings are ordered differently or one is a superset: %s" % [U(r) for r in reads], node=fn)
    if not (reads and all(keyed)):
        return
    # per-key tables built on the way (`masses = {k: substances[k].mass for k in stoichiometries}`) are read through: everything is brought to
    # an expression in K (the key of a stoichiometry entry) and V (its coefficient)
    import copy

    def over_stoich(gen):
        """(key name, value name or None) when the generator ranges over the entries of `stoichiometries`, unfiltered"""
        if gen.ifs or gen.is_async:
            return None
        it = U(gen.iter)
        tn_ = target_names(gen.target)
        if it in ("stoichiometries", "stoichiometries.keys()") and isinstance(gen.target, ast.Name):
            return gen.target.id, None
        if it == "stoichiometries.items()" and isinstance(gen.target, ast.Tuple) and len(tn_) == 2 and all(isinstance(e, ast.Name) for e in gen.target.elts):
            return tn_[0], tn_[1]
        return None

    tables = {}

    def generic(expr, kname, vname):
        """expr with the entry's key spelled K, its coefficient V, and reads of the per-key tables replaced by what they hold for K"""
        class T(ast.NodeTransformer):
            def visit_Subscript(self, n):
                if isinstance(n.value, ast.Name) and n.value.id in tables and isinstance(n.slice, ast.Name) and n.slice.id == kname:
                    return copy.deepcopy(tables[n.value.id])
                if U(n) == "stoichiometries[%s]" % kname:
                    return ast.Name(id="V", ctx=ast.Load())
                return self.generic_visit(n)

            def visit_Name(self, n):
                if n.id == kname:
                    return ast.Name(id="K", ctx=n.ctx)
                if vname is not None and n.id == vname:
                    return ast.Name(id="V", ctx=n.ctx)
                return n
        return T().visit(copy.deepcopy(expr))

    tot = None
    for n in walk_shallow(fn):
        if isinstance(n, ast.Assign) and len(n.targets) == 1 and isinstance(n.targets[0], ast.Name):
            if isinstance(n.value, ast.DictComp) and len(n.value.generators) == 1 and over_stoich(n.value.generators[0]):
                kn_, vn_ = over_stoich(n.value.generators[0])
                if U(n.value.key) == kn_:
                    tables[n.targets[0].id] = generic(n.value.value, kn_, vn_)
            elif isinstance(n.value, ast.Call) and call_name(n.value) == "sum":
                tot = n
    ret = [n for n in walk_shallow(fn) if isinstance(n, ast.Return)][-1]
    if tot is None or not isinstance(ret.value, ast.DictComp) or len(tot.value.args) != 1:
        raise AnalysisError("mass_fractions: unexpected shape (sum(...) / dict comprehension)")
    comp = tot.value.args[0]
    if isinstance(comp, (ast.ListComp, ast.GeneratorExp)) and len(comp.generators) == 1:
        src = over_stoich(comp.generators[0])
        ctx.check(src is not None, anchor, "same-mapping", "the total must run over every entry of the stoichiometries; it runs over `%s`" % U(comp.generators[0]), node=tot)
        if src is None:
            return
        summand = generic(comp.elt, *src)
    elif isinstance(comp, ast.Call) and isinstance(comp.func, ast.Attribute) and comp.func.attr == "values" and U(comp.func.value) in tables:
        summand = tables[U(comp.func.value)]
    else:
        raise AnalysisError("mass_fractions: total is not a sum over the stoichiometry entries")
    g2 = ret.value.generators[0]
    src2 = over_stoich(g2) if len(ret.value.generators) == 1 else None
    ctx.check(src2 is not None, anchor, "same-mapping", "the fractions must run over every entry of the stoichiometries; they run over `%s`" % U(g2), node=ret)
    if src2 is None:
        return
    tn = tot.targets[0].id
    num = monomial(generic(ret.value.value, *src2))
    den = monomial(summand)
    c, p = num
    p = dict(p)
    inv = p.pop(tn, None)
    ctx.check(inv == {"1": Fraction(-1)} and (c, p) == den, anchor, "same-term",
              "each fraction must be (its summand of the total) / total; numerator %s, summand %s" % (mono_str(num), mono_str(den)), node=ret)
    ctx.check(U(ret.value.key) == src2[0], anchor, "keyed-by-substance", "fractions keyed by %s, expected %s" % (U(ret.value.key), src2[0]), node=ret)
    # the term is mass * coefficient
    ctx.check(set(den[1]) == {"substances[K].mass", "V"} and den[0] == 1 and all(e == {"1": Fraction(1)} for e in den[1].values()), anchor, "term=mass*coeff",
              "summand must be substances[k].mass * v; found %s" % mono_str(den), node=tot)


def r6_periods(ctx):
    m, env = _env(ctx)
    pl, apl = env.get("period_lengths"), env.get("accum_period_lengths")
    if pl is None or apl is None:
        raise AnalysisError("cannot fold period tables")
    ctx.check(sum(pl) == 118, PERIODIC + ":period_lengths", "sum=118", "period lengths sum to %d" % sum(pl))
    pref, s = [], 0
    for x in pl:
        s += x
        pref.append(s)
    ctx.check(tuple(apl) == tuple(pref), PERIODIC + ":accum_period_lengths", "prefix-sums",
              "accum_period_lengths %s are not the prefix sums %s" % (apl, pref))
    ctx.check(tuple(pl) == (2, 8, 8, 18, 18, 32, 32), PERIODIC + ":period_lengths", "standard-periods", "period lengths %s" % (pl,))
    groups = env.get("groups")
    if groups is None:
        raise AnalysisError("cannot fold periodic.groups")
    want = {1: (1, 3, 11, 19, 37, 55, 87), 2: (4, 12, 20, 38, 56, 88), 13: (5, 13, 31, 49, 81, 113), 14: (6, 14, 32, 50, 82, 114),
            15: (7, 15, 33, 51, 83, 115), 16: (8, 16, 34, 52, 84, 116), 17: (9, 17, 35, 53, 85, 117), 18: (2, 10, 18, 36, 54, 86, 118)}
    for g, zs in want.items():
        ctx.check(tuple(groups.get(g, ())) == zs, PERIODIC + ":groups", "group:%d" % g, "group %d is %s; the periodic table has %s" % (g, groups.get(g), zs))


RULES = [
    Rule("C14-R1", r1_element_table, 120, "_elements vs IUPAC (symbol, name, weight) for Z=1..118; derived tuples use the right columns"),
    Rule("C14-R2", r2_offsets, 5, "Z<->index offsets (shared with C01-R2)"),
    Rule("C14-R3", r3_mass_formula, 6, "mass = sum v*m[k-1] - v0*m_e; Substance.mass/molar_mass"),
    Rule("C14-R4", r4_lookup, 3, "atomic_number normalises case for both lookups"),
    Rule("C14-R5", r5_mass_fractions, 5, "mass fractions: numerator term == summand of the total"),
    Rule("C14-R6", r6_periods, 11, "period and group tables", tier="thorough"),
    Rule("C14-R7", r7_no_mutation, 5, "computing a mass does not mutate the composition / substance / arguments"),
]

MUTANTS = [
    Mutant("weight-digit-Ru", [(PERIODIC, '"Ruthenium", 101.07', '"Ruthenium", 101.70')], "C14-R1", "Z=44"),
    Mutant("weight-swapped-name", [(PERIODIC, '["Dy", "Dysprosium"', '["Dy", "Dysprosum"')], "C14-R1", "Z=66"),
    Mutant("weight-exponent-Bi", [(PERIODIC, '"Bismuth", 208.9804', '"Bismuth", 209.9804')], "C14-R1", "Z=83"),
    Mutant("symbols-wrong-column", [(PERIODIC, "names = tuple(n[1] for n in _elements)", "names = tuple(n[0] for n in _elements)")], "C14-R1", "names"),
    Mutant("mass-column-1", [(PERIODIC, "tuple(element[2] for element in _elements)", "tuple(element[3] for element in _elements)")], "C14-R1", "_get_relative"),
    Mutant("mass-no-offset", [(PERIODIC, "relative_atomic_masses[k - 1]", "relative_atomic_masses[k]")], "C14-R2", "mass_from"),
    Mutant("electron-sign", [(PERIODIC, "mass -= v * 5.489e-4", "mass += v * 5.489e-4")], "C14-R3", "electron"),
    Mutant("electron-mass-value", [(PERIODIC, "mass -= v * 5.489e-4", "mass -= v * 5.489e-3")], "C14-R3", "electron"),
    Mutant("element-term-unweighted", [(PERIODIC, "mass += v * relative_atomic_masses[k - 1]", "mass += relative_atomic_masses[k - 1]")], "C14-R3", "element"),
    Mutant("molar-mass-inverted", [(CHEM, "return self.mass * units.g / units.mol", "return self.mass * units.mol / units.g")], "C14-R3", "molar_mass"),
    Mutant("lookup-no-capitalize", [(PERIODIC, "symbols.index(name.capitalize()) + 1", "symbols.index(name) + 1")], "C14-R4", "symbol-lookup"),
    Mutant("lookup-names-not-lower", [(PERIODIC, "lower_names.index(name.lower()) + 1", "names.index(name.lower()) + 1")], "C14-R4", "name-lookup"),
    Mutant("fractions-drop-coeff", [(CHEM, "return {k: substances[k].mass * v / tot_mass for k, v in stoichiometries.items()}", "return {k: substances[k].mass / tot_mass for k, v in stoichiometries.items()}")], "C14-R5", "same-term"),
    Mutant("accum-period", [(PERIODIC, "accum_period_lengths = (2, 10, 18, 36, 54, 86, 118)", "accum_period_lengths = (2, 10, 18, 36, 54, 68, 118)")], "C14-R6", "prefix"),
]

MUTANTS.append(Mutant("weight-older-revision-Yb", [(PERIODIC, '"Ytterbium", 173.045, 0.010', '"Ytterbium", 173.054, 0.005')], "C14-R1", "Z=70"))
MUTANTS.append(Mutant("weight-last-digits-Zn", [(PERIODIC, '"Zinc", 65.38', '"Zinc", 65.83')], "C14-R1", "Z=30"))

MUTANTS.append(Mutant("alkali-group-offset", [(PERIODIC, "groups[1] = (1,) + tuple(x + 1 for x in accum_period_lengths[:-1])", "groups[1] = (1,) + tuple(x + 1 for x in accum_period_lengths[1:])")], "C14-R6", "group:1"))

MUTANTS.append(Mutant("mass-pops-charge", [(PERIODIC, "    mass = 0.0\n    for k, v in composition.items():\n        if k == 0:  # electron\n            mass -= v * 5.489e-4\n        else:\n            mass += v * relative_atomic_masses[k - 1]\n    return mass", "    mass = -composition.pop(0, 0) * 5.489e-4\n    for k, v in composition.items():\n        mass += v * relative_atomic_masses[k - 1]\n    return mass")], "C14-R7", "argument-not-mutated"))
MUTANTS.append(Mutant("fractions-zip-by-position", [(CHEM, "    tot_mass = sum([substances[k].mass * v for k, v in stoichiometries.items()])\n    return {k: substances[k].mass * v / tot_mass for k, v in stoichiometries.items()}", "    masses = [s.mass * v for s, v in zip(substances.values(), stoichiometries.values())]\n    tot_mass = sum(masses)\n    return {k: m / tot_mass for k, m in zip(stoichiometries, masses)}")], "C14-R5", "mass-looked-up-by-key"))

MUTANTS.append(Mutant("index-temp-no-offset", [(PERIODIC, "        return symbols.index(name.capitalize()) + 1\n    except ValueError:\n        return lower_names.index(name.lower()) + 1",
                                                "        index = symbols.index(name.capitalize())\n    except ValueError:\n        index = lower_names.index(name.lower()) + 1\n    return index")], "C14-R2", "Z=index+1"))
MUTANTS.append(Mutant("masses-brackets-kept-as-zero", [(PERIODIC, "        yield float(mass[1:-1]) if str(mass).startswith(\"[\") else float(mass)",
                                                        "        yield 0.0 if str(mass).startswith(\"[\") else float(mass)")], "C14-R1", "masses=float"))
MUTANTS.append(Mutant("symbol-dict-off-by-one", [
    (PERIODIC, "lower_names = tuple(n[1].lower() for n in _elements)\n", "lower_names = tuple(n[1].lower() for n in _elements)\n_number_by_symbol = dict(zip(symbols, range(1, len(symbols))))\n"),
    (PERIODIC, "return symbols.index(name.capitalize()) + 1\n    except ValueError:", "return _number_by_symbol[name.capitalize()]\n    except KeyError:")], "C14-R2", "Z=index+1:symbols.index"))
MUTANTS.append(Mutant("fractions-total-unweighted", [(CHEM, "    tot_mass = sum([substances[k].mass * v for k, v in stoichiometries.items()])\n    return {k: substances[k].mass * v / tot_mass for k, v in stoichiometries.items()}",
                                                      "    masses = {k: substances[k].mass for k in stoichiometries}\n    tot_mass = sum(masses.values())\n    return {k: masses[k] * v / tot_mass for k, v in stoichiometries.items()}")], "C14-R5", "same-term"))

TWINS = [
    Twin("symbol-dict-lookup", [
        (PERIODIC, "lower_names = tuple(n[1].lower() for n in _elements)\n", "lower_names = tuple(n[1].lower() for n in _elements)\n_number_by_symbol = dict(zip(symbols, range(1, len(symbols) + 1)))\n"),
        (PERIODIC, "return symbols.index(name.capitalize()) + 1\n    except ValueError:", "return _number_by_symbol[name.capitalize()]\n    except KeyError:")]),
    Twin("fractions-per-key-table", [(CHEM, "    tot_mass = sum([substances[k].mass * v for k, v in stoichiometries.items()])\n    return {k: substances[k].mass * v / tot_mass for k, v in stoichiometries.items()}",
                                      "    terms = {k: substances[k].mass * v for k, v in stoichiometries.items()}\n    tot_mass = sum(terms.values())\n    return {k: terms[k] / tot_mass for k in stoichiometries}")]),
    Twin("index-temp-plus-one", [(PERIODIC, "        return symbols.index(name.capitalize()) + 1\n    except ValueError:\n        return lower_names.index(name.lower()) + 1",
                                  "        index = symbols.index(name.capitalize())\n    except ValueError:\n        index = lower_names.index(name.lower())\n    return index + 1")]),
    Twin("masses-by-unpacking", [(PERIODIC, "    for mass in tuple(element[2] for element in _elements):\n        yield float(mass[1:-1]) if str(mass).startswith(\"[\") else float(mass)",
                                  "    for _symbol, _name, weight, _uncertainty in _elements:\n        if str(weight).startswith(\"[\"):\n            yield float(weight[1:-1])\n        else:\n            yield float(weight)")]),
    Twin("mass-copy-then-pop", [(PERIODIC, "    mass = 0.0\n    for k, v in composition.items():", "    composition = dict(composition)\n    mass = 0.0\n    for k, v in composition.items():")]),
    Twin("electron-mass-more-digits", [(PERIODIC, "mass -= v * 5.489e-4", "mass -= v * 5.48579909e-4")]),
    Twin("commuted-product", [(PERIODIC, "mass += v * relative_atomic_masses[k - 1]", "mass += relative_atomic_masses[k - 1] * v")]),
    Twin("weight-revision-Ar", [(PERIODIC, '"Argon", 39.95', '"Argon", 39.948')]),
    Twin("assign-form", [(PERIODIC, "mass -= v * 5.489e-4", "mass = mass - v * 5.489e-4")]),
    Twin("fractions-generator-sum", [(CHEM, "tot_mass = sum([substances[k].mass * v for k, v in stoichiometries.items()])", "tot_mass = sum(v * substances[k].mass for k, v in stoichiometries.items())")]),
]
