"""C18 -- ionic strength and Debye-Hueckel terms."""
from __future__ import annotations

import ast
import math
from fractions import Fraction

from ..astu import param_default, U, S, has, walk_shallow, call_name, calls_in, kwarg, linform, lin_str, monomial, mono_str, default_atom
from ..cfg import find_guards
from ..core import AnalysisError, Mutant, Rule, Twin
from ..dims import V, opaque, mk_dim, dim_str, units_ns, constants_ns, lx_const
from ..dimrun import run
from ..idioms import for_loops, target_names
from ..tables import CODATA

ID = "C18"
EL = "chempy/electrolytes.py"
ENGINES = ["E0 core", "E2 dims", "E4 linform", "E5 siblings"]
TECHNIQUE = "monomial normal forms of ionic strength / log-gamma formulas; units-of-measure abstract interpretation of A and B in both constant modes; literal-vs-CODATA comparison of the hard-coded factors; sibling consistency of exponents (ast)"
CLAIM = ("Decides: ionic strength accumulates b*z**2 and halves it, the neutrality sum accumulates b*z and the warning is controlled by `warn` "
         "and a closeness test against zero; A is dimensionless and B is 1/length in the hard-coded and the constants path; the hard-coded "
         "factors equal the textbook expressions evaluated with CODATA (1e-4); the constants-path expressions have the textbook monomial "
         "normal form and agree with the hard-coded path on every shared exponent; limiting/extended/Davies share -A z^2 sqrt(I/I0) and "
         "the extended denominator is 1 + B a sqrt(I/I0); activity products weight their namesake log-gamma and exponentiate."
         ' Davies bracket and defaults, `one = x**0`, I0 default, net-charge accumulation. Shared rule A1: no swapped same-named arguments at resolved in-package call sites.')
DOES_NOT_DECIDE = "numeric agreement of the two paths over the (T, eps, rho) domain beyond the constant factor; permutation invariance (follows from commutativity of +)"
ASSUMPTIONS = ["CODATA 2018 values", "`quantities` unit/constant tables (typing environment)"]
F1 = Fraction(1)
H = Fraction(1, 2)


def r1_ionic_strength(ctx):
    fn = ctx.func(EL, "ionic_strength")
    a = EL + ":ionic_strength"
    loops = [lp for lp in for_loops(fn) if isinstance(lp.iter, ast.Call) and call_name(lp.iter) == "zip"]
    accs = {}
    for lp in loops:
        if U(lp.iter) != "zip(molalities, charges)":
            continue
        b, z = target_names(lp.target)
        for s in walk_shallow(lp):
            if isinstance(s, ast.Assign) and isinstance(s.targets[0], ast.Name) and not isinstance(s.value, ast.Constant):
                accs.setdefault(s.targets[0].id, []).append(("=", monomial(s.value), s, (b, z)))
            elif isinstance(s, ast.AugAssign) and isinstance(s.op, ast.Add) and isinstance(s.target, ast.Name):
                accs.setdefault(s.target.id, []).append(("+=", monomial(s.value), s, (b, z)))
    ret = [n for n in walk_shallow(fn) if isinstance(n, ast.Return)][-1]
    c, p = monomial(ret.value)
    totname = [k for k in p][0] if len(p) == 1 else None
    ctx.check(c == H and totname is not None and p[totname] == {"1": F1}, a, "I=tot/2", "ionic strength must be the accumulated sum divided by 2; returns %s" % U(ret.value), node=ret)
    if totname not in accs:
        raise AnalysisError("ionic_strength: accumulator of the returned sum not found")
    for kind, m, s, (b, z) in accs[totname]:
        ctx.check(m == (F1, {b: {"1": F1}, z: {"1": Fraction(2)}}), a, "term=b*z**2:" + kind, "each ion must contribute molality * charge**2; found `%s`" % U(s), node=s)
    kinds = sorted(k for k, _, _, _ in accs[totname])
    ctx.check(kinds == ["+=", "="], a, "sum-over-all-ions", "the sum must start with the first term and add the rest (found %s)" % kinds, node=fn)
    others = [k for k in accs if k != totname]
    ctx.check(len(others) == 1, a, "neutrality-accumulator", "expected one net-charge accumulator, found %s" % others, node=fn)
    if len(others) == 1:
        for kind, m, s, (b, z) in accs[others[0]]:
            ctx.check(m == (F1, {b: {"1": F1}, z: {"1": F1}}), a, "net=b*z:" + kind, "net charge must accumulate molality * charge; found `%s`" % U(s), node=s)
        # the warning
        ws = [g for g in find_guards(fn, kinds=(ast.Expr,)) if isinstance(g.stmt.value, ast.Call) and call_name(g.stmt.value) == "warnings.warn"]
        ok = False
        for g in ws:
            tests = [(S(t), pol) for t, pol in g.tests()]
            has_warn = ("warn", True) in tests
            close = [t for t, pol in tests if t.startswith("notallclose" + others[0] + ",") and pol]
            ok = ok or (has_warn and bool(close) and (totname + "*0") in close[0])
        ctx.check(ok, a, "warning-iff-not-neutral", "the charge-imbalance warning must be guarded by `warn` and `not allclose(net, 0-like, ...)`", node=fn)
    # charges read from the substances, aligned with the molalities
    ok = has(fn, "charges, molalities = zip(*[(substances[k].charge, v) for k, v in molalities.items()])")
    ctx.check(ok, a, "charges-aligned", "charges and molalities must come from one zip over molalities.items()", node=fn)
    ctx.check(has(fn, "if len(molalities) != len(charges): raise ValueError("), a, "length-guard", "length mismatch must raise", node=fn)
    if len(others) == 1:
        kinds2 = sorted(k for k, _, _, _ in accs[others[0]])
        ctx.check(kinds2 == ["+=", "="], a, "net-sum-over-all-ions", "the net charge must start with the first term and ADD the rest (found %s)" % kinds2, node=fn)
    ctx.check(has(fn, "if charges is None: if substances is None: substances = ' '.join(molalities.keys())"), a, "charges-from-formulas-only-when-missing",
              "given charges are used; they are read from the formulas only when None", node=fn)
    d = param_default(fn, "warn")
    ctx.check(d is not None and U(d) == "True", a, "warns-by-default", "the neutrality warning is on by default", node=fn)


def _modes(ctx, name, spec):
    units_v = units_ns(ctx.repo)
    consts_v = constants_ns()
    out = {}
    for mname, cv in (("units", None), ("units+constants", consts_v)):
        params = dict(spec)
        params["units"] = units_v
        if cv is not None:
            params["constants"] = cv
        it = run(ctx.repo, EL, name, params, units_extras=units_v.extra.extras)
        ctx.modes_seen.add("%s[%s]" % (name, mname))
        for t in it.tops:
            ctx.top("%s[%s] %s" % (name, mname, t))
        out[mname] = it
    return out


def _textbook():
    c = CODATA
    A = c["F"] ** 3 / (4 * math.pi * c["N_A"]) * (1 / (2 * (c["eps0"] * c["k_B"] * c["N_A"]) ** 3)) ** 0.5
    B = c["F"] * (2 / (c["eps0"] * c["R"])) ** 0.5
    return A, B


def _combined_literal(fn):
    for s in walk_shallow(fn):
        if isinstance(s, ast.Assign) and U(s.targets[0]) == "combined" and isinstance(s.value, ast.Constant):
            return s
    return None


def r2_A_B(ctx):
    spec = dict(eps_r=V("q", dim={}, unit={}, val=None), T=opaque(mk_dim(K=1), "T"), rho=opaque(mk_dim(M=1, L=-3), "rho"))
    expect = {"A": {}, "B": mk_dim(L=-1)}
    tbA, tbB = _textbook()
    for name in ("A", "B"):
        fn = ctx.func(EL, name)
        a = EL + ":" + name
        its = _modes(ctx, name, spec)
        for mname, it in its.items():
            bad = [r for r in it.reports if r.kind in ("inhomogeneous", "transcendental", "dimensional-exponent", "missing-attribute", "rescale-mismatch")]
            for r in bad:
                ctx.violation(a, "%s:%s[%s]" % (r.kind, U(r.node)[:60], mname), r.msg, node=r.node)
            rets = [v for v in it.returns if v.kind == "q" and v.dim is not None]
            if not rets:
                ctx.violation(a, "result-dimension[%s]" % mname, "the dimension of %s could not be derived in mode %s (tops: %s)" % (name, mname, it.tops[:3]), node=fn)
            for v in rets:
                ctx.check(v.dim == expect[name], a, "result-dimension[%s]" % mname, "%s has dimension %s in the %s path; it must be %s" % (
                    name, dim_str(v.dim), mname, dim_str(expect[name])), node=fn, found=dim_str(v.dim))
        lit = _combined_literal(fn)
        if lit is None:
            raise AnalysisError("%s: hard-coded `combined` literal not found" % name)
        want = tbA if name == "A" else tbB
        ctx.check(abs(lit.value.value - want) <= 1e-4 * want, a, "hard-coded-factor", "the hard-coded factor %r differs from the textbook expression evaluated with CODATA (%.12g) by more than 1e-4" % (
            lit.value.value, want), node=lit, literal=lit.value.value, textbook=want)
    fn = ctx.func(EL, "_get_b0")
    ctx.check(has(fn, "if units is not None and b0 is integer_one: return b0 * units.molal else: return b0"), EL + ":_get_b0", "b0-molal", "_get_b0 must attach units.molal to the default reference molality", node=fn)


def _one_atom(n):
    if isinstance(n, ast.Name) and n.id == "one":
        return "1"
    return default_atom(n)


def _exps(m):
    return {k: v for k, v in m[1].items()}


def r2b_normal_forms(ctx):
    """thorough: constants-path expressions in monomial normal form vs. the textbook forms; sibling exponent agreement"""
    want = {
        "A": (Fraction(1, 4), {"F": 3, "pi": -1, "NA": Fraction(-5, 2), "rho": H, "b0": H, "2": -H, "eps0": Fraction(-3, 2), "eps_r": Fraction(-3, 2), "kB": Fraction(-3, 2), "T": Fraction(-3, 2)}),
        "B": (F1, {"F": 1, "2": H, "rho": H, "b0": H, "eps_r": -H, "eps0": -H, "R": -H, "T": -H}),
    }
    names = {"A": dict(F="Faraday_constant", NA="Avogadro_constant", eps0="vacuum_permittivity", kB="Boltzmann_constant", pi="pi"),
             "B": dict(F="Faraday_constant", eps0="vacuum_permittivity", R="molar_gas_constant")}
    for name in ("A", "B"):
        fn = ctx.func(EL, name)
        a = EL + ":" + name
        asg = [s for s in walk_shallow(fn) if isinstance(s, ast.Assign) and U(s.targets[0]) == name]
        if len(asg) != 1:
            raise AnalysisError("%s: constants-path expression not found" % name)
        c, p = monomial(asg[0].value, atom=_one_atom)
        got = {k: lx_const(v) for k, v in p.items()}
        wc, wp = want[name]
        ctx.check(c == wc and got == {k: Fraction(v) for k, v in wp.items()}, a, "constants-path-normal-form",
                  "%s (constants path) is %s; the textbook form is %s * %s" % (name, mono_str((c, p)), wc, {k: str(v) for k, v in wp.items()}), node=asg[0])
        for var, attr in names[name].items():
            d = [s for s in walk_shallow(fn) if isinstance(s, ast.Assign) and U(s.targets[0]) == var]
            ctx.check(len(d) == 1 and U(d[0].value) == "constants." + attr, a, "constant:" + var, "`%s` must be constants.%s; found %s" % (var, attr, [U(x.value) for x in d]), node=fn)
        # hard-coded path: exponents of the shared variables agree
        rets = [n for n in walk_shallow(fn) if isinstance(n, ast.Return) and "combined" in U(n.value)]
        if len(rets) != 1:
            raise AnalysisError("%s: hard-coded return not found" % name)
        c2, p2 = monomial(rets[0].value, atom=_one_atom)
        got2 = {k: lx_const(v) for k, v in p2.items()}
        shared = {k: Fraction(v) for k, v in wp.items() if k in ("rho", "b0", "T", "eps_r")}
        ctx.check(c2 == 1 and {k: v for k, v in got2.items() if k != "combined"} == shared and got2.get("combined") == 1, a, "hard-coded-path-exponents",
                  "hard-coded path is %s; it must be combined * %s" % (mono_str((c2, p2)), {k: str(v) for k, v in shared.items()}), node=rets[0])
        ctx.check(has(fn, "one = be.pi ** 0"), a, "one", "`one` must be backend.pi ** 0 (an exact 1 of the backend's number type)", node=fn)


def r3_log_gamma(ctx):
    lim = ctx.func(EL, "limiting_log_gamma")
    ret = [n for n in walk_shallow(lim) if isinstance(n, ast.Return)][-1]
    m = monomial(ret.value, atom=_one_atom)
    core = {"A": {"1": F1}, "z": {"1": Fraction(2)}, "IS": {"1": H}, "I0": {"1": -H}}
    ctx.check(m == (-F1, core), EL + ":limiting_log_gamma", "-A*z^2*sqrt(I/I0)", "limiting law must be -A * z**2 * (IS/I0)**(1/2); found %s" % mono_str(m), node=ret)

    def locals_env(fn):
        env = {}
        for s in fn.body:
            if isinstance(s, ast.Assign) and isinstance(s.targets[0], ast.Name) and s.targets[0].id in ("I_I0", "sqrt_I_I0"):
                env[s.targets[0].id] = monomial(s.value, atom=_one_atom, env=env)
        return env
    ext = ctx.func(EL, "extended_log_gamma")
    a = EL + ":extended_log_gamma"
    env = locals_env(ext)
    ctx.check(env.get("I_I0") == (F1, {"IS": {"1": F1}, "I0": {"1": -F1}}) and env.get("sqrt_I_I0") == (F1, {"IS": {"1": H}, "I0": {"1": -H}}), a, "sqrt(I/I0)",
              "I_I0 / sqrt_I_I0 must be IS/I0 and its square root", node=ext)
    ret = [n for n in walk_shallow(ext) if isinstance(n, ast.Return)][-1]
    v = ret.value
    ok = isinstance(v, ast.BinOp) and isinstance(v.op, ast.Add)
    if ok:
        t1, t2 = v.left, v.right
        m1 = monomial(t1, atom=_one_atom, env=env)
        den = [k for k in m1[1] if k.startswith("1 +") or "+ 1" in k]
        core2 = dict(core)
        ok1 = m1[0] == -1 and len(den) == 1 and m1[1][den[0]] == {"1": -F1} and {k: v_ for k, v_ in m1[1].items() if k != den[0]} == core2
        ctx.check(ok1, a, "numerator=limiting", "the first term must be the limiting law divided by the denominator; found %s" % mono_str(m1), node=ret)
        if den:
            dn = ast.parse(den[0], mode="eval").body
            lf = linform(dn)
            prod = [k for k in lf if k != "1"]
            okd = lf.get("1") == 1 and len(prod) == 1 and lf[prod[0]] == 1 and monomial(ast.parse(prod[0], mode="eval").body, env=env) == (F1, {"B": {"1": F1}, "a": {"1": F1}, "IS": {"1": H}, "I0": {"1": -H}})
            ctx.check(okd, a, "denominator=1+B*a*sqrt(I/I0)", "the denominator must be 1 + B*a*sqrt(I/I0); found %s" % den[0], node=ret)
        m2 = monomial(t2, atom=_one_atom, env=env)
        ctx.check(m2 == (F1, {"C": {"1": F1}, "IS": {"1": F1}, "I0": {"1": -F1}}), a, "linear-term=C*I/I0", "the linear term must be C * I/I0; found %s" % mono_str(m2), node=ret)
    else:
        ctx.violation(a, "shape", "extended law is not `limiting/denominator + C*I/I0`: %s" % U(v), node=ret)
    dv = ctx.func(EL, "davies_log_gamma")
    a = EL + ":davies_log_gamma"
    env = locals_env(dv)
    ret = [n for n in walk_shallow(dv) if isinstance(n, ast.Return)][-1]
    m = monomial(ret.value, atom=_one_atom, env=env)
    par = [k for k in m[1] if "+" in k]
    ok = m[0] == -1 and len(par) == 1 and {k: v_ for k, v_ in m[1].items() if k != par[0]} == {"A": {"1": F1}, "z": {"1": Fraction(2)}}
    if ok:
        inner = ast.parse(par[0], mode="eval").body
        lf = linform(inner)
        ok = set(lf) == {"sqrt_I_I0 / (1 + sqrt_I_I0)", "C * I_I0"} and all(v_ == 1 for v_ in lf.values())
    ctx.check(ok, a, "davies-form", "Davies must be -A*z**2*(sqrt/(1+sqrt) + C*I/I0); found %s" % U(ret.value), node=ret)
    if ok:
        ctx.check(m[1][par[0]] == {"1": F1}, a, "davies-bracket-multiplied", "the bracket multiplies -A*z**2 (exponent +1); found exponent %s" % m[1][par[0]], node=ret)
    ctx.check(env.get("I_I0") == (F1, {"IS": {"1": F1}, "I0": {"1": -F1}}) and env.get("sqrt_I_I0") == (F1, {"IS": {"1": H}, "I0": {"1": -H}}), a, "sqrt(I/I0)",
              "I_I0 / sqrt_I_I0 must be IS/I0 and its square root", node=dv)
    # `one` is an exact 1 of the backend; reference ionic strength defaults to 1; Davies' C is -0.3
    for q in ("limiting_log_gamma", "extended_log_gamma", "davies_log_gamma"):
        fn = ctx.func(EL, q)
        ones = [s_ for s_ in fn.body if isinstance(s_, ast.Assign) and U(s_.targets[0]) == "one"]
        ok1 = len(ones) == 1 and isinstance(ones[0].value, ast.BinOp) and isinstance(ones[0].value.op, ast.Pow) and isinstance(ones[0].value.right, ast.Constant) and ones[0].value.right.value == 0
        ctx.check(ok1, EL + ":" + q, "one=x**0", "`one` must be <something> ** 0; found %s" % [U(o.value) for o in ones], node=fn)
        d = param_default(fn, "I0")
        ctx.check(d is not None and U(d) == "1", EL + ":" + q, "I0-default-1", "the reference ionic strength defaults to 1", node=fn)
    for q, want_c in (("davies_log_gamma", "-0.3"), ("davies_activity_product", "-0.3"), ("extended_log_gamma", "0"), ("extended_activity_product", "0")):
        fn = ctx.func(EL, q)
        d = param_default(fn, "C")
        ctx.check(d is not None and U(d) == want_c, EL + ":" + q, "C-default", "the default C of %s is %s; found %s" % (q, want_c, U(d) if d is not None else None), node=fn)
    # activity products
    for q, lg, extra in (("limiting_activity_product", "limiting_log_gamma", ["IS", "z[idx]", "Aval"]),
                         ("extended_activity_product", "extended_log_gamma", ["IS", "z[idx]", "a[idx]", "Aval", "Bval", "C"]),
                         ("davies_activity_product", "davies_log_gamma", ["IS", "z[idx]", "Aval", "C"])):
        fn = ctx.func(EL, q)
        a = EL + ":" + q
        lp = [l for l in for_loops(fn) if U(l.iter) == "enumerate(stoich)"]
        ok = len(lp) == 1
        if ok:
            idx, nr = target_names(lp[0].target)
            aug = [s for s in lp[0].body if isinstance(s, ast.AugAssign) and isinstance(s.op, ast.Add) and U(s.target) == "tot"]
            ok = len(aug) == 1 and isinstance(aug[0].value, ast.BinOp) and isinstance(aug[0].value.op, ast.Mult)
            if ok:
                l, r = aug[0].value.left, aug[0].value.right
                if not isinstance(r, ast.Call):
                    l, r = r, l
                ok = U(l) == nr and isinstance(r, ast.Call) and call_name(r) == lg and [U(x).replace("idx", idx) for x in r.args] == [e.replace("idx", idx) for e in extra]
        ctx.check(ok, a, "weighted-namesake", "%s must accumulate coefficient * %s(%s)" % (q, lg, ", ".join(extra)), node=fn)
        # every species contributes: nothing in the loop may skip an entry (a neutral species still has its C*I term)
        skips = [n_ for l_ in lp for n_ in ast.walk(l_) if isinstance(n_, (ast.Continue, ast.Break))] + \
                [n_ for l_ in lp for n_ in l_.body if isinstance(n_, ast.If) and any(isinstance(x_, ast.AugAssign) and U(x_.target) == "tot" for x_ in ast.walk(n_))]
        ctx.check(not skips, a, "every-species-contributes", "%s must add the term of every species; an entry is skipped or its term made conditional (line %s)" % (
            q, skips[0].lineno if skips else "-"), node=skips[0] if skips else fn)
        ret = [n for n in walk_shallow(fn) if isinstance(n, ast.Return)][-1]
        ctx.check(U(ret.value) == "be.exp(tot)" and has(fn, "tot = 0"), a, "exp(sum)", "the product must be be.exp(tot) with tot starting at 0", node=ret)
        ctx.check(has(fn, "Aval = A(eps_r, T, rho)") and ("Bval" not in extra or has(fn, "Bval = B(eps_r, T, rho)")), a, "A(eps,T,rho)", "A/B must be evaluated as A(eps_r, T, rho) / B(eps_r, T, rho)", node=fn)


RULES = [
    Rule("C18-R1", r1_ionic_strength, 9, "ionic strength definition, neutrality warning, charge alignment"),
    Rule("C18-R2", r2_A_B, 7, "A dimensionless and B 1/length in both paths; hard-coded factors vs CODATA"),
    Rule("C18-R2b", r2b_normal_forms, 13, "constants-path normal forms vs textbook; hard-coded path exponents", tier="thorough"),
    Rule("C18-R3", r3_log_gamma, 17, "log-gamma family and activity products"),
]

MUTANTS = [
    Mutant("neutral-species-skipped", [(EL, "        tot += nr * extended_log_gamma(IS, z[idx], a[idx], Aval, Bval, C)", "        if z[idx] == 0:\n            continue\n        tot += nr * extended_log_gamma(IS, z[idx], a[idx], Aval, Bval, C)")], "C18-R3", "every-species-contributes"),
    Mutant("ionic-z-not-squared", [(EL, "            tot += b * z ** 2", "            tot += b * z")], "C18-R1", "term=b*z**2"),
    Mutant("ionic-first-term-abs", [(EL, "            tot = b * z ** 2", "            tot = b * abs(z)")], "C18-R1", "term=b*z**2"),
    Mutant("ionic-no-half", [(EL, "    return tot / 2", "    return tot")], "C18-R1", "I=tot/2"),
    Mutant("ionic-net-squared", [(EL, "                net += b * z\n", "                net += b * z ** 2\n")], "C18-R1", "net=b*z"),
    Mutant("ionic-warn-ignores-flag", [(EL, "    if warn:\n        net = None", "    if True:\n        net = None")], "C18-R1", "warning"),
    Mutant("A-unit-exponent", [(EL, "combined *= (m * K) ** (3 * one / 2) / mol ** (one / 2)", "combined *= (m * K) ** (one / 2) / mol ** (one / 2)")], "C18-R2", "A"),
    Mutant("A-T-exponent", [(EL, "return combined * (rho * b0 * T ** -3 * eps_r ** -3) ** 0.5", "return combined * (rho * b0 * T ** -1 * eps_r ** -3) ** 0.5")], "C18-R2", "A"),
    Mutant("A-constants-drop-NA", [(EL, "        / (4 * pi * NA)\n", "        / (4 * pi)\n")], "C18-R2", "A"),
    Mutant("A-literal", [(EL, "combined = 132871.85866393594", "combined = 132871.85866393594 * 2 ** 0.5")], "C18-R2", "A"),
    Mutant("A-literal-digit", [(EL, "combined = 132871.85866393594", "combined = 132781.85866393594")], "C18-R2", "hard-coded"),
    Mutant("B-literal-digit", [(EL, "combined = 15903203868.740343", "combined = 15930203868.740343")], "C18-R2", "hard-coded"),
    Mutant("B-constants-R-to-kB", [(EL, "    R = constants.molar_gas_constant\n    B = F", "    R = constants.Boltzmann_constant\n    B = F")], "C18-R2", "B"),
    Mutant("B-drop-factor-2", [(EL, "B = F * (2 * rho * b0 / (eps_r * eps0 * R * T)) ** (one / 2)", "B = F * (rho * b0 / (eps_r * eps0 * R * T)) ** (one / 2)")], "C18-R2b", "B"),
    Mutant("A-drop-factor-2", [(EL, "(rho * b0 / (2 * (eps0 * eps_r * kB * NA * T) ** 3)) ** (one / 2)", "(rho * b0 / ((eps0 * eps_r * kB * NA * T) ** 3)) ** (one / 2)")], "C18-R2b", "A"),
    Mutant("B-hard-coded-eps-exponent", [(EL, "return combined * (rho * b0 / (T * eps_r)) ** 0.5", "return combined * (rho * b0 / T) ** 0.5 / eps_r")], "C18-R2b", "B"),
    Mutant("limiting-z-linear", [(EL, '    """Debye-Hyckel limiting formula"""\n    be = get_backend(backend)\n    one = be.pi ** 0\n    return -A * z ** 2 * (IS / I0) ** (one / 2)', '    """Debye-Hyckel limiting formula"""\n    be = get_backend(backend)\n    one = be.pi ** 0\n    return -A * abs(z) * (IS / I0) ** (one / 2)')], "C18-R3", "limiting"),
    Mutant("extended-denominator-minus", [(EL, "/ (1 + B * a * sqrt_I_I0) + C * I_I0", "/ (1 - B * a * sqrt_I_I0) + C * I_I0")], "C18-R3", "denominator"),
    Mutant("extended-sqrt-exponent", [(EL, '    """Debye-Huckel extended formula"""\n    be = get_backend(backend)\n    one = be.pi ** 0\n    I_I0 = IS / I0\n    sqrt_I_I0 = (I_I0) ** (one / 2)', '    """Debye-Huckel extended formula"""\n    be = get_backend(backend)\n    one = be.pi ** 0\n    I_I0 = IS / I0\n    sqrt_I_I0 = (I_I0) ** (3 * one / 2)')], "C18-R3", "sqrt"),
    Mutant("product-unweighted", [(EL, "        tot += nr * limiting_log_gamma(IS, z[idx], Aval)", "        tot += limiting_log_gamma(IS, z[idx], Aval)")], "C18-R3", "weighted"),
    Mutant("davies-calls-limiting", [(EL, "tot += nr * davies_log_gamma(IS, z[idx], Aval, C)", "tot += nr * limiting_log_gamma(IS, z[idx], Aval)")], "C18-R3", "weighted"),
]

TWINS = [
    Twin("ionic-commuted", [(EL, "            tot += b * z ** 2", "            tot += z ** 2 * b")]),
    Twin("A-hard-coded-rearranged", [(EL, "return combined * (rho * b0 * T ** -3 * eps_r ** -3) ** 0.5", "return combined * (rho * b0 / (T * eps_r) ** 3) ** 0.5")]),
    Twin("B-constants-rearranged", [(EL, "B = F * (2 * rho * b0 / (eps_r * eps0 * R * T)) ** (one / 2)", "B = F * (rho * b0 * 2 / (R * T * eps_r * eps0)) ** (one / 2)")]),
    Twin("A-literal-more-digits", [(EL, "combined = 132871.85866393594", "combined = 132871.86")]),
]
