"""C05 -- only balanced reactions admitted; elements and charge conserved."""
from __future__ import annotations

import ast

from ..astu import U, dotted, walk_shallow, fold, NotLiteral, call_name, calls_in, kwarg, monomial, mono_str, param_default, linform, has
from ..cfg import build, find_guards
from ..core import AnalysisError, Mutant, Rule, Twin
from ..idioms import subscript_stores, for_loops, target_names, exc_name

ID = "C05"
CHEM = "chempy/chemistry.py"
RSYS = "chempy/reactionsystem.py"
ODE = "chempy/kinetics/ode.py"
ENGINES = ["E0 core", "E3 cfg", "E4 linform"]
TECHNIQUE = "must-pass-through on a statement CFG (check loop dominates constructor exits), loop/return-shape analysis of check_balance, monomial forms of the violation sum, comprehension-orientation and single-source dataflow for the invariant matrix (ast)"
CLAIM = ("Decides: 'balance' is in the default checks and the constructor runs every check with throw=True on all normal exits; "
         "check_balance ranges over all reactions and all composition keys and cannot return True early; charge (key 0) is not skipped; "
         "the violation sum is composition[key]*net coefficient over aligned substances; composition_balance_vectors is rows=keys, "
         "cols=substances; one matrix feeds linear_invariants and the analytic solver."
         ' Verdict values of check_balance and key set of composition_violation (R7). Shared rule A1: no swapped same-named arguments at resolved in-package call sites.')
DOES_NOT_DECIDE = "numerical conservation during integration (delegated solver)"
ASSUMPTIONS = ["zip/dict iteration order semantics of Python >= 3.7"]


def r1_armed(ctx):
    m = ctx.mod(RSYS)
    try:
        dc = fold(m.class_assign("ReactionSystem", "default_checks"), {})
    except NotLiteral:
        raise AnalysisError("ReactionSystem.default_checks is not a literal set")
    a = RSYS + ":ReactionSystem"
    ctx.check("balance" in dc, a, "balance-in-default-checks", "'balance' is not among ReactionSystem.default_checks %s" % sorted(dc), checks=sorted(dc))
    for name in sorted(dc):
        ctx.check(m.has_func("ReactionSystem.check_" + name), a, "check-method:" + name, "default check %r has no method check_%s" % (name, name))
    init = ctx.func(RSYS, "ReactionSystem.__init__")
    ai = RSYS + ":ReactionSystem.__init__"
    # checks derived from default_checks when None
    derived = False
    for n in walk_shallow(init):
        if isinstance(n, ast.If) and U(n.test) == "checks is None":
            for b in n.body:
                if isinstance(b, ast.Assign) and U(b.targets[0]) == "checks":
                    v = b.value
                    txt = U(v)
                    derived = txt in ("self.default_checks ^ (dont_check or set())", "self.default_checks - (dont_check or set())", "self.default_checks",
                                      "set(self.default_checks) - set(dont_check or ())")
    ctx.check(derived, ai, "checks-from-defaults", "with checks=None the checks must be derived from self.default_checks", node=init)
    # the loop
    loops = [lp for lp in for_loops(init) if U(lp.iter) == "checks"]
    if not loops:
        ctx.violation(ai, "check-loop", "the constructor no longer loops over `checks`", node=init)
        return
    lp = loops[0]
    v = target_names(lp.target)[0]
    ok = False
    for c in calls_in(lp):
        if isinstance(c.func, ast.Call) and call_name(c.func) == "getattr" and U(c.func.args[0]) == "self" and U(c.func.args[1]).replace(" ", "") == "'check_'+%s" % v:
            t = kwarg(c, "throw")
            ok = isinstance(t, ast.Constant) and t.value is True
    ctx.check(ok, ai, "check-called-with-throw", "each check must be invoked as getattr(self, 'check_' + name)(throw=True)", node=lp)
    ctx.check(not any(isinstance(x, (ast.If, ast.Break, ast.Continue, ast.Try)) for x in walk_shallow(lp)), ai, "check-loop-unconditional",
              "checks are skipped or their failure swallowed inside the loop", node=lp)
    g = build(init)
    head = g.node_of(lp)
    exits = g.normal_exits()
    bad = [e for e in exits if not g.must_pass({head}, e)]
    ctx.check(not bad, ai, "check-loop-dominates-exits", "a normal exit of __init__ is reachable without running the checks (line %s)" % (
        [getattr(g.nodes[b].stmt, "lineno", "?") for b in bad]), node=init, exits=len(exits))
    # the loop is not inside a try/if
    top = lp in init.body
    ctx.check(top, ai, "check-loop-top-level", "the check loop is nested under a condition or try", node=lp)


def r2_all_reactions(ctx):
    fn = ctx.func(RSYS, "ReactionSystem.check_balance")
    a = RSYS + ":ReactionSystem.check_balance"
    rl = [lp for lp in for_loops(fn) if "self.rxns" in U(lp.iter)]
    if not rl:
        ctx.violation(a, "reaction-loop", "check_balance no longer loops over self.rxns", node=fn)
        return
    lp = rl[0]
    ctx.check(U(lp.iter) == "self.rxns", a, "all-reactions", "reactions iterated as `%s`" % U(lp.iter), node=lp)
    ctx.check(lp in fn.body, a, "reaction-loop-top-level", "the reaction loop is conditional", node=lp)
    ctx.check(not any(isinstance(x, (ast.Break, ast.Continue)) for x in walk_shallow(lp)), a, "no-break-continue", "the reaction loop breaks/continues", node=lp)
    rets = [n for n in walk_shallow(lp) if isinstance(n, ast.Return)]
    ok = all(isinstance(r.value, ast.Constant) and r.value.value is False for r in rets)
    ctx.check(ok, a, "no-return-True-inside", "the reaction loop returns something other than False: %s" % [U(r) for r in rets], node=lp)
    # inner loop: every key of composition_violation
    inner = [l2 for l2 in for_loops(lp)]
    ok = False
    netv = None
    if len(inner) == 1:
        it = inner[0].iter
        if isinstance(it, ast.Call) and call_name(it) == "zip" and len(it.args) == 1 and isinstance(it.args[0], ast.Starred):
            c = it.args[0].value
            rv = target_names(lp.target)[0]
            ck = kwarg(c, "composition_keys") if isinstance(c, ast.Call) else None
            ok = isinstance(c, ast.Call) and call_name(c) == rv + ".composition_violation" and U(c.args[0]) == "self.substances" \
                and isinstance(ck, ast.Constant) and ck.value is True
            netv = target_names(inner[0].target)[0]
    ctx.check(ok, a, "all-keys-of-all-substances", "violations must come from rxn.composition_violation(self.substances, composition_keys=True) (keys of all substances)", node=lp)
    # guard: net != 0 -> raise (throw) / return False
    good_raise = good_ret = False
    for g in find_guards(lp, kinds=(ast.Raise, ast.Return)):
        tests = [(U(t).replace(" ", ""), pol) for t, pol in g.tests()]
        nz = any(t in ("%s!=0" % netv, "0!=%s" % netv) and pol for t, pol in tests) or any(t in ("%s==0" % netv,) and not pol for t, pol in tests)
        th = [pol for t, pol in tests if t == "throw"]
        if nz and isinstance(g.stmt, ast.Raise) and th == [True] and exc_name(g.stmt) == "ValueError":
            good_raise = True
        if nz and isinstance(g.stmt, ast.Return) and th == [False]:
            good_ret = True
    ctx.check(good_raise, a, "nonzero->ValueError", "a non-zero net composition must raise ValueError when throw", node=lp)
    ctx.check(good_ret, a, "nonzero->False", "a non-zero net composition must return False when not throw", node=lp)
    # return True only at the end or in the documented composition-missing exit
    for r in [n for n in walk_shallow(fn) if isinstance(n, ast.Return) and isinstance(n.value, ast.Constant) and n.value.value is True]:
        if r is fn.body[-1]:
            ctx.holds(a, "return-True:loop-exhaustion")
            continue
        chain = [g for g in find_guards(fn, kinds=(ast.Return,)) if g.stmt is r][0]
        tests = [(U(t).replace(" ", ""), pol) for t, pol in chain.tests()]
        ok = any(t.endswith(".compositionisNone") and pol for t, pol in tests) and any(t == "strict" and not pol for t, pol in tests)
        ctx.check(ok, a, "return-True:composition-missing", "early `return True` under %s (only the non-strict composition-missing exit is allowed)" % chain.text(), node=r)
    # the composition-missing loop must precede and ranges over all substances
    pre = [l for l in for_loops(fn) if "self.substances" in U(l.iter)]
    ctx.check(bool(pre) and U(pre[0].iter) == "self.substances.values()", a, "composition-precheck", "composition pre-check loop changed", node=fn)


def r3_charge_not_skipped(ctx):
    init = ctx.func(CHEM, "Substance.__init__")
    ctx.check(has(init, "charge is not None and composition is not None: self.composition[0] = charge"), CHEM + ":Substance.__init__", "charge-recorded-for-any-composition",
              "a given charge must be recorded under composition[0] for every given composition -- also the empty one (an electron: composition={}, charge=-1)", node=init)
    fn = ctx.func(CHEM, "Reaction.composition_violation")
    a = CHEM + ":Reaction.composition_violation"
    cs = [c for c in calls_in(fn) if call_name(c) == "Substance.composition_keys"]
    ok = len(cs) == 1 and len(cs[0].args) == 1 and not cs[0].keywords and U(cs[0].args[0]) == "values"
    ctx.check(ok, a, "keys-unskipped", "composition keys must be Substance.composition_keys(values) with no skip_keys; found %s" % ([U(c) for c in cs]), node=fn)
    unp = [n for n in walk_shallow(fn) if isinstance(n, ast.Assign) and isinstance(n.targets[0], ast.Tuple) and U(n.value) == "zip(*substances.items())"]
    ctx.check(bool(unp) and target_names(unp[0].targets[0]) == ["keys", "values"], a, "keys-values-from-one-zip", "keys/values must come from one zip(*substances.items())", node=fn)
    outer = [lp for lp in for_loops(fn) if isinstance(lp.iter, ast.Call) and call_name(lp.iter) == "zip"]
    ok = bool(outer) and U(outer[0].iter) == "zip(values, self.net_stoich(keys))"
    ctx.check(ok, a, "substances-aligned-with-net-stoich", "substances and coefficients zipped as %s" % (U(outer[0].iter) if outer else None), node=fn)
    if outer:
        sv, cv = target_names(outer[0].target)
        inner = for_loops(outer[0])
        ok = len(inner) == 1 and U(inner[0].iter) == "enumerate(composition_keys)"
        ctx.check(ok, a, "all-keys", "key loop is %s" % (U(inner[0].iter) if inner else None), node=outer[0])
        if inner:
            iv, kv = target_names(inner[0].target)
            ups = subscript_stores(inner[0].body, "net")
            ok = len(ups) == 1 and ups[0].kind == "+=" and U(ups[0].key) == iv
            if ok:
                c, p = monomial(ups[0].value, atom=lambda n: U(n))
                ok = c == 1 and set(p) == {"%s.composition.get(%s, 0)" % (sv, kv), cv} and all(e == {"1": 1} for e in p.values())
            ctx.check(ok, a, "term=composition*coeff", "net[idx] must accumulate substance.composition.get(key, 0) * coeff; found %s" % (U(ups[0].stmt) if ups else None), node=inner[0])
            ctx.check(not any(isinstance(x, (ast.If, ast.Continue, ast.Break)) for x in walk_shallow(outer[0])), a, "no-skips", "the violation loops skip entries", node=outer[0])
    init = [n for n in walk_shallow(fn) if isinstance(n, ast.Assign) and U(n.targets[0]) == "net"]
    ctx.check(bool(init) and U(init[0].value) == "[0] * len(composition_keys)", a, "zero-init", "net initialised as %s" % (U(init[0].value) if init else None), node=fn)
    # Substance.composition_keys
    fn = ctx.func(CHEM, "Substance.composition_keys")
    a = CHEM + ":Substance.composition_keys"
    d = param_default(fn, "skip_keys")
    ctx.check(d is not None and U(d) in ("()", "[]", "set()", "frozenset()"), a, "skip_keys-default-empty", "skip_keys defaults to %s" % (U(d) if d is not None else None), node=fn)
    for g in find_guards(fn, kinds=(ast.Continue, ast.Break, ast.Return)):
        if isinstance(g.stmt, ast.Return):
            continue
        tests = [(U(t).replace(" ", ""), pol) for t, pol in g.tests()]
        ok = any((t.endswith(".compositionisNone") and pol) or (t.endswith("inskip_keys") and "notin" not in t and pol) for t, pol in tests)
        ctx.check(ok, a, "skip:" + g.text()[:40], "a composition key is dropped under `%s` (only `k in skip_keys` / missing composition may skip)" % g.text(), node=g.stmt)
    adds = [c for c in calls_in(fn) if isinstance(c.func, ast.Attribute) and c.func.attr == "add"]
    loops = for_loops(fn)
    ok = len(adds) == 1 and len(loops) == 2 and U(loops[0].iter) == fn.args.args[0].arg and ".composition" in U(loops[1].iter) and U(adds[0].args[0]) == target_names(loops[1].target)[0]
    ctx.check(ok, a, "collects-every-key", "composition_keys must add every key of every substance's composition", node=fn)
    ret = [n for n in walk_shallow(fn) if isinstance(n, ast.Return)][-1]
    ctx.check(U(ret.value) == "sorted(keys)", a, "sorted", "returns %s" % U(ret.value), node=ret)


def r4_matrix_orientation(ctx):
    fn = ctx.func(RSYS, "ReactionSystem.composition_balance_vectors")
    a = RSYS + ":ReactionSystem.composition_balance_vectors"
    ret = [n for n in walk_shallow(fn) if isinstance(n, ast.Return)][-1]
    v = ret.value
    if not (isinstance(v, ast.Tuple) and len(v.elts) == 2 and isinstance(v.elts[0], ast.ListComp)):
        raise AnalysisError("composition_balance_vectors: return shape changed")
    outer = v.elts[0]
    ck = U(v.elts[1])
    og = outer.generators[0]
    inner = outer.elt
    ok = isinstance(inner, ast.ListComp) and U(og.iter) == ck and not og.ifs
    if ok:
        ig = inner.generators[0]
        kv, sv = U(og.target), U(ig.target)
        ok = U(ig.iter) == "subs" and not ig.ifs and U(inner.elt) == "%s.composition.get(%s, 0)" % (sv, kv)
    ctx.check(ok, a, "rows=keys,cols=substances", "matrix must be [[s.composition.get(k, 0) for s in subs] for k in ck] (rows = composition keys, columns = substances); found %s" % U(outer), node=ret)
    vals = {U(n.targets[0]): U(n.value) for n in walk_shallow(fn) if isinstance(n, ast.Assign)}
    ctx.check(vals.get("subs") == "self.substances.values()", a, "all-substances-in-order", "subs = %s" % vals.get("subs"), node=fn)
    ctx.check(vals.get(ck) == "Substance.composition_keys(subs)", a, "keys-unskipped", "%s = %s (no key, in particular not charge, may be skipped)" % (ck, vals.get(ck)), node=fn)


def r5_single_matrix(ctx):
    for q, solver in (("get_odesys", True), ("_create_odesys", False)):
        fn = ctx.func(ODE, q)
        a = ODE + ":" + q
        defs = [n for n in ast.walk(fn) if isinstance(n, ast.Assign) and any("compo_vecs" in target_names(t) for t in n.targets)]
        ok = len(defs) == 1 and U(defs[0].value) == "rsys.composition_balance_vectors()" and target_names(defs[0].targets[0])[0] == "compo_vecs"
        ctx.check(ok, a, "single-definition", "compo_vecs must have one definition: the first result of rsys.composition_balance_vectors(); found %s" % [U(d) for d in defs], node=fn)
        li = None
        for c in ast.walk(fn):
            if isinstance(c, ast.Call) and kwarg(c, "linear_invariants") is not None:
                li = kwarg(c, "linear_invariants")
        ok = li is not None and U(li) in ("compo_vecs", "None if len(compo_vecs) == 0 else compo_vecs")
        ctx.check(ok, a, "linear_invariants=compo_vecs", "linear_invariants= receives %s" % (U(li) if li is not None else None), node=fn)
        if solver:
            mats = [c for c in ast.walk(fn) if isinstance(c, ast.Call) and isinstance(c.func, ast.Attribute) and c.func.attr == "Matrix"]
            ok = len(mats) == 1 and U(mats[0].args[0]) == "compo_vecs"
            ctx.check(ok, a, "analytic-solver-same-matrix", "the analytic solver builds its matrix from %s" % ([U(m.args[0]) for m in mats]), node=fn)
            # bounds helper is only offered when compositions exist
            ctx.check("if rsys.check_balance(strict=True):" in U(fn), a, "strict-balance-gate", "max_euler_step_cb/linear_dependencies must be gated by check_balance(strict=True)", node=fn)


def r6_analytic_elimination(ctx):
    """row ri of the reduced matrix:  sum_d rA[ri,d]*(y_d - y0_d) = 0  solved for column idx"""
    fn = ctx.func(ODE, "get_odesys.linear_dependencies.analytic_solver")
    a = ODE + ":get_odesys.linear_dependencies.analytic_solver"
    terms = None
    store = None
    for n in ast.walk(fn):
        if isinstance(n, ast.Assign) and isinstance(n.targets[0], ast.Name) and isinstance(n.value, ast.ListComp) and "rA" in U(n.value):
            terms = n
        if isinstance(n, ast.Assign) and isinstance(n.targets[0], ast.Subscript) and U(n.targets[0].value) == "analytic_exprs" and not isinstance(n.value, ast.Call):
            store = n
    if terms is None or store is None:
        raise AnalysisError("analytic_solver: terms / analytic_exprs store not found")
    lc = terms.value
    g = lc.generators[0]
    di = U(g.target)
    row = None
    for m_ in ast.walk(lc.elt):
        if isinstance(m_, ast.Subscript) and U(m_.value) == "rA":
            row = U(m_.slice)
    c, p = monomial(lc.elt, atom=lambda n: U(n))
    diff = [k for k in p if " - " in k]
    ok = c == 1 and len(p) == 2 and p.get("rA[ri, %s]" % di) == {"1": 1} and len(diff) == 1 and p.get(diff[0]) == {"1": 1} and linform(ast.parse(diff[0], mode="eval").body, atom=lambda n: U(n)) == {
        "odesys.dep[%s]" % di: 1, "y0[odesys.dep[%s]]" % di: -1}
    ctx.check(ok, a, "term=rA[ri,d]*(y_d-y0_d)", "each term must be rA[ri, d] * (dep[d] - y0[dep[d]]); found %s" % U(lc.elt), node=terms)
    conds = " and ".join(U(x) for x in g.ifs)
    ctx.check(U(g.iter) == "range(ci1st, odesys.ny)" and conds == "%s != idx" % di, a, "all-other-columns", "terms must range over every other column of the row (from the pivot on); found `for %s in %s if %s`" % (di, U(g.iter), conds), node=terms)
    lf = linform(store.value, atom=lambda n: U(n))
    quot = [k for k in lf if k.startswith("sum(")]
    ok = len(lf) == 2 and lf.get("y0[odesys.dep[idx]]") == 1 and len(quot) == 1 and lf[quot[0]] == -1 and \
        monomial(ast.parse(quot[0], mode="eval").body, atom=lambda n: U(n)) == (1, {"sum(%s)" % U(terms.targets[0]): {"1": 1}, "rA[ri, idx]": {"1": -1}})
    ctx.check(ok, a, "y_idx=y0_idx-sum/rA[ri,idx]", "the eliminated concentration must be y0[idx] - sum(terms) / rA[ri, idx] (the row equation solved for column idx); found %s" % U(store.value), node=store)
    ctx.check(U(store.targets[0].slice) == "odesys[key]" and has(fn, "key = odesys.names[idx]"), a, "keyed-by-eliminated-species", "the expression must be stored for the species of column idx", node=store)
    ctx.check(has(fn, "rA, pivots = A.rref()") and has(fn, "for ri, ci1st in enumerate(pivots):") and has(fn, "if rA[ri, idx] == 0: continue"), a, "row-reduced-rows", "rows must come from A.rref() and zero coefficients be skipped", node=fn)


def r7_verdicts(ctx):
    """check_balance's verdict values: False/raise on the first non-zero net amount, True only after every reaction passed"""
    fn = ctx.func(RSYS, "ReactionSystem.check_balance")
    a = RSYS + ":ReactionSystem.check_balance"
    last = fn.body[-1]
    ctx.check(isinstance(last, ast.Return) and U(last.value) == "True", a, "balanced->True", "after all reactions passed the verdict must be True; found `%s`" % U(last), node=last)
    ctx.check(has(fn, "if net != 0: if throw: raise ValueError(") and has(fn, "else: return False"), a, "unbalanced->raise-or-False",
              "a non-zero net amount must raise (throw) or return False", node=fn)
    cv = ctx.func(CHEM, "Reaction.composition_violation")
    a2 = CHEM + ":Reaction.composition_violation"
    ctx.check(has(cv, "ret_comp_keys = composition_keys is True") and has(cv, "if composition_keys in (None, True): composition_keys = Substance.composition_keys(values)"), a2,
              "keys-from-substances", "with None/True the keys are all composition keys of the substances; True also returns them", node=cv)
    ctx.check(has(cv, "if ret_comp_keys: return net, composition_keys else: return net"), a2, "returns-keys-with-net", "(net, keys) must be returned together when asked for", node=cv)
    ck = ctx.func(CHEM, "Substance.composition_keys")
    ctx.check(has(ck, "for k in s.composition.keys(): if k in skip_keys: continue keys.add(k)") and has(ck, "return sorted(keys)"), CHEM + ":Substance.composition_keys",
              "all-keys-but-skipped", "every composition key of every substance is collected, except the ones explicitly skipped", node=ck)


RULES = [
    Rule("C05-R1", r1_armed, 9, "balance check armed: in default_checks, run with throw=True, dominates constructor exits"),
    Rule("C05-R2", r2_all_reactions, 9, "check_balance: all reactions, all keys, no early True"),
    Rule("C05-R3", r3_charge_not_skipped, 11, "charge not skipped; violation sum aligned"),
    Rule("C05-R4", r4_matrix_orientation, 3, "invariant matrix orientation"),
    Rule("C05-R5", r5_single_matrix, 6, "one invariant matrix for linear_invariants and analytic solver"),
    Rule("C05-R6", r6_analytic_elimination, 5, "analytic elimination = row equation solved for the chosen column"),
    Rule("C05-R7", r7_verdicts, 5, "verdict values of check_balance; key set of composition_violation"),
]

MUTANTS = [
    Mutant("balance-not-default", [(RSYS, 'default_checks = {"balance", "substance_keys", "duplicate", "duplicate_names"}', 'default_checks = {"substance_keys", "duplicate", "duplicate_names"}')], "C05-R1", "balance-in"),
    Mutant("throw-false", [(RSYS, 'getattr(self, "check_" + check)(throw=True)\n\n        if sort_substances:', 'getattr(self, "check_" + check)(throw=False)\n\n        if sort_substances:')], "C05-R1", "throw"),
    Mutant("checks-after-early-return", [(RSYS, "        self.name = name\n\n        if checks is not None and dont_check is not None:", "        self.name = name\n        if not self.rxns:\n            return\n\n        if checks is not None and dont_check is not None:")], "C05-R1", "dominates"),
    Mutant("first-reaction-only", [(RSYS, "        for rxn in self.rxns:\n            for net, k in zip(", "        for rxn in self.rxns[:1]:\n            for net, k in zip(")], "C05-R2", "all-reactions"),
    Mutant("return-true-in-loop", [(RSYS, "                    else:\n                        return False\n        return True\n\n    def obeys_mass_balance", "                    else:\n                        return False\n            return True\n        return True\n\n    def obeys_mass_balance")], "C05-R2", "no-return-True"),
    Mutant("nonzero-threshold", [(RSYS, "                if net != 0:\n                    if throw:\n                        raise ValueError(\n                            \"Composition violation", "                if net > 0:\n                    if throw:\n                        raise ValueError(\n                            \"Composition violation")], "C05-R2", "nonzero"),
    Mutant("skip-charge-in-violation", [(CHEM, "composition_keys = Substance.composition_keys(values)", "composition_keys = Substance.composition_keys(values, skip_keys=(0,))")], "C05-R3", "keys-unskipped"),
    Mutant("skip-default-charge", [(CHEM, "def composition_keys(substance_iter, skip_keys=()):", "def composition_keys(substance_iter, skip_keys=(0,)):")], "C05-R3", "skip_keys-default"),
    Mutant("violation-misaligned", [(CHEM, "for substance, coeff in zip(values, self.net_stoich(keys)):", "for substance, coeff in zip(values, self.net_stoich(sorted(keys))):")], "C05-R3", "aligned"),
    Mutant("matrix-transposed", [(RSYS, "return [[s.composition.get(k, 0) for s in subs] for k in ck], ck", "return [[s.composition.get(k, 0) for k in ck] for s in subs], ck")], "C05-R4", "rows=keys"),
    Mutant("matrix-skips-charge", [(RSYS, "ck = Substance.composition_keys(subs)\n        return [[", "ck = Substance.composition_keys(subs, skip_keys=(0,))\n        return [[")], "C05-R4", "keys-unskipped"),
    Mutant("second-matrix", [(ODE, "                A = be.Matrix(compo_vecs)", "                A = be.Matrix(rsys.composition_balance_vectors()[0][:-1])")], "C05-R5", "analytic-solver"),
    Mutant("invariants-dropped", [(ODE, "        linear_invariants=compo_vecs,", "        linear_invariants=None,")], "C05-R5", "linear_invariants"),
]

MUTANTS += [
    Mutant("analytic-solver-multiplies", [(ODE, "y0[odesys.dep[idx]] - sum(terms) / rA[ri, idx]", "y0[odesys.dep[idx]] - sum(terms) * rA[ri, idx]")], "C05-R6", "y_idx"),
    Mutant("analytic-solver-sign", [(ODE, "y0[odesys.dep[idx]] - sum(terms) / rA[ri, idx]", "y0[odesys.dep[idx]] + sum(terms) / rA[ri, idx]")], "C05-R6", "y_idx"),
    Mutant("analytic-solver-term-y0", [(ODE, "rA[ri, di] * (odesys.dep[di] - y0[odesys.dep[di]])", "rA[ri, di] * (odesys.dep[di] - y0[odesys.dep[idx]])")], "C05-R6", "term"),
]

TWINS = [
    Twin("analytic-solver-rearranged", [(ODE, "y0[odesys.dep[idx]] - sum(terms) / rA[ri, idx]", "-sum(terms) / rA[ri, idx] + y0[odesys.dep[idx]]")]),
    Twin("dont-check-minus", [(RSYS, "            checks = self.default_checks ^ (dont_check or set())\n        for check in checks:\n            getattr(self, \"check_\" + check)(throw=True)\n\n        if sort_substances:", "            checks = self.default_checks - (dont_check or set())\n        for check in checks:\n            getattr(self, \"check_\" + check)(throw=True)\n\n        if sort_substances:")]),
    Twin("violation-commuted", [(CHEM, "net[idx] += substance.composition.get(key, 0) * coeff", "net[idx] += coeff * substance.composition.get(key, 0)")]),
    Twin("extra-log-line", [(RSYS, "        for rxn in self.rxns:\n            for net, k in zip(", "        _n_checked = len(self.rxns)\n        for rxn in self.rxns:\n            for net, k in zip(")]),
]

MUTANTS.append(Mutant("charge-dropped-for-empty-composition", [(CHEM, "            if charge is not None and composition is not None:\n                self.composition[0] = charge", "            if charge is not None and composition:\n                self.composition[0] = charge")], "C05-R3", "charge-recorded-for-any-composition"))
