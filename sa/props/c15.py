"""C15 -- structural queries match the reaction graph."""
from __future__ import annotations

import ast
from fractions import Fraction

from ..astu import U, S, has, walk_shallow, call_name, calls_in, kwarg, linform, lin_str, monomial, mono_str, param_default
from ..cfg import build
from ..core import AnalysisError, Mutant, Rule, Twin
from ..idioms import subscript_stores, for_loops, target_names

ID = "C15"
RSYS = "chempy/reactionsystem.py"
CHEM = "chempy/chemistry.py"
ENGINES = ["E0 core", "E3 cfg", "E4 linform"]
TECHNIQUE = "bounded path enumeration with flag constant-propagation on a statement CFG (exactly-once placement in split), linear/monomial forms of categorisation and bound formulas, order/membership plumbing facts (ast)"
CLAIM = ("Decides: subset sends each reaction to exactly one list; along every path of split's grouping loop body the reaction index is "
         "placed exactly once and fusion merges both members before dropping a group; categorisation uses net = all_p - all_r with the "
         "right signs; upper bounds are min over element totals / atoms per molecule with totals = sum coeff*conc; per-substance helpers "
         "follow self.substances order; participation/effect/equilibria/add use the right stoichiometry views."
         ' Membership tests, verdicts and argument order of the structural queries; constructor substance-order arms (R5). Shared rule A1: no swapped same-named arguments at resolved in-package call sites.')
DOES_NOT_DECIDE = "transitive fusion correctness on arbitrary graphs, decompose_yields numerics, that bounds hold for reachable states"
ASSUMPTIONS = ["OrderedDict iteration order; numpy boolean reductions"]
F1 = Fraction(1)


def r1_partition(ctx):
    fn = ctx.func(RSYS, "ReactionSystem.subset")
    a = RSYS + ":ReactionSystem.subset"
    lps = [lp for lp in for_loops(fn) if "self.rxns" in U(lp.iter)]
    if not lps:
        raise AnalysisError("subset: loop over self.rxns not found")
    lp = lps[0]
    rv = target_names(lp.target)[0]
    ok = U(lp.iter) == "self.rxns" and len(lp.body) == 1
    s = lp.body[0]
    arms = None
    if ok and isinstance(s, ast.Expr) and isinstance(s.value, ast.IfExp):
        arms = (U(s.value.body), U(s.value.orelse), U(s.value.test))
    elif ok and isinstance(s, ast.If) and len(s.body) == 1 and len(s.orelse) == 1:
        arms = (U(s.body[0]), U(s.orelse[0]), U(s.test))
    ok = arms is not None and arms[0] == "yes.append(%s)" % rv and arms[1] == "no.append(%s)" % rv and arms[2] == "pred(%s)" % rv
    ctx.check(ok, a, "each-reaction-exactly-one-list", "each reaction must be appended to exactly one of yes/no according to pred(r); found %s" % (arms,), node=lp)
    t = U(fn)
    ctx.check(has(fn, "yes_no = yes, no = [], []"), a, "two-fresh-lists", "yes/no lists are not two fresh lists", node=fn)
    ctx.check("self.__class__(coll, substances=new_substances(coll), checks=checks) for coll in yes_no" in t, a, "both-returned", "the two subsystems must be built from yes and no", node=fn)
    # fusion loop facts (quick tier)
    sp = ctx.func(RSYS, "ReactionSystem.split")
    a2 = RSYS + ":ReactionSystem.split"
    fuse = None
    for n in walk_shallow(sp):
        if isinstance(n, ast.If) and "&" in U(n.test) and "groups[" in U(n.test):
            fuse = n
    if fuse is None:
        raise AnalysisError("split: fusion test not found")
    body = [U(x) for x in fuse.body]
    want = ["groups[i][0].extend(groups[j][0])", "groups[i][1].update(groups[j][1])", "groups.pop(j)", "break"]
    ctx.check(body == want and U(fuse.test) == "groups[i][1] & groups[j][1]", a2, "fusion-merges-then-drops",
              "fusing groups must merge reactions and substances of j into i, then drop j and restart; found %s" % body, node=fuse)
    fl = [lp for lp in for_loops(sp) if U(lp.iter) == "range(i + 1, len(groups))"]
    ctx.check(len(fl) == 1 and bool(fl[0].orelse) and U(fl[0].orelse[0]) == "i += 1", a2, "fusion-scan", "fusion must scan all later groups and advance only when none was fused", node=sp)
    ret = [n for n in walk_shallow(sp) if isinstance(n, ast.Return)][-1]
    ctx.check(has(ret.value, "[self.rxns[ri] for ri in gr]") and has(ret.value, "for k, v in self.substances.items() if k in gs") and has(ret.value, "for gr, gs in groups"), a2, "subsystems-from-groups",
              "each subsystem must consist of the group's reactions and the substances in the group's key set", node=ret)
    # grouping membership test uses the reaction's keys against the group's key set
    ok = any(isinstance(n, ast.If) and U(n.test) == "k in gs" for n in walk_shallow(sp)) and "gs.update(rks)" in U(sp) and "rks = r.keys()" in U(sp)
    ctx.check(ok, a2, "membership-by-shared-key", "a reaction joins a group iff one of its keys is in the group's key set, which then absorbs all its keys", node=sp)


def r1b_split_paths(ctx):
    """thorough: along every feasible path through the body of the loop over reactions the index is placed exactly once."""
    sp = ctx.func(RSYS, "ReactionSystem.split")
    a = RSYS + ":ReactionSystem.split"
    outer = None
    for lp in for_loops(sp):
        if U(lp.iter) == "enumerate(self.rxns)":
            outer = lp
    if outer is None:
        raise AnalysisError("split: loop over enumerate(self.rxns) not found")
    iv = target_names(outer.target)[0]
    g = build(sp)
    head = g.node_of(outer)

    def is_place(node):
        s = node.stmt
        if node.kind != "stmt" or not isinstance(s, ast.Expr) or not isinstance(s.value, ast.Call):
            return False
        c = s.value
        if isinstance(c.func, ast.Attribute) and c.func.attr == "append" and c.args:
            t = U(c.args[0])
            return t == iv or t.startswith("([%s]" % iv)
        return False

    # DFS with flag propagation
    results = []
    limit = [0]

    def walk(n, visits, env, count, first):
        limit[0] += 1
        if limit[0] > 200000:
            raise AnalysisError("split: path enumeration exceeded its bound")
        if n == head and not first:
            results.append(count)
            return
        node = g.nodes[n]
        if node.kind == "stmt" and isinstance(node.stmt, ast.Assign) and isinstance(node.stmt.targets[0], ast.Name) and isinstance(node.stmt.value, ast.Constant):
            env = dict(env)
            env[node.stmt.targets[0].id] = node.stmt.value.value
        if is_place(node):
            count += 1
        for b, lab in g.succ[n]:
            if first and lab != "iter":
                continue
            if node.kind == "if" and isinstance(node.ast, ast.Name) and node.ast.id in env:
                if (lab == "T") != bool(env[node.ast.id]):
                    continue
            if lab == "exc":
                continue
            v = visits.get(b, 0)
            if v >= 3 and b != head:
                continue
            v2 = dict(visits)
            v2[b] = v + 1
            walk(b, v2, env, count, False)

    walk(head, {head: 1}, {}, 0, True)
    if not results:
        raise AnalysisError("split: no path through the grouping loop body")
    bad = sorted(set(c for c in results if c != 1))
    ctx.check(not bad, a, "index-placed-exactly-once", "there are paths through the grouping loop body on which the reaction index is placed %s times (must be exactly once): reactions would be lost or duplicated" % bad,
              node=outer, paths=len(results), counts=sorted(set(results)))


def r2_categorize(ctx):
    fn = ctx.func(RSYS, "ReactionSystem.categorize_substances")
    a = RSYS + ":ReactionSystem.categorize_substances"
    vals = {}
    for s in walk_shallow(fn):
        if isinstance(s, ast.Assign) and isinstance(s.targets[0], ast.Name):
            vals[s.targets[0].id] = s.value
    ctx.check(U(vals.get("all_r")) == "irrev_rsys.all_reac_stoichs()" and U(vals.get("all_p")) == "irrev_rsys.all_prod_stoichs()", a, "all-stoichs", "all_r/all_p sources changed", node=fn)
    ctx.check("net" in vals and linform(vals["net"]) == {"all_p": F1, "all_r": -F1}, a, "net=all_p-all_r", "net = %s" % (U(vals["net"]) if "net" in vals else None), node=fn)
    lps = [lp for lp in for_loops(fn) if "substances" in U(lp.iter)]
    if not lps:
        raise AnalysisError("categorize_substances: substance loop not found")
    lp = lps[-1]
    ctx.check(U(lp.iter) == "enumerate(irrev_rsys.substances.keys())", a, "substance-order", "substances enumerated as %s" % U(lp.iter), node=lp)
    i, sk = target_names(lp.target)
    loc = {}
    for s in lp.body:
        if isinstance(s, ast.Assign):
            loc[s.targets[0].id] = U(s.value)
    ctx.check(loc.get("in_r") == "np.any(net[:, %s] < 0)" % i and loc.get("in_p") == "np.any(net[:, %s] > 0)" % i, a, "consumed<0,produced>0",
              "in_r/in_p must be np.any(net[:, i] < 0) / np.any(net[:, i] > 0); found %s / %s" % (loc.get("in_r"), loc.get("in_p")), node=lp)
    # decision chain
    chain = []
    node = [s for s in lp.body if isinstance(s, ast.If)]
    node = node[0] if node else None
    while isinstance(node, ast.If):
        chain.append((U(node.test), [U(x) for x in node.body]))
        if len(node.orelse) == 1 and isinstance(node.orelse[0], ast.If):
            node = node.orelse[0]
        else:
            chain.append(("else", node.orelse))
            node = None
    if len(chain) == 5 and chain[3][0] != "else":  # `else: if ...` and `elif` are the same tree
        last_if = [s for s in ast.walk(lp) if isinstance(s, ast.If) and U(s.test) == chain[3][0]][0]
        chain = chain[:3] + [("else", [last_if])]
    ok = len(chain) == 4 and chain[0] == ("in_r and in_p", ["pass"]) and chain[1] == ("in_r", ["depleted.add(%s)" % sk]) and chain[2] == ("in_p", ["accumulated.add(%s)" % sk])
    ctx.check(ok, a, "depleted/accumulated", "net-consumed-only -> depleted, net-produced-only -> accumulated, both -> neither; found %s" % [c[:2] if c[0] != "else" else "else" for c in chain][:3], node=lp)
    ok = False
    if len(chain) == 4 and chain[3][0] == "else" and len(chain[3][1]) == 1 and isinstance(chain[3][1][0], ast.If):
        last = chain[3][1][0]
        ok = U(last.test) == "np.any(all_p[:, %s] > 0)" % i and U(last.body[-1]) == "unaffected.add(%s)" % sk and [U(x) for x in last.orelse] == ["nonparticipating.add(%s)" % sk]
    ctx.check(ok, a, "unaffected/nonparticipating", "zero net effect: present on a side -> unaffected, absent -> nonparticipating", node=lp)
    ret = [n for n in walk_shallow(fn) if isinstance(n, ast.Return)][-1]
    kws = {k.arg: U(k.value) for k in ret.value.keywords} if isinstance(ret.value, ast.Call) else {}
    ctx.check(kws == {k: k for k in ("accumulated", "depleted", "unaffected", "nonparticipating")}, a, "result-names", "result maps %s" % kws, node=ret)
    ctx.check("irrev_rxns.extend(r.as_reactions())" in U(fn) and "irrev_rxns.append(r)" in U(fn), a, "equilibria-expanded", "equilibria must be expanded into forward and backward reactions", node=fn)


def r3_bounds(ctx):
    fn = ctx.func(RSYS, "ReactionSystem.upper_conc_bounds")
    a = RSYS + ":ReactionSystem.upper_conc_bounds"
    d = param_default(fn, "min_")
    ctx.check(d is not None and U(d) == "min", a, "min-default", "min_ defaults to %s" % (U(d) if d is not None else None), node=fn)
    lps = for_loops(fn)
    tot_lp = [lp for lp in lps if U(lp.iter) == "zip(init_concs_arr, self.substances.values())"]
    ctx.check(len(tot_lp) == 1, a, "totals-over-all-substances", "element totals must be accumulated over zip(init_concs_arr, self.substances.values())", node=fn)
    if tot_lp:
        conc, sobj = target_names(tot_lp[0].target)
        inner = for_loops(tot_lp[0])
        ok = len(inner) == 1 and U(inner[0].iter) == "%s.composition.items()" % sobj
        if ok:
            cn, cf = target_names(inner[0].target)
            ups = subscript_stores(inner[0].body, "composition_conc")
            ok = len(ups) == 1 and ups[0].kind == "+=" and U(ups[0].key) == cn and monomial(ups[0].value) == (F1, {cf: {"1": F1}, conc: {"1": F1}})
            skips = [n for n in walk_shallow(inner[0]) if isinstance(n, ast.If)]
            ok = ok and len(skips) == 1 and U(skips[0].test) == "%s in skip_keys" % cn and isinstance(skips[0].body[0], ast.Continue)
        ctx.check(ok, a, "total+=coeff*conc", "composition_conc[key] must accumulate coeff * conc for every key not in skip_keys", node=tot_lp[0])
    b_lp = [lp for lp in lps if U(lp.iter) == "self.substances.values()"]
    ctx.check(len(b_lp) == 1, a, "bounds-per-substance", "bounds must be computed for every substance in order", node=fn)
    if b_lp:
        sobj = target_names(b_lp[0].target)[0]
        inner = for_loops(b_lp[0])
        ok = len(inner) == 1 and U(inner[0].iter) == "%s.composition.items()" % sobj
        if ok:
            cn, cf = target_names(inner[0].target)
            apps = [c for c in calls_in(inner[0]) if U(c.func) == "choose_from.append"]
            ok = len(apps) == 1 and monomial(apps[0].args[0]) == (F1, {"composition_conc[%s]" % cn: {"1": F1}, cf: {"1": -F1}})
            skips = [n for n in walk_shallow(inner[0]) if isinstance(n, ast.If)]
            ok = ok and len(skips) == 1 and U(skips[0].test).replace(" ", "") == "%s==0" % cn and isinstance(skips[0].body[0], ast.Continue)
        ctx.check(ok, a, "candidate=total/coeff", "candidates must be composition_conc[key] / coeff for every key except charge", node=b_lp[0])
        t = U(b_lp[0])
        ctx.check("bounds.append(min_(choose_from))" in t and "if len(choose_from) == 0:" in t and "bounds.append(float('inf'))" in t, a, "least-candidate",
                  "the bound must be min_(candidates), inf when there are none", node=b_lp[0])
    ctx.check("init_concs_arr = self.as_per_substance_array(init_concs, dtype=dtype)" in U(fn), a, "concs-in-substance-order", "initial concentrations must be ordered by as_per_substance_array", node=fn)
    ret = [n for n in walk_shallow(fn) if isinstance(n, ast.Return)][-1]
    ctx.check(U(ret.value) == "bounds", a, "returns-bounds", "returns %s" % U(ret.value), node=ret)


def r4_order_membership(ctx):
    def ret_of(q):
        fn = ctx.func(RSYS, "ReactionSystem." + q)
        return fn, [n for n in walk_shallow(fn) if isinstance(n, ast.Return)]
    fn, rets = ret_of("as_per_substance_dict")
    ctx.check(U(rets[-1].value) == "dict(zip(self.substances.keys(), arr))", RSYS + ":ReactionSystem.as_per_substance_dict", "substance-order", "returns %s" % U(rets[-1].value), node=fn)
    fn, rets = ret_of("as_substance_index")
    ctx.check(U(rets[-1].value) == "list(self.substances.keys()).index(substance_key)", RSYS + ":ReactionSystem.as_substance_index", "substance-order", "returns %s" % U(rets[-1].value), node=fn)
    fn, rets = ret_of("as_per_substance_array")
    t = U(fn)
    ctx.check("substance_keys = self.substances.keys()" in t and "cont = [cont[k] for k in substance_keys]" in t, RSYS + ":ReactionSystem.as_per_substance_array", "substance-order",
              "dict input must be ordered by self.substances.keys()", node=fn)
    ctx.check("if cont.shape[-1] != self.ns:" in t, RSYS + ":ReactionSystem.as_per_substance_array", "size-guard", "size guard removed", node=fn)
    fn, rets = ret_of("per_substance_varied")
    t = U(fn)
    ctx.check(has(fn, "varied_keys = tuple(k for k in self.substances if k in varied)") and has(fn, "shape = tuple(len(varied[k]) for k in self.substances if k in varied)") and
              has(fn, "result[index + (self.as_substance_index(k),)] = val"), RSYS + ":ReactionSystem.per_substance_varied", "substance-order", "varied keys/shape/index must follow self.substances order", node=fn)
    fn, rets = ret_of("substance_participation")
    ctx.check(U(rets[-1].value) == "[ri for ri, rxn in enumerate(self.rxns) if substance_key in rxn.keys()]", RSYS + ":ReactionSystem.substance_participation", "membership-all-sides",
              "returns %s" % U(rets[-1].value), node=fn)
    kf = ctx.func(CHEM, "Reaction.keys")
    ch = [c for c in calls_in(kf) if call_name(c) == "chain"]
    got = sorted(U(x) for x in ch[0].args) if ch else None
    ctx.check(got == sorted(["self.reac.keys()", "self.prod.keys()", "self.inact_reac.keys()", "self.inact_prod.keys()"]), CHEM + ":Reaction.keys", "all-four-dicts", "Reaction.keys chains %s" % got, node=kf)
    fn, rets = ret_of("per_reaction_effect_on_substance")
    ctx.check(has(fn, "for ri, rxn in enumerate(self.rxns):") and has(fn, "n, = rxn.net_stoich((substance_key,))") and has(fn, "if n != 0: result[ri] = n return result"),
              RSYS + ":ReactionSystem.per_reaction_effect_on_substance", "nonzero-net", "must keep exactly the non-zero net coefficients per reaction index", node=fn)
    fn, rets = ret_of("identify_equilibria")
    t = U(fn).replace("\n", " ")
    ok = "rxn1.all_reac_stoich(self.substances) == rxn2.all_prod_stoich(self.substances) and rxn1.all_prod_stoich(self.substances) == rxn2.all_reac_stoich(self.substances)" in t \
        and "for ri2, rxn2 in enumerate(self.rxns[ri1 + 1:], ri1 + 1)" in t and "eq.append((ri1, ri2))" in t
    ctx.check(ok, RSYS + ":ReactionSystem.identify_equilibria", "crosswise-all-stoich", "pairs must compare reactants of one with products of the other (all_* forms) over later reactions", node=fn)
    fn, rets = ret_of("__add__")
    ctx.check("self.__class__(chain(self.rxns, other_rxns), substances, checks=())" in U(fn) and "other_rxns = list(getattr(other, 'rxns', other))" in U(fn), RSYS + ":ReactionSystem.__add__", "all-reactions-of-both",
              "sum must contain all reactions of both operands in order", node=fn)
    fn, rets = ret_of("__iadd__")
    t = U(fn)
    ctx.check("self.rxns.extend(other.rxns)" in t and "self.rxns.extend(other)" in t and "self.substances.update(other.substances)" in t, RSYS + ":ReactionSystem.__iadd__", "extends-with-all", "in-place sum must extend with all reactions and substances", node=fn)
    fn, rets = ret_of("concatenate")
    t = U(fn)
    ctx.check(has(fn, "rsys += yes") and has(fn, "skipped += no") and has(fn, "yes, no = rs.subset(_pred)"), RSYS + ":ReactionSystem.concatenate", "yes-to-sum,no-to-duplicates", "concatenate must add non-duplicates to the sum and duplicates to skipped", node=fn)
    fn, rets = ret_of("__eq__")
    ctx.check(U(rets[-1].value) == "self.rxns == other.rxns and self.substances == other.substances", RSYS + ":ReactionSystem.__eq__", "eq", "equality is %s" % U(rets[-1].value), node=fn)
    # nr / ns
    for q, want in (("nr", "len(self.rxns)"), ("ns", "len(self.substances)")):
        fn, rets = ret_of(q)
        ctx.check(U(rets[-1].value) == want, RSYS + ":ReactionSystem." + q, "count", "%s returns %s" % (q, U(rets[-1].value)), node=fn)


def r5_definitions(ctx):
    """membership tests, verdict values and argument order of the structural queries"""
    def chk(q, frag, key, msg):
        fn = ctx.func(RSYS, q)
        ctx.check(has(fn, frag), RSYS + ":" + q, key, msg + " (expected `%s`)" % frag, node=fn)

    chk("ReactionSystem.check_duplicate", "for i1, rxn1 in enumerate(self.rxns): for i2, rxn2 in enumerate(self.rxns[i1 + 1:], i1 + 1): if rxn1 == rxn2:", "duplicates=equal-reactions",
        "two reactions are duplicates when they compare equal (all sides, parameter and name), every pair examined -- not when they merely print alike")

    q = "ReactionSystem.split"
    fn = ctx.func(RSYS, q)
    wl = [n for n in fn.body if isinstance(n, ast.While)]
    ok = len(wl) == 1
    if ok:
        prev = fn.body[fn.body.index(wl[0]) - 1]
        ok = isinstance(prev, ast.Assign) and U(prev).replace(" ", "") == "i=0"
    ctx.check(ok, RSYS + ":" + q, "fusion-from-group-0", "the fusion pass must start at the first group (i = 0)", node=fn)
    chk(q, "if i >= len(groups): break", "fusion-until-last-group", "the fusion pass ends when every group has been the pivot")
    chk(q, "self.__class__([self.rxns[ri] for ri in gr], OrderedDict([(k, v) for k, v in self.substances.items() if k in gs]), **kwargs) for gr, gs in groups", "subsystem=(own-reactions,own-substances)",
        "each sub-system gets the reactions of its group and exactly the substances of its group, in system order")
    q = "ReactionSystem.subset"
    chk(q, "for k, v in self.substances.items() if any([k in r.keys() for r in coll])", "substances-of-kept-reactions", "a subset keeps exactly the substances occurring in its reactions")
    chk(q, "self.__class__(coll, substances=new_substances(coll), checks=checks) for coll in yes_no", "both-halves-built-alike", "both halves are built from their own reactions and substances")
    q = "ReactionSystem.concatenate"
    pr = ctx.func(RSYS, "ReactionSystem.concatenate._pred")
    ctx.check(has(pr, "for rr in rsys.rxns: for attr in cmp_attrs: if getattr(r, attr) != getattr(rr, attr): break else: return False return True"), RSYS + ":" + q + "._pred", "new-iff-no-identical-stoichiometry",
              "a reaction is new (True) unless some reaction already present agrees with it in every compared attribute", node=pr)
    chk(q, "yes, no = rs.subset(_pred) rsys += yes skipped += no", "new-added,duplicates-set-aside", "new reactions are added to the sum, duplicates to the second result")
    chk(q, "return rsys, skipped", "returns(sum,duplicates)", "result is (sum, duplicates)")
    d = param_default(ctx.func(RSYS, q), "cmp_attrs")
    ctx.check(d is not None and U(d) == "'reac inact_reac prod inact_prod'.split()", RSYS + ":" + q, "identical=all-four-sides", "identical stoichiometry means equal reac, inact_reac, prod and inact_prod", node=fn)
    q = "ReactionSystem.__eq__"
    chk(q, "if self is other: return True", "identical->True", "a system equals itself")
    chk(q, "return self.rxns == other.rxns and self.substances == other.substances", "equal-iff-reactions-and-substances", "systems are equal iff reactions and substances are")
    q = "ReactionSystem.__add__"
    chk(q, "substances = OrderedDict(chain(self.substances.items(), other.substances.items()))", "substances:self-then-other", "substances of a sum: own first, then the other's")
    chk(q, "return self.__class__(chain(self.rxns, other_rxns), substances, checks=())", "reactions:self-then-other", "reactions of a sum: own first, then the other's")
    chk(q, "if not all((isinstance(r, Reaction) for r in other_rxns)): raise ValueError(", "non-reactions-refused", "anything but reactions is refused")
    q = "ReactionSystem.__iadd__"
    chk(q, "self.rxns.extend(other.rxns)", "extend-by-system", "in-place sum appends the other system's reactions")
    chk(q, "if not all((isinstance(r, Reaction) for r in other)): raise ValueError(", "non-reactions-refused", "anything but reactions is refused")
    chk(q, "return self", "returns-self", "in-place sum returns the system itself")
    q = "ReactionSystem.identify_equilibria"
    chk(q, "all_eq = rxn1.all_reac_stoich(self.substances) == rxn2.all_prod_stoich(self.substances) and rxn1.all_prod_stoich(self.substances) == rxn2.all_reac_stoich(self.substances)", "pair=mutually-reversed",
        "two reactions form an equilibrium iff each one's reactant side is the other's product side")
    chk(q, "for ri2, rxn2 in enumerate(self.rxns[ri1 + 1:], ri1 + 1)", "later-partner-with-true-index", "partners are searched among the later reactions, with their real index")
    chk(q, "if all_eq: eq.append((ri1, ri2))", "pair-recorded-lowest-first", "a pair is recorded as (earlier, later)")
    q = "ReactionSystem.as_per_substance_array"
    chk(q, "cont = [cont[k] for k in substance_keys]", "dict->substance-order", "a dict becomes a list in substance order")
    chk(q, "if raise_on_unk: for k in cont: if k not in substance_keys: raise KeyError(", "unknown-key-refused-on-request", "unknown keys are refused on request")
    chk(q, "if unit is not None: cont = to_unitless(cont, unit)", "strip-iff-unit", "values are stripped exactly when a unit is given")
    chk(q, "return cont * (unit if unit is not None else 1)", "reattach-same-unit", "and the same unit is re-attached (1 otherwise)")
    chk(q, "if cont.shape[-1] != self.ns: raise ValueError(", "wrong-length-refused", "a vector of the wrong length is refused")
    chk("ReactionSystem.as_per_substance_dict", "return dict(zip(self.substances.keys(), arr))", "array->dict-in-substance-order", "array entries are keyed in substance order")
    chk("ReactionSystem.as_substance_index", "return list(self.substances.keys()).index(substance_key)", "index-in-substance-order", "the index of a key is its position in substance order")
    q = "ReactionSystem.per_substance_varied"
    chk(q, "index = tuple((varied_idx if i == varied_axis else slice(None) for i in range(n_varied)))", "own-axis-indexed", "a varied level indexes its own axis, all others are full slices")
    chk(q, "result[index + (self.as_substance_index(k),)] = val", "level-stored-in-own-column", "the level is stored in the column of its substance")
    chk(q, "result[..., :] = self.as_per_substance_array(per_substance)", "base-values-broadcast", "non-varied values are broadcast to every combination")
    # constructor: where the substance order comes from
    q = "ReactionSystem.__init__"
    init = ctx.func(RSYS, q)
    from ..idioms import none_default
    chk(q, "if substances is None: if self.rxns: substances = set.union(*[set(rxn.keys()) for rxn in self.rxns]) else: substances = set()", "default-substances=all-reaction-keys",
        "given substances are used; without any the species of all reactions are taken")
    chk(q, "if sort_substances is None: if isinstance(substances, (OrderedDict, tuple, list, str)): sort_substances = False else: sort_substances = True", "ordered-input-keeps-its-order",
        "ordered containers keep the given order; only unordered ones are sorted")
    chk(q, "if isinstance(substances, OrderedDict): self.substances = substances", "mapping-used-as-given", "an ordered mapping of substances is used as given")
    chk(q, "if isinstance(substances, str) and ' ' in substances: substances = substances.split()", "string-of-keys-split", "a space separated string lists keys")
    chk(q, "all((isinstance(s, Substance) for s in substances)): self.substances = OrderedDict([(s.name, s) for s in substances])", "instances-keyed-by-name", "Substance instances are keyed by their name, in the given order")
    chk(q, "if missing_substances_from_keys: for k in set.union(*[set(rxn.keys()) for rxn in self.rxns]) - set(self.substances): self.substances[k] = substance_factory(k)", "missing-keys-added-on-request",
        "species missing from the substances are created on request (and only the missing ones)")
    chk(q, "if sort_substances: self.sort_substances_inplace()", "sorted-only-when-asked", "sorting happens only in the unordered case / on request")
    q = "ReactionSystem.upper_conc_bounds"
    fnu = ctx.func(RSYS, q)
    d = param_default(fnu, "skip_keys")
    ctx.check(d is not None and U(d) == "(0,)", RSYS + ":" + q, "only-charge-skipped", "element totals skip only key 0 (charge)", node=fnu)
    d = param_default(fnu, "min_")
    ctx.check(d is not None and U(d) == "min", RSYS + ":" + q, "least-of-the-ratios", "the bound is the least ratio (min)", node=fnu)
    chk(q, "if len(choose_from) == 0: bounds.append(float('inf')) else: bounds.append(min_(choose_from))", "no-elements->unbounded", "a species without elements is unbounded")


RULES = [
    Rule("C15-R1", r1_partition, 7, "subset partition; fusion merge-then-drop; subsystems from groups"),
    Rule("C15-R1b", r1b_split_paths, 1, "split: index placed exactly once on every path of the grouping loop body", tier="thorough"),
    Rule("C15-R2", r2_categorize, 8, "categorisation signs and arms"),
    Rule("C15-R3", r3_bounds, 8, "upper bound = min(total/coeff), totals = sum coeff*conc"),
    Rule("C15-R5", r5_definitions, 41, "membership tests, verdicts and argument order of the structural queries"),
    Rule("C15-R4", r4_order_membership, 15, "order and membership plumbing"),
]

MUTANTS = [
    Mutant("subset-both-lists", [(RSYS, "yes.append(r) if pred(r) else no.append(r)", "yes.append(r) if pred(r) else (yes.append(r), no.append(r))")], "C15-R1", "exactly-one"),
    Mutant("fusion-drops-reactions", [(RSYS, "                    groups[i][0].extend(groups[j][0])\n", "")], "C15-R1", "fusion"),
    Mutant("split-no-break-after-found", [(RSYS, "                        group_found = True\n                        break\n", "                        group_found = True\n")], "C15-R1b", "exactly-once"),
    Mutant("split-no-outer-break", [(RSYS, "                if group_found:\n                    break\n", "")], "C15-R1b", "exactly-once"),
    Mutant("split-else-misplaced", [(RSYS, "            else:  # reaction did not fit any group\n                groups.append(([i], set(r.keys())))", "            if not groups:\n                groups.append(([i], set(r.keys())))")], "C15-R1b", "exactly-once"),
    Mutant("categorize-signs-swapped", [(RSYS, "            in_r = np.any(net[:, i] < 0)\n            in_p = np.any(net[:, i] > 0)", "            in_r = np.any(net[:, i] > 0)\n            in_p = np.any(net[:, i] < 0)")], "C15-R2", "consumed"),
    Mutant("categorize-net-reversed", [(RSYS, "net = all_p - all_r", "net = all_r - all_p")], "C15-R2", "net="),
    Mutant("categorize-sets-crossed", [(RSYS, "            elif in_r:\n                depleted.add(sk)", "            elif in_r:\n                accumulated.add(sk)")], "C15-R2", "depleted"),
    Mutant("bounds-max", [(RSYS, "bounds.append(min_(choose_from))", "bounds.append(max(choose_from))")], "C15-R3", "least"),
    Mutant("bounds-times-coeff", [(RSYS, "choose_from.append(composition_conc[comp_nr] / coeff)", "choose_from.append(composition_conc[comp_nr] * coeff)")], "C15-R3", "candidate"),
    Mutant("totals-unweighted", [(RSYS, "composition_conc[comp_nr] += coeff * conc", "composition_conc[comp_nr] += conc")], "C15-R3", "total"),
    Mutant("index-sorted", [(RSYS, "return list(self.substances.keys()).index(substance_key)", "return sorted(self.substances.keys()).index(substance_key)")], "C15-R4", "as_substance_index"),
    Mutant("participation-active-only", [(RSYS, "if substance_key in rxn.keys()]", "if substance_key in rxn.reac or substance_key in rxn.prod]")], "C15-R4", "participation"),
    Mutant("keys-miss-inact", [(CHEM, "                self.reac.keys(),\n                self.prod.keys(),\n                self.inact_reac.keys(),\n                self.inact_prod.keys(),\n            )\n        )\n\n    def net_stoich", "                self.reac.keys(),\n                self.prod.keys(),\n                self.inact_reac.keys(),\n            )\n        )\n\n    def net_stoich")], "C15-R4", "all-four"),
    Mutant("equilibria-active-only", [(RSYS, "all_eq = rxn1.all_reac_stoich(self.substances) == rxn2.all_prod_stoich(", "all_eq = rxn1.active_reac_stoich(self.substances) == rxn2.all_prod_stoich(")], "C15-R4", "crosswise"),
]

TWINS = [
    Twin("subset-if-statement", [(RSYS, "            yes.append(r) if pred(r) else no.append(r)", "            if pred(r):\n                yes.append(r)\n            else:\n                no.append(r)")]),
    Twin("totals-commuted", [(RSYS, "composition_conc[comp_nr] += coeff * conc", "composition_conc[comp_nr] += conc * coeff")]),
]

MUTANTS.append(Mutant("duplicates-by-printed-form", [(RSYS, "                if rxn1 == rxn2:", "                if rxn1.string(with_param=False, with_name=False) == rxn2.string(with_param=False, with_name=False):")], "C15-R5", "duplicates=equal-reactions"))
