"""C06 -- integrated kinetics: only the 'safe explicit-Euler step' clause has a structural necessary condition."""
from __future__ import annotations

import ast

from ..astu import U, has, walk_shallow, call_name, calls_in
from ..core import AnalysisError, Mutant, Rule, Twin
from ..idioms import for_loops, target_names
from ..ratform import rat_of, r_equal, Undecided

ID = "C06"
ODE = "chempy/kinetics/ode.py"
RSYS = "chempy/reactionsystem.py"
ENGINES = ["E0 core", "E4b rational normal form"]
TECHNIQUE = ("arm-wise algebraic identity of the advertised Euler step: for every sign of a rate component the step h_i returned satisfies y_i + h_i*f_i == bound_i "
             "(upper elemental bound for f_i > 0, zero for f_i < 0) as an exact rational identity; min over all components; state, bounds and rates taken at one point (ast)")
CLAIM = ("Decides ONE clause of C06, 'the advertised safe explicit-Euler step keeps every concentration inside [0, elemental upper bound]', through its structural "
         "necessary condition: max_euler_step_cb evaluates bounds and rates at the same pre-processed state, treats every component (one step per component on every "
         "path), and the step of component i is exactly the distance to the bound it moves towards divided by its rate (y + h*f == upper bound for f > 0, == 0 for "
         "f < 0, infinite for f == 0); the result is the minimum over all components, capped at 1; the callback exists only when every substance has a composition.")
DOES_NOT_DECIDE = ("every other clause of C06: agreement of the integrated trajectories with exact solutions, non-negativity and element-supply bounds of integrated "
                   "concentrations (numerical behaviour of the delegated pyodesys solver; the right-hand side itself is the subject of C03/C04, the bounds of C15-R3)")
ASSUMPTIONS = ["rsys.upper_conc_bounds is the elemental upper bound (C15-R3)", "odesys.f_cb evaluates the right-hand side of C04", "a forward Euler step is y + h*f"]


def r1_euler_step(ctx):
    fn = ctx.func(ODE, "get_odesys.max_euler_step_cb")
    a = ODE + ":get_odesys.max_euler_step_cb"
    ctx.check(has(fn, "_x, _y, _p = odesys.pre_process(*odesys.to_arrays(x, y, p))"), a, "one-state", "state, parameters and time go through to_arrays/pre_process once, in (x, y, p) order", node=fn)
    ctx.check(has(fn, "upper_bounds = rsys.upper_conc_bounds(_y)"), a, "bounds-at-that-state", "bounds are the elemental upper bounds of the same state", node=fn)
    ctx.check(has(fn, "fvec = odesys.f_cb(_x[0], _y, _p)"), a, "rates-at-that-state", "rates are the right-hand side at the same (time, state, parameters)", node=fn)
    loops = [lp for lp in for_loops(fn) if U(lp.iter) == "enumerate(fvec)"]
    if len(loops) != 1:
        raise AnalysisError("max_euler_step_cb: loop over enumerate(fvec) not found")
    lp = loops[0]
    idx, f = target_names(lp.target)
    ctx.check(not any(isinstance(x, (ast.Break, ast.Continue, ast.Return)) for x in walk_shallow(lp)), a, "every-component", "no component may be skipped", node=lp)
    # arms
    arms = []  # (test text or None, appended expr)
    node = lp.body[0] if len(lp.body) == 1 and isinstance(lp.body[0], ast.If) else None
    if node is None:
        raise AnalysisError("max_euler_step_cb: body of the component loop is not one if/elif/else chain")
    while True:
        apps = [s.value.args[0] for s in node.body if isinstance(s, ast.Expr) and isinstance(s.value, ast.Call) and U(s.value.func) == "h.append" and len(s.value.args) == 1]
        arms.append((U(node.test), apps, node))
        if len(node.orelse) == 1 and isinstance(node.orelse[0], ast.If):
            node = node.orelse[0]
            continue
        apps = [s.value.args[0] for s in node.orelse if isinstance(s, ast.Expr) and isinstance(s.value, ast.Call) and U(s.value.func) == "h.append" and len(s.value.args) == 1]
        arms.append((None, apps, node))
        break
    ctx.check(all(len(ap) == 1 for _, ap, _ in arms) and arms[-1][0] is None, a, "one-step-per-component", "every arm (including a final else) appends exactly one step", node=lp)
    tests = [t for t, _, _ in arms]
    zero = {"%s == 0" % f, "0 == %s" % f}
    pos = {"%s > 0" % f, "0 < %s" % f}
    neg = {"%s < 0" % f, "0 > %s" % f}
    kinds = []
    for t in tests:
        kinds.append("zero" if t in zero else "pos" if t in pos else "neg" if t in neg else "else" if t is None else "?")
    # the final else takes the sign not tested before
    if kinds and kinds[-1] == "else":
        rest = {"zero", "pos", "neg"} - set(kinds[:-1])
        kinds[-1] = rest.pop() if len(rest) == 1 else "?"
    ctx.check(sorted(kinds) == ["neg", "pos", "zero"], a, "arms-by-sign", "the three arms must be rate == 0, rate > 0 and rate < 0; found tests %s" % tests, node=lp)
    if sorted(kinds) != ["neg", "pos", "zero"] or not all(len(ap) == 1 for _, ap, _ in arms):
        return
    y = ast.parse("_y[%s]" % idx, mode="eval").body
    fnode = ast.parse(f, mode="eval").body
    for kind, (t, ap, nd) in zip(kinds, arms):
        e = ap[0]
        if kind == "zero":
            ctx.check(U(e) in ("float('inf')", "math.inf", "np.inf", "float('Inf')", "inf"), a, "step:zero-rate", "a component that does not move allows any step (inf); found %s" % U(e), node=e)
            continue
        bound = "upper_bounds[%s]" % idx if kind == "pos" else "0"
        try:
            after = ast.BinOp(left=y, op=ast.Add(), right=ast.BinOp(left=e, op=ast.Mult(), right=fnode))
            ok = r_equal(rat_of(after), rat_of(ast.parse(bound, mode="eval").body))
        except Undecided as ex:
            raise AnalysisError("max_euler_step_cb: step of the %s arm has no rational normal form: %s" % (kind, ex))
        ctx.check(ok, a, "step:%s-rate" % ("positive" if kind == "pos" else "negative"),
                  "for a %s rate the step h must satisfy  _y[i] + h*f == %s  (the Euler update lands exactly on the bound it moves towards); found h = %s" % (
                      "positive" if kind == "pos" else "negative", bound, U(e)), node=e)
    ctx.check(has(fn, "min_h = min(h)") and has(fn, "return min(min_h, 1)"), a, "min-over-components-capped", "the step is the minimum over all components, capped at 1", node=fn)
    inits = [n for n in fn.body if isinstance(n, ast.Assign) and U(n.targets[0]) == "h"]
    ctx.check(len(inits) == 1 and U(inits[0].value) in ("[]", "list()"), a, "steps-start-empty", "the list of per-component steps starts empty", node=fn)
    # defined only with compositions
    g = ctx.func(ODE, "get_odesys")
    ctx.check(has(g, "if rsys.check_balance(strict=True):") and has(g, "else: max_euler_step_cb = None linear_dependencies = None") and has(g, "'max_euler_step_cb': max_euler_step_cb"),
              ODE + ":get_odesys", "only-with-compositions", "the callback is offered only when every substance has a composition (strict balance check), else None", node=g)


RULES = [
    Rule("C06-R1", r1_euler_step, 11, "safe explicit-Euler step: arm-wise identity y + h*f == bound, min over all components, one state"),
]

_POS = "                    h.append((upper_bounds[idx] - _y[idx]) / fcomp)"
MUTANTS = [
    Mutant("upper-distance-sign", [(ODE, _POS, "                    h.append((upper_bounds[idx] + _y[idx]) / fcomp)")], "C06-R1", "step:positive"),
    Mutant("lower-distance-sign", [(ODE, "                    h.append(-_y[idx] / fcomp)", "                    h.append(_y[idx] / fcomp)")], "C06-R1", "step:negative"),
    Mutant("times-rate", [(ODE, _POS, "                    h.append((upper_bounds[idx] - _y[idx]) * fcomp)")], "C06-R1", "step:positive"),
    Mutant("arms-swapped", [(ODE, "                elif fcomp > 0:", "                elif fcomp < 0:")], "C06-R1", "step:"),
    Mutant("bounds-of-raw-state", [(ODE, "upper_bounds = rsys.upper_conc_bounds(_y)", "upper_bounds = rsys.upper_conc_bounds(y)")], "C06-R1", "bounds-at-that-state"),
    Mutant("max-instead-of-min", [(ODE, "            min_h = min(h)", "            min_h = max(h)")], "C06-R1", "min-over"),
    Mutant("first-component-skipped", [(ODE, "            for idx, fcomp in enumerate(fvec):\n                if fcomp == 0:", "            for idx, fcomp in enumerate(fvec):\n                if idx == 0:\n                    continue\n                if fcomp == 0:")], "C06-R1", ""),
]
TWINS = [
    Twin("upper-step-rewritten", [(ODE, _POS, "                    h.append(upper_bounds[idx] / fcomp - _y[idx] / fcomp)")]),
    Twin("lower-step-rewritten", [(ODE, "                    h.append(-_y[idx] / fcomp)", "                    h.append(_y[idx] / -fcomp)")]),
]
