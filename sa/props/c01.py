"""C01 -- formula parsing yields the written composition and charge."""
from __future__ import annotations

import ast

from ..astu import (U, has, dotted, walk_shallow, fold, NotLiteral, fold_module_tables, linform, monomial,
                    mono_str, call_name, kwarg, calls_in, names_in)
from ..cfg import find_guards
from ..core import AnalysisError, Mutant, Rule, Twin
from ..idioms import subscript_stores, is_not_in_test, for_loops, simple_assigns, in_try_body, target_names
from ..tables import Undecided, first_match_len, has_lazy, language, parse_regex

ID = "C01"
PARSING = "chempy/util/parsing.py"
PERIODIC = "chempy/util/periodic.py"
CLAIM = ("Decides: the element token regex denotes exactly the 118 symbols of periodic._elements with maximal "
         "munch; Z<->index offsets; parseAll/raise guards against silent truncation and contradictory charges; "
         "multiplier dataflow of hydrate parts and groups; charge sign table."
         ' Control skeleton of the pipeline (which arm runs for which token), parse actions wired, bracket pairs balanced (R7). Shared rule A1: no swapped same-named arguments at resolved in-package call sites.')
DOES_NOT_DECIDE = ("pyparsing's own recursion, arithmetic of nested multipliers beyond the dataflow shape, "
                   "prefix/suffix stripping on arbitrary strings")
ASSUMPTIONS = ["pyparsing Regex/Group/OneOrMore behave as documented", "Python re ordered-choice semantics",
               "symbols are spelled first-upper/rest-lower"]

TABLES = ("symbols", "names", "lower_names", "relative_atomic_masses")


def periodic_symbols(ctx):
    m = ctx.mod(PERIODIC)
    env = fold_module_tables(m.tree)
    if "symbols" not in env or "_elements" not in env:
        raise AnalysisError("cannot fold periodic.symbols/_elements to a literal table")
    return env


def _element_pattern(ctx):
    fn = ctx.func(PARSING, "_get_formula_parser")
    cands = []
    for n in walk_shallow(fn):
        if isinstance(n, ast.Assign) and any(isinstance(t, ast.Name) and t.id == "element" for t in n.targets):
            for c in ast.walk(n.value):
                if isinstance(c, ast.Call) and (call_name(c) or "").split(".")[-1] == "Regex" and c.args:
                    cands.append((n, c))
    if not cands:
        raise AnalysisError("anchor vanished: `element = Regex(...)` in _get_formula_parser")
    return fn, cands[-1]


def r1_lexer_table(ctx):
    env = periodic_symbols(ctx)
    symbols = tuple(env["symbols"])
    fn, (asg, call) = _element_pattern(ctx)
    anchor = PARSING + ":_get_formula_parser"
    arg = call.args[0]
    try:
        pattern = fold(arg, {})
    except NotLiteral:
        # accepted alternative idiom: "|".join(sorted(symbols, key=len, reverse=True))
        txt = U(arg).replace(" ", "")
        ok = ("'|'.join(" in txt and "symbols" in txt and "key=len" in txt and "reverse=True" in txt)
        if ok:
            ctx.holds(anchor, "element-regex:join-idiom", pattern=txt)
            return
        raise AnalysisError("element Regex pattern is neither a constant nor the sorted-join idiom: %s" % txt)
    if not isinstance(pattern, str):
        raise AnalysisError("element Regex pattern is not a string")
    try:
        tree = parse_regex(pattern)
        lang = language(tree)
    except Undecided as e:
        raise AnalysisError("element regex outside the finite fragment: %s" % e)
    sset = set(symbols)
    ctx.check(len(symbols) == 118 and len(sset) == 118, PERIODIC + ":symbols", "118-distinct-symbols",
              "periodic.symbols has %d entries (%d distinct), expected 118" % (len(symbols), len(sset)))
    missing = sorted(sset - lang)
    extra = sorted(lang - sset)
    ctx.check(not missing, anchor, "element-regex:covers-all-symbols",
              "element regex does not accept symbol(s) %s" % missing, node=asg, missing=missing, n_language=len(lang))
    ctx.check(not extra, anchor, "element-regex:no-non-symbols",
              "element regex accepts non-symbol token(s) %s" % extra, node=asg, extra=extra)
    # maximal munch: the first match the backtracking matcher reports on each
    # symbol (and on symbol + following upper-case/digit) is the whole symbol
    short = []
    for s in symbols:
        for tail in ("", "2", "O", "("):
            try:
                m = first_match_len(tree, s + tail)
            except Undecided as e:
                raise AnalysisError("element regex outside the finite fragment: %s" % e)
            if s in lang and m != len(s):
                short.append((s + tail, m))
    ctx.check(not short, anchor, "element-regex:maximal-munch",
              "element regex tokenises %s short (ordered choice / lazy quantifier): %s" % (
                  [x for x, _ in short][:6], short[:6]), node=asg, lazy=has_lazy(tree), examples=short[:10])


def _offset_sites(mod):
    """(function qualname, node, kind) for every use of the Z-indexed tables."""
    sites = []
    for q, fn in mod.functions.items():
        parents = {}
        for p in ast.walk(fn):
            for c in ast.iter_child_nodes(p):
                parents[c] = p
        for n in walk_shallow(fn):
            if isinstance(n, ast.Call) and isinstance(n.func, ast.Attribute) and n.func.attr == "index" \
                    and dotted(n.func.value) in TABLES:
                sites.append((q, n, "index", parents.get(n)))
            elif isinstance(n, ast.Subscript) and dotted(n.value) in TABLES and isinstance(n.ctx, ast.Load):
                sites.append((q, n, "subscript", parents.get(n)))
    return sites


def _index_temp_plus_one(fn, t):
    """`t = <table>.index(..)` on every binding of the local t, and every read of t is `t + 1`: the same as `<table>.index(..) + 1` at each site"""
    parents = {}
    for p in ast.walk(fn):
        for c in ast.iter_child_nodes(p):
            parents[c] = p
    if any(isinstance(n, (ast.FunctionDef, ast.AsyncFunctionDef, ast.Lambda)) and n is not fn and any(isinstance(x, ast.Name) and x.id == t for x in ast.walk(n))
           for n in ast.walk(fn)) or t in {a.arg for a in fn.args.args + fn.args.kwonlyargs}:
        return False
    reads = 0
    for n in ast.walk(fn):
        if not (isinstance(n, ast.Name) and n.id == t):
            continue
        p = parents.get(n)
        if isinstance(n.ctx, ast.Store):
            v = p.value if isinstance(p, ast.Assign) and len(p.targets) == 1 and p.targets[0] is n else None
            if not (isinstance(v, ast.Call) and isinstance(v.func, ast.Attribute) and v.func.attr == "index" and dotted(v.func.value) in TABLES):
                return False
        elif isinstance(n.ctx, ast.Load):
            reads += 1
            if not (isinstance(p, ast.BinOp) and isinstance(p.op, ast.Add) and any(isinstance(o, ast.Constant) and o.value == 1 and type(o.value) is int
                                                                                   for o in (p.left, p.right) if o is not n)):
                return False
        else:
            return False
    return reads >= 1


def derived_number_tables(ctx):
    """{name: (base table, problem or None)} for the module-level names of periodic.py that fold to a dict keyed by entries of symbols / names /
    lower_names with integer values: such a table stands for `<base>.index(key) + 1` and must say exactly that for every element"""
    cached = ctx.__dict__.get("_derived_number_tables")
    if cached is not None:
        return cached
    env = fold_module_tables(ctx.mod(PERIODIC).tree)
    out = {}
    for name, val in env.items():
        if name in TABLES or not isinstance(val, dict) or not val:
            continue
        if not all(isinstance(k, str) for k in val) or not all(isinstance(v, int) and not isinstance(v, bool) for v in val.values()):
            continue
        for base in ("symbols", "lower_names", "names"):
            tab = env.get(base)
            if tab is None or not set(val) <= set(tab):
                continue
            want = {}
            for i, k in enumerate(tab):
                want.setdefault(k, i + 1)
            bad = sorted(k for k in want if val.get(k) != want[k])
            out[name] = (base, None if not bad else "%s maps %d of the %d entries of %s to index+1; wrong or missing: %s" % (
                name, len(want) - len(bad), len(want), base, [(k, val.get(k), want[k]) for k in bad[:4]]))
            break
    ctx.__dict__["_derived_number_tables"] = out
    return out


def _derived_sites(ctx, mod):
    """(function, node, table name, key expression) for reads of a derived number table: T[key] and T.get(key...)"""
    dt = derived_number_tables(ctx)
    sites = []
    if not dt:
        return sites
    for q, fn in mod.functions.items():
        for n in walk_shallow(fn):
            if isinstance(n, ast.Subscript) and isinstance(n.ctx, ast.Load) and dotted(n.value) in dt:
                sites.append((q, n, dotted(n.value), n.slice))
            elif isinstance(n, ast.Call) and isinstance(n.func, ast.Attribute) and n.func.attr == "get" and dotted(n.func.value) in dt and n.args:
                sites.append((q, n, dotted(n.func.value), n.args[0]))
    return sites


def check_offsets(ctx, rels, rule=None):
    n = 0
    for rel in rels:
        mod = ctx.mod(rel)
        for q, node, tname, key in _derived_sites(ctx, mod):
            anchor = "%s:%s" % (rel, q)
            ctx.functions_seen.add(anchor)
            n += 1
            base, problem = derived_number_tables(ctx)[tname]
            ctx.check(problem is None, anchor, "Z=index+1:%s.index(%s)" % (base, U(key)),
                      "the lookup table must give index + 1 for every entry of %s: %s" % (base, problem), node=node, rule=rule)
        for q, node, kind, parent in _offset_sites(mod):
            if q.startswith("_get_relative_atomic_masses"):
                continue
            anchor = "%s:%s" % (rel, q)
            ctx.functions_seen.add(anchor)
            n += 1
            if kind == "index":
                ok = isinstance(parent, ast.BinOp) and isinstance(parent.op, ast.Add) and (
                    (parent.left is node and isinstance(parent.right, ast.Constant) and parent.right.value == 1)
                    or (parent.right is node and isinstance(parent.left, ast.Constant) and parent.left.value == 1))
                if not ok and isinstance(parent, ast.Assign) and parent.value is node and len(parent.targets) == 1 and isinstance(parent.targets[0], ast.Name):
                    ok = _index_temp_plus_one(mod.functions[q], parent.targets[0].id)
                ctx.check(ok, anchor, "Z=index+1:" + U(node),
                          "%s yields a 0-based index; the atomic number is index + 1 but the enclosing expression is `%s`"
                          % (U(node), U(parent) if parent is not None else "?"), node=node, rule=rule)
            else:
                sl = node.slice
                if isinstance(sl, ast.Slice) or isinstance(sl, ast.Constant):
                    ctx.holds(anchor, "table-const-subscript:" + U(node), rule=rule)
                    continue
                lf = linform(sl)
                atoms = [k for k in lf if k != "1"]
                ok = lf.get("1", 0) == -1 and len(atoms) == 1 and lf[atoms[0]] == 1
                ctx.check(ok, anchor, "index=Z-1:" + U(node.value) + "[" + (atoms[0] if atoms else "?") + "]",
                          "table %s is indexed by atomic number: expected `[Z - 1]`, found `[%s]`" % (U(node.value), U(sl)),
                          node=node, rule=rule)
    return n


def r2_offsets(ctx):
    check_offsets(ctx, [PARSING, PERIODIC])


def r3_no_truncation(ctx):
    mod = ctx.mod(PARSING)
    n_ps = 0
    for q, fn in mod.functions.items():
        for c in calls_in(fn):
            if isinstance(c.func, ast.Attribute) and c.func.attr in ("parseString", "parse_string"):
                n_ps += 1
                pa = kwarg(c, "parseAll") or kwarg(c, "parse_all") or (c.args[1] if len(c.args) > 1 else None)
                ok = isinstance(pa, ast.Constant) and pa.value is True
                ctx.functions_seen.add(PARSING + ":" + q)
                ctx.check(ok, PARSING + ":" + q, "parseAll:" + U(c.func),
                          "formula parser invoked without parseAll=True: trailing garbage would be silently ignored (%s)" % U(c),
                          node=c)
    if n_ps == 0:
        raise AnalysisError("no parseString call site found in parsing.py")

    # contradictory charge marks must raise
    fp = ctx.func(PARSING, "_formula_to_parts")
    gc = ctx.func(PARSING, "_get_charge")

    def live_raises(fn):
        return [g for g in find_guards(fn) if not in_try_body(fn, g.stmt)]

    def has_call(node, attr):
        return any(isinstance(c, ast.Call) and isinstance(c.func, ast.Attribute) and c.func.attr == attr for c in ast.walk(node))

    # (a) same sign token twice
    ok_a = False
    for g in live_raises(fp):
        for t, pol in g.tests():
            if pol and isinstance(t, ast.Compare) and (
                    (has_call(t, "count") and _cmp_excludes_one(t)) or (has_call(t, "split") and "len(" in U(t))):
                # the loop must range over both sign tokens
                its = g.iters()
                if its and _iter_has_both_signs(its[0].iter):
                    ok_a = True
    ctx.check(ok_a, PARSING + ":_formula_to_parts", "raise:repeated-sign-token",
              "no un-caught `raise` guarded by a count of the sign token (>1) inside a loop over both '+' and '-': "
              "'Na++' style input would be split silently", node=fp)
    # (b) both signs present, (c) digits on both sides
    ok_b = ok_c = False
    for g in live_raises(gc):
        tests = [(t, pol) for t, pol in g.tests() if pol]
        ins = [t for t, _ in tests if isinstance(t, ast.Compare) and len(t.ops) == 1 and isinstance(t.ops[0], ast.In)
               and U(t.comparators[0]) == gc.args.args[0].arg]  # membership in the whole charge string, not in a fragment of it
        if len({U(t.left) for t in ins}) >= 2:
            ok_b = True
        for t, _ in tests:
            if isinstance(t, ast.BoolOp) and isinstance(t.op, ast.And) and len(t.values) == 2:
                nm = [names_in(v) for v in t.values]
                if nm[0] and nm[1] and nm[0] != nm[1] and _both_nonempty_tests(t.values):
                    ok_c = True
    ctx.check(ok_b, PARSING + ":_get_charge", "raise:both-signs",
              "no un-caught `raise` when both '+' and '-' occur in a charge token", node=gc)
    ctx.check(ok_c, PARSING + ":_get_charge", "raise:digits-both-sides",
              "no un-caught `raise` when digits occur on both sides of the sign", node=gc)
    # the fall-through of _get_charge (no sign found) must raise, not return
    last = gc.body[-1]
    ctx.check(isinstance(last, ast.Raise), PARSING + ":_get_charge", "raise:no-sign-fallthrough",
              "_get_charge falls through without raising when no branch matched", node=last)


def _cmp_excludes_one(t: ast.Compare) -> bool:
    if len(t.ops) != 1 or not isinstance(t.comparators[0], ast.Constant):
        return False
    v = t.comparators[0].value
    op = type(t.ops[0])
    return (op is ast.Gt and v == 1) or (op is ast.GtE and v == 2) or (op is ast.NotEq and v == 1)


def _iter_has_both_signs(it) -> bool:
    try:
        v = fold(it, {})
    except NotLiteral:
        return False
    try:
        return set(v) == {"+", "-"}
    except TypeError:
        return False


def _both_nonempty_tests(values) -> bool:
    for v in values:
        s = U(v)
        if not (("len(" in s and ("> 0" in s or "!= 0" in s or ">= 1" in s)) or isinstance(v, ast.Name)
                or "!= ''" in s):
            return False
    return True


def r4_multipliers(ctx):
    fn = ctx.func(PARSING, "formula_to_composition")
    anchor = PARSING + ":formula_to_composition"
    # the part loop: for idx, stoich in enumerate(parts)
    outer = None
    for f in for_loops(fn):
        if any(isinstance(c, ast.Call) and call_name(c) == "_parse_stoich" for c in walk_shallow(f)):
            outer = f
            break
    if outer is None:
        raise AnalysisError("anchor vanished: loop calling _parse_stoich in formula_to_composition")
    # multiplier variable: bound from _get_leading_integer(...)[0]
    mname = None
    m_first = None
    for n in walk_shallow(outer):
        if isinstance(n, ast.Assign) and isinstance(n.value, ast.Call) and call_name(n.value) == "_get_leading_integer":
            t = n.targets[0]
            if isinstance(t, (ast.Tuple, ast.List)) and isinstance(t.elts[0], ast.Name):
                mname = t.elts[0].id
    if mname is None:
        raise AnalysisError("anchor vanished: `m, stoich = _get_leading_integer(stoich)` in formula_to_composition")
    for n in walk_shallow(outer):
        if isinstance(n, ast.Assign) and any(isinstance(t, ast.Name) and t.id == mname for t in n.targets):
            m_first = n.value
    ctx.check(isinstance(m_first, ast.Constant) and m_first.value == 1, anchor, "first-part-multiplier-is-1",
              "the first (non-hydrate) part must have multiplier 1, found %s" % (U(m_first) if m_first is not None else None),
              node=outer)
    # the hydrate split uses the whole list of parts
    ctx.check(not isinstance(outer.iter, ast.Subscript) and not any(isinstance(x, ast.Subscript) and isinstance(x.slice, ast.Slice)
              for x in ast.walk(outer.iter)), anchor, "all-parts-iterated",
              "the loop over hydrate parts slices its source: %s" % U(outer.iter), node=outer)
    # inner loop over comp.items()
    inner = None
    for f in for_loops(outer):
        if isinstance(f.iter, ast.Call) and isinstance(f.iter.func, ast.Attribute) and f.iter.func.attr == "items":
            inner = f
    if inner is None:
        raise AnalysisError("anchor vanished: loop over comp.items() in formula_to_composition")
    tn = target_names(inner.target)
    if len(tn) != 2:
        raise AnalysisError("unexpected loop target in formula_to_composition")
    kname, vname = tn
    # which dict is the total?  the one returned
    ret = [n for n in walk_shallow(fn) if isinstance(n, ast.Return) and isinstance(n.value, ast.Name)]
    if not ret:
        raise AnalysisError("formula_to_composition does not return a name")
    tot = ret[-1].value.id
    ups = subscript_stores(inner.body, tot)
    if not ups:
        raise AnalysisError("no store into %s inside the element loop" % tot)
    want = monomial(ast.parse("%s * %s" % (mname, vname), mode="eval").body)
    for u in ups:
        got = monomial(u.value)
        keyok = U(u.key) == kname
        ctx.check(keyok and got == want, anchor, "store:%s[%s]%s" % (tot, U(u.key), u.kind) + (
            ":first-occurrence" if u.cond and is_not_in_test(u.cond[0], u.key, tot) == u.cond[1] else ""),
            "element count stored as `%s %s %s`; expected the part multiplier times the count (%s*%s) under key %s" % (
                U(u.stmt.targets[0] if isinstance(u.stmt, ast.Assign) else u.stmt.target), u.kind, U(u.value), mname, vname, kname),
            node=u.stmt, got=mono_str(got), want=mono_str(want))
        if u.kind not in ("=", "+="):
            ctx.violation(anchor, "store-kind:" + u.kind, "element counts must be summed, found `%s`" % u.kind, node=u.stmt)
    # a plain '=' store must be guarded by `k not in tot` (otherwise later parts overwrite earlier ones)
    for u in ups:
        if u.kind == "=":
            g = u.cond and is_not_in_test(u.cond[0], u.key, tot)
            ok = g is not None and g == u.cond[1]
            ctx.check(ok, anchor, "overwrite-guard:%s" % U(u.key),
                      "`%s[%s] = ...` is not guarded by `%s not in %s`: repeated elements would be overwritten, not summed" % (
                          tot, U(u.key), U(u.key), tot), node=u.stmt)
    # charge stored under key 0 from the charge token
    zero = [u for u in subscript_stores(fn.body, tot) if isinstance(u.key, ast.Constant) and u.key.value == 0]
    ok = any(isinstance(u.value, ast.Call) and call_name(u.value) == "_get_charge" and u.kind == "=" for u in zero)
    ctx.check(ok, anchor, "charge-under-key-0", "net charge is not stored as %s[0] = _get_charge(...)" % tot, node=fn)

    # group multiplier
    mc = ctx.func(PARSING, "_get_formula_parser.multiplyContents")
    a2 = PARSING + ":_get_formula_parser.multiplyContents"
    loops = [f for f in for_loops(mc) if isinstance(f.iter, ast.Attribute) and f.iter.attr == "subgroup"]
    if not loops:
        sl = [f for f in for_loops(mc) if "subgroup" in U(f.iter)]
        if sl:
            ctx.violation(a2, "group-loop-source", "group multiplier loop does not range over the whole subgroup: %s" % U(sl[0].iter), node=sl[0])
            return
        raise AnalysisError("anchor vanished: loop over t.subgroup in multiplyContents")
    lp = loops[0]
    tname = target_names(lp.target)[0]
    mult_ok = False
    found = None
    for s in lp.body:
        if isinstance(s, ast.AugAssign) and isinstance(s.op, ast.Mult) and U(s.target) == "%s[1]" % tname:
            found = s
            mult_ok = _is_mult_attr(mc, s.value)
        elif isinstance(s, ast.Assign) and U(s.targets[0]) == "%s[1]" % tname and isinstance(s.value, ast.BinOp) and isinstance(s.value.op, ast.Mult):
            found = s
            l, r = s.value.left, s.value.right
            mult_ok = (U(l) == "%s[1]" % tname and _is_mult_attr(mc, r)) or (U(r) == "%s[1]" % tname and _is_mult_attr(mc, l))
    ctx.check(mult_ok, a2, "group-count-scaled-by-mult",
              "inside a bracketed group every element count must be multiplied by the group's `mult`; found `%s`" % (
                  U(found) if found is not None else "no update of %s[1]" % tname), node=found or lp)
    # loop must not be conditional on anything but the presence of a subgroup
    uncond = all(not isinstance(s, (ast.If, ast.Break, ast.Continue)) for s in lp.body)
    ctx.check(uncond, a2, "group-loop-unconditional", "group multiplier applied conditionally inside the loop", node=lp)
    # ... and the loop itself runs whenever there is a subgroup: no test on the multiplier decides whether the counts are scaled
    guards = []

    def enclosing(stmts, chain):
        for st in stmts:
            if st is lp:
                guards.extend(chain)
                return True
            for fld, neg in (("body", False), ("orelse", True)):
                sub = getattr(st, fld, None)
                if isinstance(sub, list) and sub and isinstance(sub[0], ast.stmt):
                    if enclosing(sub, chain + ([(U(st.test), neg)] if isinstance(st, (ast.If, ast.While)) else [])):
                        return True
        return False
    enclosing(mc.body, [])
    ok = all((t_.endswith(".subgroup") or t_ == "subgroup") and not neg for t_, neg in guards)
    ctx.check(ok, a2, "group-scaling-for-every-multiplier", "the counts of a group must be scaled for every multiplier (0.5, 0 ... too); the scaling loop is guarded by %s" % [g for g in guards], node=lp)

    # sumByElement accumulates counts per element over all tokens
    se = ctx.func(PARSING, "_get_formula_parser.sumByElement")
    a3 = PARSING + ":_get_formula_parser.sumByElement"
    acc = [n for n in walk_shallow(se) if isinstance(n, ast.AugAssign) and isinstance(n.target, ast.Subscript)]
    ok = False
    for a in acc:
        lpx = [f for f in for_loops(se) if any(a is x for x in ast.walk(f))]
        if lpx and isinstance(a.op, ast.Add):
            t = target_names(lpx[0].target)
            if t and U(a.target.slice) == "%s[0]" % t[0] and U(a.value) == "%s[1]" % t[0] and U(lpx[0].iter) == se.args.args[0].arg:
                ok = True
    ctx.check(ok, a3, "sum-by-element", "duplicate elements are not summed as ctr[t[0]] += t[1] over all tokens", node=se)

    # _parse_stoich stores n (or int(n)) under the atomic number
    ps = ctx.func(PARSING, "_parse_stoich")
    a4 = PARSING + ":_parse_stoich"
    ups = subscript_stores(ps.body, "comp")
    lp = [f for f in for_loops(ps)]
    if not ups or not lp:
        raise AnalysisError("anchor vanished: comp[...] stores in _parse_stoich")
    kn, nn = target_names(lp[0].target)
    for u in ups:
        v = u.value
        ok = U(v) == nn or (isinstance(v, ast.Call) and call_name(v) == "int" and U(v.args[0]) == nn and u.cond is not None
                            and "int(%s)" % nn in U(u.cond[0]) and u.cond[1])
        ctx.check(ok and u.kind == "=", a4, "count-stored:%s" % U(v),
                  "count of element stored as `%s`, expected the parsed count `%s` (int() only when integral)" % (U(v), nn), node=u.stmt)


def _is_mult_attr(fn, node) -> bool:
    if isinstance(node, ast.Attribute) and node.attr == "mult":
        return True
    if isinstance(node, ast.Name):
        vals = simple_assigns(fn, node.id)
        return len(vals) >= 1 and all(isinstance(v, ast.Attribute) and v.attr == "mult" for v in vals)
    return False


def r5_charge_signs(ctx):
    gc = ctx.func(PARSING, "_get_charge")
    anchor = PARSING + ":_get_charge"
    # early returns
    n_early = 0
    for s in gc.body:
        if isinstance(s, ast.If):
            node = s
            while isinstance(node, ast.If):
                t = node.test
                if isinstance(t, ast.Compare) and isinstance(t.ops[0], ast.Eq) and isinstance(t.comparators[0], ast.Constant) \
                        and t.comparators[0].value in ("+", "-") and node.body and isinstance(node.body[0], ast.Return):
                    try:
                        val = fold(node.body[0].value, {})
                    except NotLiteral:
                        val = None
                    want = 1 if t.comparators[0].value == "+" else -1
                    n_early += 1
                    ctx.check(val == want, anchor, "bare-sign:" + t.comparators[0].value,
                              "a bare '%s' must mean charge %+d, returns %s" % (t.comparators[0].value, want, U(node.body[0].value)),
                              node=node.body[0])
                node = node.orelse[0] if len(node.orelse) == 1 else None
    # the zip table
    loop = None
    for f in for_loops(gc):
        if isinstance(f.iter, ast.Call) and call_name(f.iter) == "zip":
            loop = f
    if loop is None:
        raise AnalysisError("anchor vanished: zip loop in _get_charge")
    try:
        triples = fold(loop.iter, {})
    except NotLiteral:
        raise AnalysisError("cannot fold the sign table of _get_charge")
    names = target_names(loop.target)
    if len(names) != 3:
        raise AnalysisError("unexpected sign table shape in _get_charge")
    tokn, antin, signn = names
    tab = {t[0]: t for t in triples}
    ok = set(tab) == {"+", "-"} and tab["+"][2] == 1 and tab["-"][2] == -1 and tab["+"][1] == "-" and tab["-"][1] == "+"
    ctx.check(ok, anchor, "sign-table", "sign table must pair '+' with +1 (anti '-') and '-' with -1 (anti '+'): %s" % (triples,),
              node=loop, table=[list(t) for t in triples])
    # the value returned inside the loop: sign * int(<after>)
    rets = [n for n in walk_shallow(loop) if isinstance(n, ast.Return)]
    if not rets:
        raise AnalysisError("no return inside the sign loop of _get_charge")
    for r in rets:
        c, p = monomial(r.value)
        has_sign = signn in p and p[signn] == {"1": 1}
        ints = [a for a in p if a.startswith("int(")]
        after_names = set()
        for n in walk_shallow(loop):
            if isinstance(n, ast.Assign) and isinstance(n.value, ast.Call) and isinstance(n.value.func, ast.Attribute) \
                    and n.value.func.attr == "split" and isinstance(n.targets[0], (ast.Tuple, ast.List)):
                after_names.add(n.targets[0].elts[-1].id)
        uses_after = any(any(a in x for a in after_names) for x in ints) if after_names else bool(ints)
        ctx.check(c == 1 and has_sign and len(ints) == 1 and uses_after and len(p) == 2, anchor, "signed-magnitude",
                  "charge must be sign * int(digits after the sign); found `%s`" % U(r.value), node=r, form=mono_str((c, p)))
    # split token is the loop's token
    for n in walk_shallow(loop):
        if isinstance(n, ast.Call) and isinstance(n.func, ast.Attribute) and n.func.attr == "split":
            ctx.check(len(n.args) == 1 and U(n.args[0]) == tokn, anchor, "split-on-own-token",
                      "the charge string must be split on the sign being examined (%s), found %s" % (tokn, U(n)), node=n)
    # _formula_to_parts keeps the sign with the charge part
    fp = ctx.func(PARSING, "_formula_to_parts")
    ok = False
    for n in walk_shallow(fp):
        if isinstance(n, ast.Assign) and U(n.targets[0]) == "parts[1]":
            lf = U(n.value).replace(" ", "")
            ok = lf == "token+parts[1]"
    ctx.check(ok, PARSING + ":_formula_to_parts", "sign-kept-with-charge",
              "the charge part must be re-prefixed with its own sign token (parts[1] = token + parts[1])", node=fp)


def r6_affixes(ctx):
    """prefix/suffix stripping removes exactly the matched affix; the leading hydrate count is split off exactly"""
    fp = ctx.func(PARSING, "_formula_to_parts")
    a = PARSING + ":_formula_to_parts"
    facts = {}
    for lp in for_loops(fp):
        src = U(lp.iter)
        v = target_names(lp.target)[0] if target_names(lp.target) else None
        for n in walk_shallow(lp):
            if isinstance(n, ast.If) and isinstance(n.test, ast.Call) and isinstance(n.test.func, ast.Attribute) and n.test.func.attr in ("startswith", "endswith") \
                    and U(n.test.args[0]) == v:
                kind = n.test.func.attr
                subj = U(n.test.func.value)
                sl = [b for b in n.body if isinstance(b, ast.Assign) and U(b.targets[0]) == subj]
                facts[kind] = (src, subj, U(sl[0].value) if sl else None, v)
    sw, ew = facts.get("startswith"), facts.get("endswith")
    ctx.check(sw is not None and sw[0] == "prefixes" and sw[2] == "%s[len(%s):]" % (sw[1], sw[3]), a, "prefix-removed-exactly",
              "a matched prefix must be removed as formula[len(prefix):]; found %s" % (sw,), node=fp)
    ctx.check(ew is not None and ew[0] == "suffixes" and ew[2] == "%s[:-len(%s)]" % (ew[1], ew[3]), a, "suffix-removed-exactly",
              "a matched suffix must be removed as formula[:-len(suffix)]; found %s" % (ew,), node=fp)
    ret = [n for n in walk_shallow(fp) if isinstance(n, ast.Return)][-1]
    ctx.check(has(ret.value, "parts + [tuple(drop_pref), tuple(drop_suff[::-1])]", scope=fp), a, "parts-layout", "the result must be [stoichiometry, charge, prefixes, suffixes (in written order)]", node=ret)
    ctx.check(has(fp, "parts = [formula, None]"), a, "no-charge->None", "without a sign token the charge part must be None", node=fp)
    fc = ctx.func(PARSING, "formula_to_composition")
    ctx.check(has(fc, "stoich_tok, chg_tok = _formula_to_parts(formula, prefixes, suffixes)[:2]"), PARSING + ":formula_to_composition", "stoich,charge=parts[:2]", "stoichiometry and charge must be the first two parts", node=fc)
    ctx.check(has(fc, "if prefixes is None: prefixes = _latex_mapping.keys()"), PARSING + ":formula_to_composition", "default-prefixes", "the default prefixes must be the keys of the prefix table (greek-, '.')", node=fc)
    li = ctx.func(PARSING, "_get_leading_integer")
    a2 = PARSING + ":_get_leading_integer"
    pat = [c for c in calls_in(li) if call_name(c) == "re.findall"]
    ok = len(pat) == 1 and isinstance(pat[0].args[0], ast.Constant) and pat[0].args[0].value in (r"^\d+", "^[0-9]+")
    ctx.check(ok, a2, "leading-digits-pattern", "the leading count must be matched by ^\\d+; found %s" % (U(pat[0].args[0]) if pat else None), node=li)
    ctx.check(has(li, "s = s[len(m[0]):]") and has(li, "m = int(m[0])") and has(li, "return m, s"), a2, "count-split-off", "the count must be int(match) and the remainder s[len(match):]", node=li)
    ctx.check(has(li, "if len(m) == 0: m = 1"), a2, "missing-count=1", "a missing leading count means 1", node=li)


def _grammar_env(fn):
    """name -> value node for the single-assignment grammar pieces of _get_formula_parser"""
    env = {}
    for n in fn.body:
        if isinstance(n, ast.Assign) and len(n.targets) == 1 and isinstance(n.targets[0], ast.Name):
            env[n.targets[0].id] = n.value
    return env


def _seq(node):
    """flatten a pyparsing And chain written with + or - (`-` only disables backtracking)"""
    if isinstance(node, ast.BinOp) and isinstance(node.op, (ast.Add, ast.Sub)):
        return _seq(node.left) + _seq(node.right)
    return [node]


def _alts(node):
    if isinstance(node, ast.BinOp) and isinstance(node.op, (ast.BitOr, ast.BitXor)):
        return _alts(node.left) + _alts(node.right)
    return [node]


def r7_skeleton(ctx):
    """control skeleton of the pipeline: which arm runs for which token, and that every parse action is wired"""
    # ---- _parse_stoich
    ps = ctx.func(PARSING, "_parse_stoich")
    a = PARSING + ":_parse_stoich"
    first = [s for s in ps.body if isinstance(s, ast.If)]
    ok = bool(first) and U(first[0].test) in ("stoich == 'e'", "'e' == stoich") and len(first[0].body) == 1 and isinstance(first[0].body[0], ast.Return) \
        and U(first[0].body[0].value) in ("{}", "dict()") and not first[0].orelse
    ctx.check(ok, a, "electron-only-special-case", "only the token 'e' may bypass the grammar (returning {}); found `if %s`" % (U(first[0].test) if first else None), node=ps)
    lp = for_loops(ps)
    kn, nn = target_names(lp[0].target) if lp else (None, None)
    ups = subscript_stores(ps.body, "comp")
    ints = [u for u in ups if isinstance(u.value, ast.Call) and call_name(u.value) == "int"]
    plain = [u for u in ups if not (isinstance(u.value, ast.Call) and call_name(u.value) == "int")]
    eqs = ("%s == int(%s)" % (nn, nn), "int(%s) == %s" % (nn, nn))
    ok = all(u.cond is not None and U(u.cond[0]) in eqs and u.cond[1] is True for u in ints) and \
        all(u.cond is None or (U(u.cond[0]) in eqs and u.cond[1] is False) for u in plain) and bool(plain)
    ctx.check(ok, a, "int-only-when-integral", "int(n) may replace n only under `n == int(n)`, and the other arm must keep n; stores: %s" % [
        (U(u.value), U(u.cond[0]) if u.cond else None, u.cond[1] if u.cond else None) for u in ups], node=ps)
    ok = len(lp) == 1 and isinstance(lp[0].iter, ast.Call) and U(lp[0].iter.func) == "_get_formula_parser().parseString" and U(lp[0].iter.args[0]) == "stoich"
    ctx.check(ok, a, "parses-own-argument", "the grammar must parse this part's text (`_get_formula_parser().parseString(stoich, ...)`)", node=ps)

    # ---- formula_to_composition
    fc = ctx.func(PARSING, "formula_to_composition")
    a = PARSING + ":formula_to_composition"
    split_if = None
    for s in fc.body:
        if isinstance(s, ast.If) and isinstance(s.test, ast.Compare) and len(s.test.ops) == 1 and isinstance(s.test.comparators[0], ast.Name) \
                and any(isinstance(x, ast.Call) and isinstance(x.func, ast.Attribute) and x.func.attr == "split" for x in ast.walk(s)):
            split_if = s
    if split_if is None:
        raise AnalysisError("formula_to_composition: hydrate split not found")
    t = split_if.test
    subj = U(t.comparators[0])
    ok = isinstance(t.ops[0], ast.In) and isinstance(t.left, ast.Constant) and t.left.value == "·" and len(split_if.body) == 1 and len(split_if.orelse) == 1
    if ok:
        b, o = split_if.body[0], split_if.orelse[0]
        ok = isinstance(b, ast.Assign) and isinstance(o, ast.Assign) and U(b.targets[0]) == U(o.targets[0]) \
            and U(b.value) == "%s.split('·')" % subj and U(o.value) == "%s.split('..')" % subj
    ctx.check(ok, a, "hydrate-separators", "parts must be split on the middle dot when present, on '..' otherwise; found `%s`" % U(split_if).splitlines()[0], node=split_if)
    # the stoichiometry token comes from _formula_to_parts
    outer = [f for f in for_loops(fc) if any(isinstance(c, ast.Call) and call_name(c) == "_parse_stoich" for c in walk_shallow(f))]
    if not outer:
        raise AnalysisError("formula_to_composition: part loop not found")
    outer = outer[0]
    parts_name = U(split_if.body[0].targets[0]) if ok else "parts"
    ok = U(outer.iter) == "enumerate(%s)" % parts_name
    idx = target_names(outer.target)[0] if ok else None
    arm = [s for s in outer.body if isinstance(s, ast.If)]
    ok = ok and bool(arm) and U(arm[0].test) in ("%s == 0" % idx, "0 == %s" % idx) and len(arm[0].body) == 1 and U(arm[0].body[0]).replace(" ", "") == "m=1" \
        and len(arm[0].orelse) == 1 and isinstance(arm[0].orelse[0], ast.Assign) and call_name(arm[0].orelse[0].value) == "_get_leading_integer"
    ctx.check(ok, a, "first-part-no-count", "part 0 (index from enumerate(parts)) has multiplier 1, every later part its leading count; found `%s` over `%s`" % (
        U(arm[0].test) if arm else None, U(outer.iter)), node=outer)
    calls = [c for c in walk_shallow(outer) if isinstance(c, ast.Call) and call_name(c) == "_parse_stoich"]
    st_name = target_names(outer.target)[1] if len(target_names(outer.target)) == 2 else None
    ctx.check(len(calls) == 1 and U(calls[0].args[0]) == st_name, a, "part-parsed", "each part (minus its count) must go through _parse_stoich", node=outer)
    ret = [n for n in walk_shallow(fc) if isinstance(n, ast.Return) and isinstance(n.value, ast.Name)]
    tot = ret[-1].value.id if ret else "tot_comp"
    inner = [f for f in for_loops(outer)]
    ups = subscript_stores(inner[0].body, tot) if inner else []
    kinds = sorted(u.kind for u in ups)
    ctx.check(kinds == ["+=", "="] or (kinds == ["+="] and isinstance(ups[0].stmt, ast.Assign)), a, "first-and-repeat-stores",
              "element counts need both the first-occurrence store and the += for repeats; found %s" % kinds, node=outer)
    init = [n for n in fc.body if isinstance(n, ast.Assign) and U(n.targets[0]) == tot]
    ctx.check(len(init) == 1 and U(init[0].value) in ("{}", "dict()"), a, "starts-empty", "the composition must start empty (no other keys)", node=fc)
    zero = [u for u in subscript_stores(fc.body, tot) if isinstance(u.key, ast.Constant) and u.key.value == 0]
    chg = None
    for n in walk_shallow(fc):
        if isinstance(n, ast.Assign) and isinstance(n.targets[0], (ast.Tuple, ast.List)) and len(n.targets[0].elts) == 2 and "_formula_to_parts" in U(n.value):
            chg = U(n.targets[0].elts[1])
    ok = len(zero) == 1 and chg is not None and zero[0].cond is not None and U(zero[0].cond[0]) == "%s is not None" % chg and zero[0].cond[1] is True \
        and U(zero[0].value) == "_get_charge(%s)" % chg
    ctx.check(ok, a, "charge-iff-token", "key 0 must be set from the charge token exactly when there is one (`if chg_tok is not None`); found %s" % [
        (U(u.stmt), U(u.cond[0]) if u.cond else None) for u in zero], node=fc)

    # ---- _get_charge
    gc = ctx.func(PARSING, "_get_charge")
    a = PARSING + ":_get_charge"
    ctx.check(has(gc, "if chgstr == '+': return 1") and has(gc, "elif chgstr == '-': return -1") or
              (has(gc, "if chgstr == '+': return 1") and has(gc, "if chgstr == '-': return -1")), a, "bare-sign-arms", "bare '+' / '-' must return +1 / -1", node=gc)
    loop = [f for f in for_loops(gc) if isinstance(f.iter, ast.Call) and call_name(f.iter) == "zip"]
    if not loop:
        raise AnalysisError("_get_charge: sign loop not found")
    loop = loop[0]
    tokn = (target_names(loop.target) or [None])[0]
    top = [s for s in loop.body if isinstance(s, ast.If)]
    ok = len(top) == 1 and U(top[0].test) == "%s in chgstr" % tokn and not top[0].orelse
    ctx.check(ok, a, "arm-per-present-sign", "the magnitude is read only for the sign that occurs in the string (`if token in chgstr`)", node=loop)
    rets = [n for n in walk_shallow(loop) if isinstance(n, ast.Return)]
    for r in rets:
        ic = [c for c in ast.walk(r.value) if isinstance(c, ast.Call) and call_name(c) == "int"]
        ok = len(ic) == 1
        if ok:
            arg = ic[0].args[0]
            ok = U(arg) == "after" or (isinstance(arg, ast.IfExp) and U(arg.test) in ("after == ''", "not after") and U(arg.body) == "1" and U(arg.orelse) == "after")
            c, p = monomial(r.value)
            ok = ok and c == 1 and all(e == {"1": 1} for e in p.values())
        ctx.check(ok, a, "magnitude=int(after)", "the magnitude must be int(<digits after the sign>) (1 only when there are none), multiplied by the sign; found `%s`" % U(r.value), node=r)
        # the guard of that return
        g = None
        for n in walk_shallow(loop):
            if isinstance(n, ast.If) and any(x is r for x in n.body):
                g = n
        ctx.check(g is not None and U(g.test) in ("len(after) > 0", "len(after) >= 1", "len(after) != 0", "after", "after != ''"), a, "magnitude-guard",
                  "the return must be taken exactly when digits follow the sign; guard is `%s`" % (U(g.test) if g is not None else None), node=r)

    # ---- _formula_to_parts: charge split skeleton
    fp = ctx.func(PARSING, "_formula_to_parts")
    a = PARSING + ":_formula_to_parts"
    cl = [f for f in for_loops(fp) if isinstance(f.iter, ast.Constant) and f.iter.value in ("+-", "-+")]
    if len(cl) != 1:
        raise AnalysisError("_formula_to_parts: `for token in '+-'` not found")
    cl = cl[0]
    tk = target_names(cl.target)[0]
    top = [s for s in cl.body if isinstance(s, ast.If)]
    ok = len(top) == 1 and len(cl.body) == 1 and U(top[0].test) == "%s in formula" % tk and not top[0].orelse and isinstance(top[0].body[-1], ast.Break)
    ctx.check(ok, a, "split-at-present-sign", "`for token in '+-': if token in formula: ...; break` -- the first sign present splits the string and ends the search", node=cl)
    if ok:
        ctx.check(has(top[0], "parts = formula.split(%s)" % tk, scope=fp), a, "split-on-token", "the string must be split at the sign token", node=top[0])
    ok = len(cl.orelse) == 1 and has(cl.orelse[0], "parts = [formula, None]", scope=fp)
    ctx.check(ok, a, "no-sign->None-in-else", "`parts = [formula, None]` must be the for-else arm (reached only when no sign was found)", node=cl)

    # ---- _get_leading_integer
    li = ctx.func(PARSING, "_get_leading_integer")
    ctx.check(has(li, "elif len(m) == 1: s = s[len(m[0]):]") or has(li, "else: s = s[len(m[0]):]"), PARSING + ":_get_leading_integer", "one-match-arm",
              "the single match of ^\\d+ must take the strip-and-convert arm", node=li)

    # ---- grammar wiring
    gp = ctx.func(PARSING, "_get_formula_parser")
    a = PARSING + ":_get_formula_parser"
    env = _grammar_env(gp)
    acts = {}
    fwd = []
    for n in gp.body:
        if isinstance(n, ast.Expr) and isinstance(n.value, ast.Call) and isinstance(n.value.func, ast.Attribute) and n.value.func.attr == "setParseAction":
            acts[U(n.value.func.value)] = n.value.args[0]
        if isinstance(n, ast.Expr) and isinstance(n.value, ast.BinOp) and isinstance(n.value.op, ast.LShift):
            fwd.append((U(n.value.left), U(n.value.right)))
    ctx.check(U(acts.get("term")) == "multiplyContents" if "term" in acts else False, a, "wired:term->multiplyContents", "term.setParseAction(multiplyContents) missing: group multipliers would not be applied", node=gp)
    ctx.check(U(acts.get("formula")) == "sumByElement" if "formula" in acts else False, a, "wired:formula->sumByElement", "formula.setParseAction(sumByElement) missing: repeated elements would not be summed", node=gp)
    ctx.check(fwd == [("formula", "OneOrMore(term)")], a, "formula=term+", "formula << OneOrMore(term); found %s" % fwd, node=gp)
    lam = acts.get("count")
    ok = isinstance(lam, ast.Lambda) and isinstance(lam.body, ast.IfExp)
    if ok:
        t0 = "%s[0]" % lam.args.args[0].arg
        ie = lam.body
        ok = U(ie.test) in ("%s == ''" % t0, "not %s" % t0) and U(ie.body) == "1" and U(ie.orelse) in ("float(%s)" % t0,)
    ctx.check(ok, a, "count-action", "a missing subscript means 1, a written one its float value (`1 if t[0] == '' else float(t[0])`); found %s" % (U(lam) if lam is not None else None), node=gp)
    cre = env.get("count")
    ok = isinstance(cre, ast.Call) and cre.args and isinstance(cre.args[0], ast.Constant)
    if ok:
        try:
            lang_ok = first_match_len(parse_regex(cre.args[0].value), "12.50") == 5 and first_match_len(parse_regex(cre.args[0].value), "12") == 2 \
                and first_match_len(parse_regex(cre.args[0].value), "x") == 0
        except Undecided:
            lang_ok = False
        ok = lang_ok
    ctx.check(ok, a, "count-regex", "the subscript pattern must take a whole decimal (12.50), a whole integer (12) or nothing", node=gp)
    term = env.get("term")
    if not (isinstance(term, ast.Call) and call_name(term) == "Group" and term.args):
        raise AnalysisError("_get_formula_parser: term = Group(...) not found")
    seq = _seq(term.args[0])
    alts = _alts(seq[0])
    pairs = {"LP": "RP", "LSB": "RSB", "LCB": "RCB"}
    lits = {"LP": r"\(", "RP": r"\)", "LSB": r"\[", "RSB": r"\]", "LCB": r"\{", "RCB": r"\}"}
    for nm, lit in lits.items():
        v = env.get(nm)
        ok = v is not None and isinstance(v, ast.Call) and call_name(v) == "Suppress" and isinstance(v.args[0], ast.Call) and isinstance(v.args[0].args[0], ast.Constant) \
            and v.args[0].args[0].value == lit
        ctx.check(ok, a, "bracket:%s" % nm, "%s must be Suppress(Regex(%r)); found %s" % (nm, lit, U(v) if v is not None else None), node=gp)
    seen_pairs = set()
    has_element = False
    for al in alts:
        if U(al) == "element":
            has_element = True
            continue
        # Group(X + formula + Y)("subgroup")
        ok = isinstance(al, ast.Call) and isinstance(al.func, ast.Call) and call_name(al.func) == "Group" and len(al.args) == 1 and isinstance(al.args[0], ast.Constant) \
            and al.args[0].value == "subgroup"
        if not ok:
            ctx.violation(a, "alternative:%s" % U(al)[:30], "a term is an element or a bracketed/caged formula named 'subgroup'; found %s" % U(al), node=gp)
            continue
        inner = [U(x) for x in _seq(al.func.args[0])]
        if len(inner) == 3 and inner[1] == "formula":
            ok = pairs.get(inner[0]) == inner[2]
            ctx.check(ok, a, "balanced:%s" % inner[0], "a group opened by %s must be closed by %s, not %s" % (inner[0], pairs.get(inner[0]), inner[2]), node=gp)
            seen_pairs.add(inner[0])
        elif len(inner) == 2 and inner == ["caged", "formula"]:
            seen_pairs.add("caged")
        else:
            ctx.violation(a, "group-shape:%s" % U(al)[:30], "unexpected group shape %s" % inner, node=gp)
    ctx.check(has_element and seen_pairs >= {"LP", "LSB", "LCB"}, a, "term-alternatives", "a term must accept an element and ( ) [ ] { } groups; found %s" % sorted(seen_pairs), node=gp)
    names = [x.args[0].value for x in seq[1:] if isinstance(x, ast.Call) and isinstance(x.func, ast.Call) and x.args and isinstance(x.args[0], ast.Constant)]
    ok = len(seq) >= 2 and "Optional(count" in U(seq[1]) and names[:1] == ["mult"]
    ctx.check(ok, a, "count-follows-term", "the subscript (named 'mult') must directly follow the element/group; found %s" % [U(x)[:40] for x in seq[1:]], node=gp)
    mc = ctx.func(PARSING, "_get_formula_parser.multiplyContents")
    a2 = PARSING + ":_get_formula_parser.multiplyContents"
    ctx.check(has(mc, "t = tokens[0]") and has(mc, "if t.subgroup:") and has(mc, "return t.subgroup"), a2, "group-branch", "the scaled subgroup replaces the term only when the term is a group", node=mc)
    se = ctx.func(PARSING, "_get_formula_parser.sumByElement")
    a3 = PARSING + ":_get_formula_parser.sumByElement"
    ctx.check(has(se, "elementsList = [t[0] for t in tokens]"), a3, "duplicates-by-symbol", "duplicates must be detected on the element symbols (t[0])", node=se)
    dup = [n for n in walk_shallow(se) if isinstance(n, ast.Assign) and U(n.targets[0]) == "duplicates"]
    ok = len(dup) == 1 and U(dup[0].value) in ("len(elementsList) > len(set(elementsList))", "len(elementsList) != len(set(elementsList))", "len(set(elementsList)) < len(elementsList)")
    ctx.check(ok, a3, "duplicates-test", "duplicates <=> more tokens than distinct symbols", node=se)
    ctx.check(has(se, "return ParseResults([ParseResults([k, v]) for k, v in ctr.items()])"), a3, "summed-pairs", "the summed result must be [symbol, total] pairs for every symbol", node=se)


def sweep_offsets(ctx):
    """thorough: Z<->index offsets in the rest of the package (NOTE only)."""
    for m in ctx.repo.all_modules():
        if m.rel in (PARSING, PERIODIC):
            continue
        for q, node, kind, parent in _offset_sites(m):
            if kind == "subscript" and not isinstance(node.slice, (ast.Constant, ast.Slice)):
                lf = linform(node.slice)
                if lf.get("1", 0) != -1:
                    ctx.note("%s:%d %s indexes %s without the Z-1 offset (outside the anchored files; not part of C01)" % (
                        m.rel, node.lineno, q, U(node)))
    ctx.holds("chempy/**", "offset-sweep", swept=len(ctx.repo.files()))


RULES = [
    Rule("C01-R1", r1_lexer_table, 4, "element regex language == 118 symbols of periodic._elements, maximal munch (E1)"),
    Rule("C01-R2", r2_offsets, 5, "Z<->index offsets at every use of symbols/names/lower_names/relative_atomic_masses"),
    Rule("C01-R3", r3_no_truncation, 5, "parseAll=True at every parseString; contradictory charge marks raise"),
    Rule("C01-R4", r4_multipliers, 9, "hydrate-part and group multipliers multiply every element count; counts summed"),
    Rule("C01-R5", r5_charge_signs, 5, "charge sign table, signed magnitude, key 0"),
    Rule("C01-R6", r6_affixes, 9, "prefix/suffix stripping and leading hydrate count are exact"),
    Rule("C01-R7", r7_skeleton, 30, "control skeleton: which arm runs for which token; parse actions wired; bracket pairs balanced"),
    Rule("C01-S1", sweep_offsets, 1, "package-wide offset sweep (notes only)", tier="thorough"),
]

MUTANTS = [
    Mutant("regex-loses-Fr", [(PARSING, '"|F[elmr]?"', '"|F[elm]?"')], "C01-R1", "covers-all"),
    Mutant("regex-admits-D", [(PARSING, '"|D[bsy]"', '"|D[bsy]?"')], "C01-R1", "no-non-symbols"),
    Mutant("regex-lazy-optional", [(PARSING, '"|C[adeflmnorsu]?"', '"|C[adeflmnorsu]??"')], "C01-R1", "maximal-munch"),
    Mutant("regex-extra-letter", [(PARSING, '"|G[ade]"', '"|G[adeo]"')], "C01-R1", "no-non-symbols"),
    Mutant("parse-stoich-drops-plus1", [(PARSING, "comp[symbols.index(k) + 1] = n", "comp[symbols.index(k)] = n")], "C01-R2", "_parse_stoich"),
    Mutant("mass-table-no-offset", [(PERIODIC, "relative_atomic_masses[k - 1]", "relative_atomic_masses[k]")], "C01-R2", "mass_from_composition"),
    Mutant("parseAll-false", [(PARSING, "parseString(stoich, parseAll=True)", "parseString(stoich, parseAll=False)")], "C01-R3", "parseAll"),
    Mutant("parseAll-dropped", [(PARSING, "parseString(stoich, parseAll=True)", "parseString(stoich)")], "C01-R3", "parseAll"),
    Mutant("both-signs-accepted", [(PARSING, "            if anti in chgstr:\n                raise ValueError(\"Invalid charge description (+ & - present)\")\n", "            if anti in chgstr:\n                pass\n")], "C01-R3", "both-signs"),
    Mutant("multi-token-accepted", [(PARSING, "if formula.count(token) > 1:", "if formula.count(token) > 2:")], "C01-R3", "repeated-sign"),
    Mutant("hydrate-first-occurrence-only", [(PARSING, "                tot_comp[k] += m * v", "                tot_comp[k] += v")], "C01-R4", "store"),
    Mutant("hydrate-new-key-unscaled", [(PARSING, "                tot_comp[k] = m * v", "                tot_comp[k] = v")], "C01-R4", "store"),
    Mutant("group-mult-assigned", [(PARSING, "term[1] *= mult", "term[1] = mult")], "C01-R4", "group-count"),
    Mutant("group-first-only", [(PARSING, "for term in t.subgroup:", "for term in t.subgroup[:1]:")], "C01-R4", "group"),
    Mutant("overwrite-not-sum", [(PARSING, "            if k not in tot_comp:\n                tot_comp[k] = m * v\n            else:\n                tot_comp[k] += m * v", "            tot_comp[k] = m * v")], "C01-R4", "overwrite"),
    Mutant("sign-table-swapped", [(PARSING, 'zip("+-", "-+", (1, -1))', 'zip("+-", "-+", (-1, 1))')], "C01-R5", "sign-table"),
    Mutant("bare-minus-positive", [(PARSING, '    elif chgstr == "-":\n        return -1', '    elif chgstr == "-":\n        return 1')], "C01-R5", "bare-sign"),
    Mutant("charge-under-key-1", [(PARSING, "tot_comp[0] = _get_charge(chg_tok)", "tot_comp[1] = _get_charge(chg_tok)")], "C01-R4", "charge-under-key-0"),
    Mutant("sign-dropped", [(PARSING, 'return sign * int(1 if after == "" else after)', 'return int(1 if after == "" else after)')], "C01-R5", "signed-magnitude"),
]

MUTANTS += [
    Mutant("suffix-strip-off-by-one", [(PARSING, "            formula = formula[: -len(ign)]", "            formula = formula[: -len(ign) + 1]")], "C01-R6", "suffix"),
    Mutant("prefix-strip-one-char", [(PARSING, "            formula = formula[len(ign) :]", "            formula = formula[1:]")], "C01-R6", "prefix"),
    Mutant("leading-count-single-digit", [(PARSING, 'm = re.findall(r"^\\d+", s)', 'm = re.findall(r"^\\d", s)')], "C01-R6", "leading-digits"),
]

MUTANTS.append(Mutant("both-signs-guard-on-fragment", [(PARSING, "            if anti in chgstr:\n                raise ValueError(\"Invalid charge description (+ & - present)\")\n\n            before, after = chgstr.split(token)\n", "            before, after = chgstr.split(token)\n            if anti in before:\n                raise ValueError(\"Invalid charge description (+ & - present)\")\n")], "C01-R3", "both-signs"))

TWINS = [
    Twin("rename-local-m", [(PARSING, "            m = 1\n        else:\n            m, stoich = _get_leading_integer(stoich)\n        comp = _parse_stoich(stoich)\n        for k, v in comp.items():\n            if k not in tot_comp:\n                tot_comp[k] = m * v\n            else:\n                tot_comp[k] += m * v",
                               "            mul = 1\n        else:\n            mul, stoich = _get_leading_integer(stoich)\n        comp = _parse_stoich(stoich)\n        for k, v in comp.items():\n            if k not in tot_comp:\n                tot_comp[k] = v * mul\n            else:\n                tot_comp[k] += mul * v")]),
    Twin("get-idiom", [(PARSING, "            if k not in tot_comp:\n                tot_comp[k] = m * v\n            else:\n                tot_comp[k] += m * v",
                        "            tot_comp[k] = tot_comp.get(k, 0) + m * v")]),
    Twin("augassign-to-assign", [(PARSING, "term[1] *= mult", "term[1] = term[1] * mult")]),
    Twin("regex-reordered-class", [(PARSING, '"|F[elmr]?"', '"|F[rmle]?"')]),
    Twin("regex-explicit-alternatives", [(PARSING, '"|Kr?"', '"|Kr|K"')]),
    Twin("count-ge-2", [(PARSING, "if formula.count(token) > 1:", "if formula.count(token) >= 2:")]),
    Twin("index-plus-one-commuted", [(PARSING, "comp[symbols.index(k) + 1] = n", "comp[1 + symbols.index(k)] = n")]),
]

MUTANTS.append(Mutant("group-scaling-only-above-one", [(PARSING, "            mult = t.mult\n            for term in t.subgroup:\n                term[1] *= mult\n", "            mult = t.mult\n            if mult > 1:\n                for term in t.subgroup:\n                    term[1] *= mult\n")], "C01-R4", "group-scaling-for-every-multiplier"))
