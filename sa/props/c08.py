"""C08 -- reported equilibrium compositions are genuine when success is claimed."""
from __future__ import annotations

import ast

from ..astu import U, S, has, same, walk_shallow, call_name, calls_in, kwarg, names_in, monomial, linform
from ..cfg import build
from ..core import AnalysisError, Mutant, Rule, Twin
from ..idioms import target_names, none_default

ID = "C08"
EQ = "chempy/equilibria.py"
EQS = "chempy/_eqsys.py"
CHEM = "chempy/chemistry.py"
ENGINES = ["E0 core", "E3 cfg"]
TECHNIQUE = "def-use dataflow of the returned vector into the sanity flag; CFG check that `return True` of _result_is_sane is reachable only through the false edge of an un-weakened existential test (ast)"
CLAIM = ("Decides (besides the precipitation switching conditions, dissolved() and the scalar bracketing solver's residual/result forms): the sanity flag returned by root/_solve/roots is _result_is_sane applied to the very vector returned and to the initial "
         "concentrations that parameterised the solve; _result_is_sane returns True only when neither 'some component negative' nor 'some "
         "component above upper bound*(1+rtol)' holds, with existential quantifiers; a failed solve is surfaced by a warning; EqCalcResult "
         "stores concentrations, info and sanity from one _solve call."
         ' Bracket arms of the scalar solver, precipitate lookup, solver-factory dispatch, default guess (R7). Shared rule A1: no swapped same-named arguments at resolved in-package call sites.')
DOES_NOT_DECIDE = "that converged roots satisfy Q = K, precipitation switching logic, the 19/20 success rate (runtime behaviour of pyneqsys)"
ASSUMPTIONS = ["numpy any/all semantics", "pyneqsys solve returns (x, info)"]


def _flow(ctx, q, listform=False):
    fn = ctx.func(EQ, "EqSystem." + q)
    a = EQ + ":EqSystem." + q
    ret = [n for n in walk_shallow(fn) if isinstance(n, ast.Return)][-1]
    elts = [U(e) for e in ret.value.elts] if isinstance(ret.value, ast.Tuple) else []
    if len(elts) != 3:
        raise AnalysisError("%s: return shape changed" % q)
    xname, info, sname = elts
    # definition of the sanity flag
    sdef = [s for s in walk_shallow(fn) if isinstance(s, ast.Assign) and U(s.targets[0]) == sname]
    ok = False
    arg0 = None
    if len(sdef) == 1:
        v = sdef[0].value
        if listform:
            if isinstance(v, ast.ListComp) and U(v.generators[0].iter) == xname and not v.generators[0].ifs:
                c = v.elt
                xv = U(v.generators[0].target)
                ok = isinstance(c, ast.Call) and call_name(c) == "self._result_is_sane" and len(c.args) == 2 and U(c.args[1]) == xv
                arg0 = U(c.args[0]) if ok else None
        else:
            ok = isinstance(v, ast.Call) and call_name(v) == "self._result_is_sane" and len(v.args) == 2 and U(v.args[1]) == xname
            arg0 = U(v.args[0]) if ok else None
    ctx.check(ok, a, "sane=check(returned-x)", "the returned flag must be self._result_is_sane(init_concs, <the returned vector>); found %s" % ([U(s) for s in sdef]), node=ret)
    # x comes from the solver, init concs parameterised the solve
    xdef = [s for s in walk_shallow(fn) if isinstance(s, ast.Assign) and xname in target_names(s.targets[0])]
    ok = len(xdef) == 1 and isinstance(xdef[0].value, ast.Call) and (U(xdef[0].value.func) in ("neqsys.solve", "cb")) and target_names(xdef[0].targets[0])[0] == xname \
        and len(xdef[0].value.args) >= 2 and U(xdef[0].value.args[1]) == "params"
    ctx.check(ok, a, "x-from-solver", "the returned vector must be the first result of the solver called with `params`; found %s" % [U(s)[:80] for s in xdef], node=fn)
    pdef = [s for s in walk_shallow(fn) if isinstance(s, ast.Assign) and U(s.targets[0]) == "params"]
    ok = len(pdef) == 1 and isinstance(pdef[0].value, ast.Call) and call_name(pdef[0].value) == "np.concatenate"
    first = None
    if ok:
        tup = pdef[0].value.args[0]
        ok = isinstance(tup, ast.Tuple) and len(tup.elts) == 2 and "self.eq_constants()" in U(tup.elts[1])
        first = U(tup.elts[0]) if ok else None
    ctx.check(ok and first == arg0 and arg0 is not None, a, "same-init-concs", "the sanity check must use the initial concentrations that parameterised the solve (params = concat(init_concs, K)); check uses %s, params use %s" % (arg0, first), node=fn)
    # statement order: solve -> (warn) -> sane -> return, no redefinition in between
    g = build(fn)
    if len(xdef) == 1 and len(sdef) == 1:
        nx, ns, nr = g.node_of(xdef[0]), g.node_of(sdef[0]), g.node_of(ret)
        ok = g.must_pass({nx}, ns) and g.must_pass({ns}, nr)
        redefs = [s for s in walk_shallow(fn) if isinstance(s, (ast.Assign, ast.AugAssign)) and s not in xdef and (
            xname in target_names(s.targets[0] if isinstance(s, ast.Assign) else s.target)) ]
        ctx.check(ok and not redefs, a, "order:solve->check->return", "solve, sanity check and return are not in dataflow order or the vector is re-bound", node=fn)
    return fn, a, xname, info


def r1_flag_dataflow(ctx):
    for q, lf in (("root", False), ("_solve", False), ("roots", True)):
        _flow(ctx, q, lf)


def r2_sanity_test(ctx):
    fn = ctx.func(EQ, "EqSystem._result_is_sane")
    a = EQ + ":EqSystem._result_is_sane"
    params = [x.arg for x in fn.args.args]
    if len(params) < 3:
        raise AnalysisError("_result_is_sane: signature changed")
    ic, xn = params[1], params[2]
    # bound definition
    bdef = [s for s in walk_shallow(fn) if isinstance(s, ast.Assign) and "upper_conc_bounds" in U(s.value)]
    ok = len(bdef) == 1 and has(bdef[0].value, "self.upper_conc_bounds(%s)" % ic)
    bname = U(bdef[0].targets[0]) if bdef else None
    ctx.check(ok, a, "bounds-from-init-concs", "upper bounds must be self.upper_conc_bounds(%s)" % ic, node=fn)
    # quantified facts
    facts = {}
    for s in walk_shallow(fn):
        if isinstance(s, ast.Assign):
            tg = s.targets[0]
            pairs = []
            if isinstance(tg, ast.Tuple) and isinstance(s.value, ast.Tuple) and len(tg.elts) == len(s.value.elts):
                pairs = list(zip(tg.elts, s.value.elts))
            elif isinstance(tg, ast.Name):
                pairs = [(tg, s.value)]
            for t, v in pairs:
                facts[U(t)] = v

    def classify(v):
        """(quantifier, kind) for an expression"""
        quant = None
        inner = None
        if isinstance(v, ast.Call):
            cn = call_name(v) or ""
            if cn in ("np.any", "any", "numpy.any", "_any"):
                quant, inner = "any", v.args[0]
            elif cn in ("np.all", "all", "numpy.all"):
                quant, inner = "all", v.args[0]
            elif isinstance(v.func, ast.Attribute) and v.func.attr in ("any", "all") and not v.args:
                quant, inner = v.func.attr, v.func.value
        if inner is None and isinstance(v, ast.Compare):
            # min(x) < 0 / max(...) forms
            t = S(v)
            if t in ("min%s<0" % xn, "%s.min<0" % xn, "np.min%s<0" % xn):
                return "any", "neg"
            return None, None
        if inner is None:
            return None, None
        if isinstance(inner, ast.GeneratorExp):
            inner = inner.elt
        if isinstance(inner, ast.Compare) and len(inner.ops) == 1:
            l, r, op = inner.left, inner.comparators[0], inner.ops[0]
            if isinstance(op, ast.Lt) and xn in names_in(l) and isinstance(r, ast.Constant) and r.value == 0:
                return quant, "neg"
            if isinstance(op, ast.Gt) and isinstance(l, ast.Constant) and l.value == 0 and xn in names_in(r):
                return quant, "neg"
            if isinstance(op, (ast.Gt, ast.GtE)) and xn in names_in(l) and bname and bname in names_in(r):
                c, p = monomial(r)
                if c == 1 and all(e == {"1": 1} for e in p.values()) and set(p) in ({bname, "1 + rtol"}, {bname}):
                    return quant, "over"
                return quant, "over?"
        return quant, None
    kinds = {}
    for name, v in facts.items():
        q, k = classify(v)
        if k:
            kinds[name] = (q, k, v)
    neg = [n for n, (q, k, v) in kinds.items() if k == "neg"]
    over = [n for n, (q, k, v) in kinds.items() if k.startswith("over")]
    ctx.check(len(neg) == 1 and kinds[neg[0]][0] == "any", a, "negative:existential",
              "'some component negative' must be an existential test (np.any(x < 0)); found %s" % ({n: U(kinds[n][2]) for n in neg} or "none"), node=fn)
    ctx.check(len(over) == 1 and kinds[over[0]][0] == "any" and kinds[over[0]][1] == "over", a, "too-much:existential",
              "'some component above its upper bound' must be np.any(x > bounds*(1+rtol)); found %s" % ({n: U(kinds[n][2]) for n in over} or "none"), node=fn)
    # control flow: return True only via the false edge of `neg or over`
    g = build(fn)
    rt = [i for i, n in g.nodes.items() if n.kind == "return" and isinstance(n.stmt.value, ast.Constant) and n.stmt.value.value is True and i in g.reachable()]
    rf = [i for i, n in g.nodes.items() if n.kind == "return" and isinstance(n.stmt.value, ast.Constant) and n.stmt.value.value is False]
    gate = None
    for i, n in g.nodes.items():
        if n.kind == "if" and isinstance(n.ast, ast.BoolOp) and isinstance(n.ast.op, ast.Or) and neg and over and {U(v) for v in n.ast.values} == {neg[0], over[0]}:
            gate = i
    ok = gate is not None and bool(rt) and all(g.must_pass({gate}, r) for r in rt) and all(r not in g.reach(gate, first_labels={"T"}) for r in rt)
    ctx.check(ok, a, "True-only-when-neither", "`return True` must be reachable only when neither the negative nor the too-much test holds (gate `%s or %s`)" % (neg[:1], over[:1]), node=fn)
    ok = gate is not None and bool(rf) and all(r in g.reach(gate, first_labels={"T"}) for r in rf) and \
        not any(g.nodes[x].kind == "return" and x not in rf for x in g.reach(gate, first_labels={"T"}) if g.nodes[x].kind == "return")
    ctx.check(ok, a, "False-when-either", "when either test holds every path must return False", node=fn)
    other = [n for n in g.nodes.values() if n.kind == "return" and not (isinstance(n.stmt.value, ast.Constant) and n.stmt.value.value in (True, False))]
    ctx.check(not other, a, "boolean-returns-only", "unexpected return value %s" % [U(n.stmt) for n in other], node=fn)


def r3_failure_surfaced(ctx):
    for q in ("root", "_solve"):
        fn = ctx.func(EQ, "EqSystem." + q)
        a = EQ + ":EqSystem." + q
        ok = False
        for n in walk_shallow(fn):
            if isinstance(n, ast.If) and S(n.test) in ("notsol['success']", "sol['success']isFalse", "notsol.get'success'"):
                ok = any(call_name(c) == "warnings.warn" for c in calls_in(n))
        ctx.check(ok, a, "failed-solve-warns", "`if not sol['success']: warnings.warn(...)` missing: a failed root-finding is silent", node=fn)
        ret = [n for n in walk_shallow(fn) if isinstance(n, ast.Return)][-1]
        ctx.check(U(ret.value.elts[1]) == "sol", a, "info-returned", "the solver's info dict must be returned unchanged", node=ret)
    fn = ctx.func(EQS, "EqCalcResult.solve")
    a = EQS + ":EqCalcResult.solve"
    ok = has(fn, "self.conc[slc], nfo, sane = self.eqsys._solve(self.all_inits[slc], **kwargs)") and has(fn, "self.sane[index] = sane")
    ctx.check(ok, a, "one-solve-call", "concentrations, info and sanity must come from one _solve call on the same slice and be stored at the same index", node=fn)
    ctx.check(has(fn, "for index in product(*map(range, self.all_inits.shape[:-1])):") and has(fn, "slc = tuple(index) + (slice(None),)"), a, "all-indices", "the solve loop must cover every index of the varied grid", node=fn)
    ctx.check(has(fn, "getattr(self, k)[index] = _get(k)") and has(fn, "if k == 'sane': continue"), a, "info-stored", "info keys (success, nfev, ...) must be stored per index, `sane` excluded from overwriting", node=fn)


def r4_precipitation(ctx):
    """switching conditions of a sparingly soluble phase are mirror images; dissolved() removes the solid stoichiometrically"""
    ee = ctx.func(CHEM, "Equilibrium.equilibrium_expr")
    stores = [n for n in ast.walk(ee) if isinstance(n, ast.Attribute) and isinstance(n.ctx, ast.Store)]
    ok = not stores and has(ee, "if isinstance(self.param, Expr): return self.param") and has(ee, "return MassActionEq([self.param])")
    ctx.check(ok, CHEM + ":Equilibrium.equilibrium_expr", "constant-wrapped-afresh", "equilibrium_expr must wrap the constant the equilibrium has *now* (an Expr as is, a number as MassActionEq([param])) "
              "and keep no copy on the object: the switching conditions compare Q with it; stores: %s" % [U(x) for x in stores], node=ee)
    fw = ctx.func(EQ, "EqSystem._fw_cond_factory.fw_cond")
    a = EQ + ":EqSystem._fw_cond_factory.fw_cond"
    arms = {}
    node = [s for s in fw.body if isinstance(s, ast.If)]
    node = node[0] if node else None
    while isinstance(node, ast.If):
        arms[S(node.test)] = node.body[0]
        node = node.orelse[0] if len(node.orelse) == 1 and isinstance(node.orelse[0], ast.If) else (node.orelse[0] if node.orelse else None)
        if not isinstance(node, ast.If):
            arms["else"] = node
            break
    pos, neg = arms.get("precip_stoich_coeff>0"), arms.get("precip_stoich_coeff<0")
    ok = isinstance(pos, ast.Return) and isinstance(neg, ast.Return) and same(pos.value, "q * (1 + rtol) < k", scope=fw) and same(neg.value, "q > k * (1 + rtol)", scope=fw)
    ctx.check(ok, a, "mirror-conditions", "solid as product: precipitate when Q*(1+rtol) < K; solid as reactant: when Q > K*(1+rtol); found %s / %s" % (
        U(pos) if pos is not None else None, U(neg) if neg is not None else None), node=fw)
    ctx.check(isinstance(arms.get("else"), ast.Raise), a, "zero-coefficient-raises", "a zero precipitate coefficient must raise", node=fw)
    ctx.check(has(fw, "q = rxn.Q(self.substances, self.dissolved(x))") and has(fw, "k = rxn.equilibrium_constant()") and has(fw, "rxn.precipitate_stoich(self.substances)[1:3]"), a, "Q-of-dissolved-state",
              "Q must be evaluated on the dissolved state and compared with the reaction's own constant", node=fw)
    bw = ctx.func(EQ, "EqSystem._bw_cond_factory.bw_cond")
    ctx.check(has(bw, "precipitate_idx = rxn.precipitate_stoich(self.substances)[2]") and has(bw, "if x[precipitate_idx] < small: return False else: return True"), EQ + ":EqSystem._bw_cond_factory.bw_cond", "solid-absent-below-small",
              "the solid is considered absent iff its own amount is below `small`", node=bw)
    ds = ctx.func(EQ, "EqSystem.dissolved")
    ok = False
    for n in walk_shallow(ds):
        if isinstance(n, ast.AugAssign) and isinstance(n.op, ast.Sub):
            c, p = monomial(n.value)
            ok = c == 1 and p == {"new_concs[s_idx]": {"1": 1}, "s_stoich": {"1": -1}, "net_stoich": {"1": 1}} and U(n.target) == "new_concs"
    ctx.check(ok, EQ + ":EqSystem.dissolved", "solid-removed-stoichiometrically", "dissolved() must subtract (amount of solid / its coefficient) * net stoichiometry", node=ds)
    ctx.check(has(ds, "s_net, s_stoich, s_idx = r.precipitate_stoich(self.substances)") and has(ds, "net_stoich = np.asarray(r.net_stoich(self.substances))") and has(ds, "if r.has_precipitates(self.substances):"), EQ + ":EqSystem.dissolved",
              "own-reaction-stoichiometry", "coefficient, index and net stoichiometry must come from the same reaction", node=ds)
    ps = ctx.func("chempy/chemistry.py", "Reaction.precipitate_stoich")
    ctx.check(has(ps, "return net, net[found1], found1") and has(ps, "net = self._xprecipitate_stoich(substances, True)"), "chempy/chemistry.py:Reaction.precipitate_stoich", "(net, coefficient, index)", "precipitate_stoich must return (net, coefficient of the solid, its index)", node=ps)
    nr = ctx.func(EQ, "EqSystem.non_precip_rids")
    ctx.check(has(nr, "for idx, precip in zip(self.phase_transfer_reaction_idxs(), precipitates) if not precip"), EQ + ":EqSystem.non_precip_rids", "absent-solids", "non_precip_rids must list the phase-transfer reactions whose solid is absent", node=nr)


def r5_scalar_solver(ctx):
    """bracketing scalar solver: residual K - Q along the reaction coordinate, result on the same coordinate"""
    SE = "chempy/_equilibrium.py"
    er = ctx.func(SE, "equilibrium_residual")
    a = SE + ":equilibrium_residual"
    ret = [n for n in walk_shallow(er) if isinstance(n, ast.Return)][-1]
    ctx.check(linform(ret.value) == {"K": 1, "Q": -1}, a, "K-Q", "the residual must be K - Q; found %s" % U(ret.value), node=ret)
    ctx.check(has(er, "c = c0 + stoich * rc") and has(er, "Q = equilibrium_quotient(c, stoich)"), a, "c=c0+nu*rc", "concentrations along the coordinate must be c0 + stoich*rc and Q their quotient with the same stoichiometry", node=er)
    ctx.check(has(er, "if activity_product is not None: Q *= activity_product(c)"), a, "activity-product", "the activity product must multiply Q", node=er)
    sv = ctx.func(SE, "solve_equilibrium")
    ret = [n for n in walk_shallow(sv) if isinstance(n, ast.Return)][-1]
    c, p = monomial(ast.parse("x", mode="eval").body)
    lf = linform(ret.value)
    ok = set(lf) == {"c0", "rc * stoich"} or set(lf) == {"c0", "stoich * rc"}
    ctx.check(ok and all(v == 1 for v in lf.values()) and has(sv, "rc = _solve_equilibrium_coord(c0, stoich, K, activity_product)"), SE + ":solve_equilibrium", "c0+rc*nu",
              "the result must be c0 + rc * stoich for the solved coordinate; found %s" % U(ret.value), node=ret)
    co = ctx.func(SE, "_solve_equilibrium_coord")
    ctx.check(has(co, "brentq(equilibrium_residual, lower, upper, (c0_m, stoich_m, K, activity_product))") and has(co, "lower, upper = _get_rc_interval(stoich_m, c0_m)") and has(co, "mask, = np.nonzero(stoich)"),
              SE + ":_solve_equilibrium_coord", "bracket", "brentq must bracket the residual on the interval of the participating species", node=co)
    iv = ctx.func(SE, "_get_rc_interval")
    ctx.check(has(iv, "limits = c0 / stoich") and has(iv, "upper = -np.max(limits[np.argwhere(limits < 0)])") and has(iv, "lower = -np.min(limits[np.argwhere(limits > 0)])") and has(iv, "return lower, upper"), SE + ":_get_rc_interval",
              "interval", "the coordinate interval must be [-min positive c0/nu, -max negative c0/nu]", node=iv)


def r6_solver_chain_wiring(ctx):
    """each stage of a solver chain is built from its own NumSys class (no late-bound loop variable)"""
    from ..idioms import late_binding_closures
    n = 0
    for q in ("EqSystem.get_neqsys_chained_conditional", "EqSystem.get_neqsys_conditional_chained", "EqSystem.get_neqsys_static_conditions"):
        fn = ctx.func(EQ, q)
        a = EQ + ":" + q
        bad = late_binding_closures(fn)
        n += 1
        ctx.check(not bad, a, "no-late-bound-stage", "a closure created per NumSys stage reads the loop variable %s when it is *called*: every stage of the chain would be built from the last class "
                  "(bind it through a factory call or a default argument)" % sorted({v for _, v, _ in bad}), node=bad[0][0] if bad else fn)
        ctx.check(has(fn, "self._SymbolicSys_from_NumSys(NS, ") and has(fn, "for NS in NumSys"), a, "stage-per-NumSys", "each NumSys of the chain must be turned into its own system", node=fn)
    fn = ctx.func(EQ, "EqSystem.get_neqsys_chained_conditional")
    ctx.check(has(fn, "(self._fw_cond_factory(ri), self._bw_cond_factory(ri, NS.small)) for ri in self.phase_transfer_reaction_idxs()"), EQ + ":EqSystem.get_neqsys_chained_conditional", "conditions-per-phase-transfer-reaction",
              "one (forward, backward) condition pair per phase-transfer reaction, with the stage's own `small`", node=fn)
    ss = ctx.func(EQ, "EqSystem._SymbolicSys_from_NumSys")
    ctx.check(has(ss, "ns = NS(self, backend=sp, rref_equil=rref_equil, rref_preserv=rref_preserv, precipitates=conds, new_eq_params=new_eq_params)"), EQ + ":EqSystem._SymbolicSys_from_NumSys", "flags-forwarded",
              "the NumSys must receive its own rref flags and precipitate conditions", node=ss)
    # every stage starts from the guess it is handed (in a chain: the previous stage's result), not from something it recomputes
    for cls in ("NumSysLin", "NumSysSquare", "NumSysLinTanh", "NumSysLog"):
        fn = ctx.func(EQS, cls + ".internal_x0_cb")
        a = EQS + ":" + cls + ".internal_x0_cb"
        params = [p_.arg for p_ in fn.args.args]
        guess = params[1] if len(params) >= 2 else None
        rets = [n for n in walk_shallow(fn) if isinstance(n, ast.Return)]
        rebound = [n for n in ast.walk(fn) if isinstance(n, ast.Name) and isinstance(n.ctx, ast.Store)]
        ok = guess is not None and len(rets) == 1 and not rebound and any(isinstance(x, ast.Name) and x.id == guess for x in ast.walk(rets[0].value))
        ctx.check(ok, a, "starts-from-the-given-guess", "internal_x0_cb must compute the start vector from its first argument (the guess handed to this stage) in a single return, "
                  "without locals that could stand in for it; found %s" % (U(rets[0].value) if rets else "no return"), node=fn)
    fn = ctx.func(EQS, "NumSysLin.internal_x0_cb")
    g = fn.args.args[1].arg if len(fn.args.args) > 1 else "?"
    ctx.check(has(fn, "return (99 * %s + self.eqsys.dissolved(%s)) / 100" % (g, g)), EQS + ":NumSysLin.internal_x0_cb", "x0=99%guess+1%dissolved",
              "the linear formulation starts from (99*guess + dissolved(guess))/100", node=fn)
    gn = ctx.func(EQ, "EqSystem.get_neqsys")
    ctx.check(has(gn, "return getattr(self, 'get_neqsys_' + neqsys_type)(**new_kw)") and has(gn, "new_kw['NumSys'] = (NumSys,)"), EQ + ":EqSystem.get_neqsys", "dispatch", "get_neqsys must dispatch on the type name with a tuple of NumSys classes", node=gn)


def r7_skeleton(ctx):
    """arms of the scalar-solver bracket, the precipitate lookup and the solver-factory dispatch"""
    SE = "chempy/_equilibrium.py"
    iv = ctx.func(SE, "_get_rc_interval")
    a = SE + ":_get_rc_interval"
    ctx.check(has(iv, "if np.any(limits < 0): upper = -np.max(limits[np.argwhere(limits < 0)]) else: upper = 0"), a, "upper-arm",
              "products bound the coordinate from above; without any the bound is 0", node=iv)
    ctx.check(has(iv, "if np.any(limits > 0): lower = -np.min(limits[np.argwhere(limits > 0)]) else: lower = 0"), a, "lower-arm",
              "reactants bound the coordinate from below; without any the bound is 0", node=iv)
    ctx.check(has(iv, "if lower == 0 and upper == 0: raise ValueError("), a, "empty-interval-refused", "an empty bracket must be refused, not handed to brentq", node=iv)
    er = ctx.func(SE, "equilibrium_residual")
    ctx.check(has(er, "if not hasattr(stoich, 'ndim') or stoich.ndim == 1: c = c0 + stoich * rc else: c = c0 + np.dot(stoich, rc)"), SE + ":equilibrium_residual", "both-shapes-add-extent",
              "both the vector and the matrix form must ADD the extent to c0", node=er)
    ps = ctx.func(CHEM, "Reaction.precipitate_stoich")
    a = CHEM + ":Reaction.precipitate_stoich"
    ctx.check(has(ps, "net = self._xprecipitate_stoich(substances, True)") and has(ps, "found1 = -1"), a, "precipitate-view", "the lookup runs over the precipitate-only stoichiometry", node=ps)
    ctx.check(has(ps, "for idx in range(len(net)): if net[idx] != 0: if found1 == -1: found1 = idx else: raise NotImplementedError("), a, "first-and-only-precipitate",
              "the index of the single non-zero entry is recorded; a second one is refused", node=ps)
    ctx.check(has(ps, "return net, net[found1], found1"), a, "returns(net,coeff,index)", "result is (stoichiometry, coefficient of the precipitate, its index)", node=ps)
    xp = ctx.func(CHEM, "Reaction._xprecipitate_stoich")
    ctx.check(has(xp, "0 if xor ^ (getattr(v, 'phase_idx', 0) > 0) else"), CHEM + ":Reaction._xprecipitate_stoich", "phase-mask",
              "a species is a precipitate iff its phase index is > 0 (default 0); xor selects precipitates / non-precipitates", node=xp)
    np_ = ctx.func(CHEM, "Reaction.non_precipitate_stoich")
    ctx.check(has(np_, "return self._xprecipitate_stoich(substances, False)"), CHEM + ":Reaction.non_precipitate_stoich", "complement-view", "non-precipitate view is the complement mask", node=np_)
    gn = ctx.func(EQ, "EqSystem.get_neqsys")
    a = EQ + ":EqSystem.get_neqsys"
    ctx.check(has(gn, "for k in new_kw: if k in kwargs: new_kw[k] = kwargs.pop(k)"), a, "options-forwarded", "options given by the caller override the defaults under their own names", node=gn)
    ctx.check(has(gn, "if neqsys_type == 'static_conditions': new_kw['precipitates'] = None"), a, "static-only-option", "`precipitates` is an option of the static chain only", node=gn)
    ctx.check(has(gn, "return getattr(self, 'get_neqsys_' + neqsys_type)(**new_kw)"), a, "dispatch-by-name", "the factory is selected by its name", node=gn)
    ctx.check(has(gn, "try: NumSys[0] except TypeError: new_kw['NumSys'] = (NumSys,) else: new_kw['NumSys'] = NumSys"), a, "single-class->chain-of-one", "a single formulation becomes a chain of one", node=gn)
    sc = ctx.func(EQ, "EqSystem.get_neqsys_static_conditions")
    d = none_default(sc, "precipitates")
    ctx.check(d is not None and U(d) == "(False,) * len(self.phase_transfer_reaction_idxs())", EQ + ":EqSystem.get_neqsys_static_conditions", "default-no-precipitate",
              "without information no phase is assumed present: one False per phase-transfer reaction", node=sc)
    nr = ctx.func(EQ, "EqSystem.non_precip_rids")
    ctx.check(has(nr, "[idx for idx, precip in zip(self.phase_transfer_reaction_idxs(), precipitates) if not precip]"), EQ + ":EqSystem.non_precip_rids", "absent-phases",
              "the reactions whose solid is absent are those flagged False", node=nr)
    cc = ctx.func(EQ, "EqSystem.get_neqsys_conditional_chained")
    ctx.check(has(cc, "ConditionalNeqSys(cond_cbs, factory)") and has(cc, "(self._fw_cond_factory(ri), self._bw_cond_factory(ri, NumSys[0].small)) for ri in self.phase_transfer_reaction_idxs()"),
              EQ + ":EqSystem.get_neqsys_conditional_chained", "conditions-then-factory", "ConditionalNeqSys takes the (forward, backward) pairs first, then the factory", node=cc)
    for q in ("EqSystem._solve", "EqSystem.root", "EqSystem.roots"):
        fn = ctx.func(EQ, q)
        d = none_default(fn, "x0")
        ctx.check(d is not None and U(d) == "init_concs", EQ + ":" + q, "default-guess", "a given initial guess is used; the default is the initial concentrations", node=fn)


RULES = [
    Rule("C08-R1", r1_flag_dataflow, 12, "sanity flag = check(returned vector, same initial concentrations) in root/_solve/roots"),
    Rule("C08-R2", r2_sanity_test, 6, "_result_is_sane: existential tests, True only when neither holds"),
    Rule("C08-R3", r3_failure_surfaced, 7, "failed solve warns; EqCalcResult stores one call's results"),
    Rule("C08-R4", r4_precipitation, 9, "precipitation switching conditions mirror each other; dissolved() stoichiometric"),
    Rule("C08-R6", r6_solver_chain_wiring, 14, "solver chain: one system per NumSys stage, no late-bound loop variable"),
    Rule("C08-R7", r7_skeleton, 19, "bracket arms, precipitate lookup, solver-factory dispatch, default guess"),
    Rule("C08-R5", r5_scalar_solver, 6, "scalar solver: residual K-Q along c0+nu*rc, result on the same coordinate"),
]

MUTANTS = [
    Mutant("sanity-all-negative", [(EQ, "neg_conc, too_much = np.any(x < 0), np.any(x > sc_upper_bounds * (1 + rtol))", "neg_conc, too_much = np.all(x < 0), np.any(x > sc_upper_bounds * (1 + rtol))")], "C08-R2", "negative"),
    Mutant("sanity-all-too-much", [(EQ, "neg_conc, too_much = np.any(x < 0), np.any(x > sc_upper_bounds * (1 + rtol))", "neg_conc, too_much = np.any(x < 0), np.all(x > sc_upper_bounds * (1 + rtol))")], "C08-R2", "too-much"),
    Mutant("sanity-and", [(EQ, "        if neg_conc or too_much:\n            if neg_conc:", "        if neg_conc and too_much:\n            if neg_conc:")], "C08-R2", "True-only"),
    Mutant("sanity-drops-upper-bound", [(EQ, "        if neg_conc or too_much:\n            if neg_conc:", "        if neg_conc:\n            if neg_conc:")], "C08-R2", "True-only"),
    Mutant("sanity-bound-scaled", [(EQ, "np.any(x > sc_upper_bounds * (1 + rtol))", "np.any(x > sc_upper_bounds * (10 + rtol))")], "C08-R2", "too-much"),
    Mutant("sanity-warn-only", [(EQ, '                warnings.warn("Too much of at least one component")\n            return False', '                warnings.warn("Too much of at least one component")')], "C08-R2", ""),
    Mutant("root-checks-x0", [(EQ, '            warnings.warn("Root finding indicated as failed by solver.")\n        sane = self._result_is_sane(init_concs, x)', '            warnings.warn("Root finding indicated as failed by solver.")\n        sane = self._result_is_sane(init_concs, x0)')], "C08-R1", "root"),
    Mutant("solve-sane-constant", [(EQ, '            warnings.warn("Root-finding indicated as failed by solver.")\n        sane = self._result_is_sane(init_concs, x)', '            warnings.warn("Root-finding indicated as failed by solver.")\n        sane = bool(sol["success"])')], "C08-R1", "_solve"),
    Mutant("roots-check-other-inits", [(EQ, "sanity = [self._result_is_sane(init_concs, x) for x in xvecs]", "sanity = [self._result_is_sane(x0, x) for x in xvecs]")], "C08-R1", "roots"),
    Mutant("warn-removed", [(EQ, '        if not sol["success"]:\n            warnings.warn("Root finding indicated as failed by solver.")\n', "")], "C08-R3", "warns"),
    Mutant("result-sane-wrong-index", [(EQS, "self.sane[index] = sane", "self.sane[index[::-1]] = sane")], "C08-R3", "one-solve"),
]

SE = "chempy/_equilibrium.py"
MUTANTS += [
    Mutant("fw-cond-same-direction", [(EQ, "                return q > k * (1 + rtol)", "                return q * (1 + rtol) < k")], "C08-R4", "mirror"),
    Mutant("bw-cond-inverted", [(EQ, "            if x[precipitate_idx] < small:\n                return False\n            else:\n                return True", "            if x[precipitate_idx] < small:\n                return True\n            else:\n                return False")], "C08-R4", "solid-absent"),
    Mutant("dissolved-multiplies", [(EQ, "new_concs -= new_concs[s_idx] / s_stoich * net_stoich", "new_concs -= new_concs[s_idx] * s_stoich * net_stoich")], "C08-R4", "stoichiometrically"),
    Mutant("residual-Q-minus-K-ok-but-sum", [(SE, "    return K - Q", "    return K + Q")], "C08-R5", "K-Q"),
    Mutant("result-other-sign", [(SE, "    return c0 + rc * stoich", "    return c0 - rc * stoich")], "C08-R5", "c0+rc"),
]

MUTANTS.append(Mutant("chain-late-binding-lambda", [(EQ, "                    mk_factory(NS),\n", "                    lambda conds: self._SymbolicSys_from_NumSys(NS, conds, rref_equil, rref_preserv, **kwargs),\n")], "C08-R6", "late-bound"))
MUTANTS.append(Mutant("bracket-max-of-formed", [(SE, "lower = -np.min(limits[np.argwhere(limits > 0)])", "lower = -np.max(limits[np.argwhere(limits > 0)])")], "C08-R5", "interval"))

TWINS = [
    Twin("chain-default-arg-binding", [(EQ, "                    mk_factory(NS),\n", "                    lambda conds, NS=NS: self._SymbolicSys_from_NumSys(NS, conds, rref_equil, rref_preserv, **kwargs),\n")]),
    Twin("sanity-method-any", [(EQ, "neg_conc, too_much = np.any(x < 0), np.any(x > sc_upper_bounds * (1 + rtol))", "neg_conc, too_much = (x < 0).any(), (x > sc_upper_bounds * (1 + rtol)).any()")]),
    Twin("sanity-separate-assigns", [(EQ, "        neg_conc, too_much = np.any(x < 0), np.any(x > sc_upper_bounds * (1 + rtol))\n", "        neg_conc = np.any(x < 0)\n        too_much = np.any(x > (1 + rtol) * sc_upper_bounds)\n")]),
    Twin("sanity-or-commuted", [(EQ, "        if neg_conc or too_much:\n            if neg_conc:", "        if too_much or neg_conc:\n            if neg_conc:")]),
]

MUTANTS.append(Mutant("x0-ignores-the-guess", [(EQS, "    def internal_x0_cb(self, init_concs, params):\n        # reduce risk of stationary starting point\n",
                                                 "    def internal_x0_cb(self, x0, params):\n        # reduce risk of stationary starting point\n        init_concs = params[: self.eqsys.ns]\n")], "C08-R6", "starts-from-the-given-guess"))

MUTANTS.append(Mutant("equilibrium-expr-memoised", [(CHEM, "            except AttributeError:\n                return MassActionEq([self.param])\n            else:\n                return convertible()", "            except AttributeError:\n                self._eq_expr = MassActionEq([self.param])\n                return self._eq_expr\n            else:\n                return convertible()")], "C08-R4", "constant-wrapped-afresh"))
