"""E4b -- rational normal form of arithmetic expressions (exact, over Fractions).

An expression built from + - * / and integer powers over *atoms* is brought to a quotient of two expanded polynomials; two expressions
are algebraically identical iff  num1*den2 == num2*den1  as polynomials.  Atoms are names/attributes/subscripts, calls (compared by
function name and the normal forms of their arguments), fractional powers and powers with a non-numeric exponent.  Local names can be
inlined from an environment, so introducing or removing temporaries does not change the form.

This is term rewriting to a normal form on one expression tree; nothing is executed and no path is explored.  What it does NOT know:
identities of the transcendental functions (exp(a+b) = exp(a)exp(b), tanh(atanh(x)) = x, sqrt(x)**2 = x ...): expressions that differ
by such an identity are reported as different.
"""
from __future__ import annotations

import ast
from fractions import Fraction
from typing import Dict, Optional, Tuple

from .astu import _num, dotted, S

F = Fraction
Poly = Dict[tuple, Fraction]  # monomial (sorted tuple of (atom, int exponent)) -> coefficient

MAX_TERMS = 20000


class Undecided(Exception):
    pass


def p_const(c) -> Poly:
    return {(): F(c)} if c != 0 else {}


def p_atom(a) -> Poly:
    return {((a, 1),): F(1)}


def p_add(a: Poly, b: Poly, s=1) -> Poly:
    out = dict(a)
    for m, c in b.items():
        v = out.get(m, F(0)) + s * c
        if v == 0:
            out.pop(m, None)
        else:
            out[m] = v
    return out


def _mmul(m1, m2):
    d = dict(m1)
    for a, e in m2:
        d[a] = d.get(a, 0) + e
    return tuple(sorted(((a, e) for a, e in d.items() if e != 0), key=repr))


def p_mul(a: Poly, b: Poly) -> Poly:
    if len(a) * len(b) > MAX_TERMS:
        raise Undecided("expression too large to expand (%d x %d terms)" % (len(a), len(b)))
    out: Poly = {}
    for m1, c1 in a.items():
        for m2, c2 in b.items():
            m = _mmul(m1, m2)
            v = out.get(m, F(0)) + c1 * c2
            if v == 0:
                out.pop(m, None)
            else:
                out[m] = v
    return out


def p_pow(a: Poly, n: int) -> Poly:
    out = p_const(1)
    for _ in range(n):
        out = p_mul(out, a)
    return out


def p_key(p: Poly):
    return tuple(sorted(p.items(), key=repr))


class Rat:
    __slots__ = ("n", "d")

    def __init__(self, n: Poly, d: Optional[Poly] = None):
        self.n = n
        self.d = d if d is not None else p_const(1)

    def key(self):
        """a hashable key, unique up to common polynomial factors of numerator and denominator"""
        d = self.d
        if not d:
            raise Undecided("zero denominator")
        lead = sorted(d.items(), key=repr)[0][1]
        n = {m: c / lead for m, c in self.n.items()}
        dd = {m: c / lead for m, c in d.items()}
        return (p_key(n), p_key(dd))


def r_add(a: Rat, b: Rat, s=1) -> Rat:
    if a.d == b.d:
        return Rat(p_add(a.n, b.n, s), a.d)
    return Rat(p_add(p_mul(a.n, b.d), p_mul(b.n, a.d), s), p_mul(a.d, b.d))


def r_mul(a: Rat, b: Rat) -> Rat:
    return Rat(p_mul(a.n, b.n), p_mul(a.d, b.d))


def r_div(a: Rat, b: Rat) -> Rat:
    if not b.n:
        raise Undecided("division by an expression that is identically zero")
    return Rat(p_mul(a.n, b.d), p_mul(a.d, b.n))


def r_equal(a: Rat, b: Rat) -> bool:
    return p_mul(a.n, b.d) == p_mul(b.n, a.d)


def rat_of(node, env: Optional[dict] = None, ones: tuple = (), funcs: Optional[dict] = None, _depth=0) -> Rat:
    """env: local name -> ast node (inlined); ones: names standing for the number 1; funcs: alias name -> canonical function name"""
    env = env or {}
    funcs = funcs or {}
    if _depth > 60:
        raise Undecided("definitions nest too deeply (cyclic?)")

    def rec(n) -> Rat:
        c = _num(n)
        if c is not None:
            return Rat(p_const(c))
        if isinstance(n, ast.Name):
            if n.id in ones:
                return Rat(p_const(1))
            if n.id in env:
                return rat_of(env[n.id], {k: v for k, v in env.items() if k != n.id}, ones, funcs, _depth + 1)
            return Rat(p_atom(("sym", n.id)))
        if isinstance(n, ast.UnaryOp) and isinstance(n.op, ast.USub):
            r = rec(n.operand)
            return Rat({m: -c_ for m, c_ in r.n.items()}, r.d)
        if isinstance(n, ast.UnaryOp) and isinstance(n.op, ast.UAdd):
            return rec(n.operand)
        if isinstance(n, ast.BinOp):
            if isinstance(n.op, ast.Add):
                return r_add(rec(n.left), rec(n.right))
            if isinstance(n.op, ast.Sub):
                return r_add(rec(n.left), rec(n.right), -1)
            if isinstance(n.op, ast.Mult):
                return r_mul(rec(n.left), rec(n.right))
            if isinstance(n.op, ast.Div):
                return r_div(rec(n.left), rec(n.right))
            if isinstance(n.op, ast.Pow):
                b, e = rec(n.left), rec(n.right)
                if set(e.n) <= {()} and e.d == p_const(1):  # numeric exponent
                    ex = e.n.get((), F(0))
                    ip = ex.numerator // ex.denominator  # floor
                    fp = ex - ip
                    out = Rat(p_const(1))
                    if ip > 0:
                        if ip > 12:
                            raise Undecided("power %s too large to expand" % ex)
                        out = Rat(p_pow(b.n, ip), p_pow(b.d, ip))
                    elif ip < 0:
                        if -ip > 12:
                            raise Undecided("power %s too large to expand" % ex)
                        if not b.n:
                            raise Undecided("negative power of zero")
                        out = Rat(p_pow(b.d, -ip), p_pow(b.n, -ip))
                    if fp != 0:
                        out = r_mul(out, Rat(p_atom(("rpow", b.key(), fp))))
                    return out
                return Rat(p_atom(("pow", b.key(), e.key())))
        if isinstance(n, ast.Call) and not n.keywords and not any(isinstance(a, ast.Starred) for a in n.args):
            nm = dotted(n.func) or S(n.func)
            if isinstance(n.func, ast.Name) and n.func.id in funcs:
                short = funcs[n.func.id]
            else:
                short = nm.split(".")[-1]
            short = {"arctanh": "atanh", "arcsinh": "asinh", "arccosh": "acosh", "arctan": "atan", "arcsin": "asin", "arccos": "acos"}.get(short, short)
            args = tuple(rec(a) for a in n.args)
            if short == "sqrt" and len(args) == 1:
                return Rat(p_atom(("rpow", args[0].key(), F(1, 2))))
            if short == "cos" and len(args) == 1 and not args[0].n:
                return Rat(p_const(1))
            if short == "exp" and len(args) == 1 and not args[0].n:
                return Rat(p_const(1))
            return Rat(p_atom(("call", short, tuple(a.key() for a in args))))
        return Rat(p_atom(("sym", S(n))))

    return rec(node)


def single_assignment_env(fn) -> dict:
    """name -> value node for the names assigned exactly once at the top level of `fn` by a plain `name = expr`
    (tuple targets `a, b = x, y` are split); other names are left as atoms."""
    counts: Dict[str, int] = {}
    vals: Dict[str, ast.AST] = {}
    for st in ast.walk(fn):
        if isinstance(st, ast.Assign):
            for t in st.targets:
                if isinstance(t, ast.Name):
                    counts[t.id] = counts.get(t.id, 0) + 1
                    vals[t.id] = st.value
                elif isinstance(t, (ast.Tuple, ast.List)):
                    for i, e in enumerate(t.elts):
                        if isinstance(e, ast.Name):
                            counts[e.id] = counts.get(e.id, 0) + 1
                            if isinstance(st.value, (ast.Tuple, ast.List)) and len(st.value.elts) == len(t.elts):
                                vals[e.id] = st.value.elts[i]
                            else:
                                counts[e.id] += 1  # not inlinable
        elif isinstance(st, (ast.AugAssign, ast.For)):
            for x in ast.walk(st.target):
                if isinstance(x, ast.Name):
                    counts[x.id] = counts.get(x.id, 0) + 2
    top = {id(s) for s in fn.body}
    env = {}
    for st in fn.body:
        if isinstance(st, ast.Assign):
            for t in st.targets:
                names = [t] if isinstance(t, ast.Name) else (list(t.elts) if isinstance(t, (ast.Tuple, ast.List)) else [])
                for e in names:
                    if isinstance(e, ast.Name) and counts.get(e.id) == 1 and e.id in vals:
                        env[e.id] = vals[e.id]
    return env


def alg_equal(node_a, node_b, env_a=None, env_b=None, **kw) -> bool:
    return r_equal(rat_of(node_a, env_a, **kw), rat_of(node_b, env_b, **kw))
