"""Normal form of a function body, for proving a function of the current tree equivalent to its reference version.

Why.  Most rules state a fact about the *shape* of an anchored function.  A behaviour-preserving refactoring (a temporary introduced or
inlined, an if/else inverted, an early return, `x += y` written out, a loop turned into a comprehension, a small helper extracted, an
error message reworded) changes the shape and used to raise an alarm although the property still holds.  Before any rule runs, every
function of the current tree is therefore compared with the same function of the reference tree (`/verif/reference`, the tree the rules
were written against and on which they were all confirmed): both are rewritten into the normal form below, and when the two normal forms
are identical the rules are given the *reference* function instead of the current one (refeq.py).  When they differ, nothing is
substituted and the rules analyse the current code exactly as before.  The rewriting only ever merges programs that compute the same
thing, so a change of behaviour is never hidden; a refactoring the rewriting cannot see through is at worst reported as it was before.

The normal form is a tree of *effects* (bind a variable that has to stay a variable, store into an object, call for effect, evaluate inside
a try body, yield, return, raise, loop, try, with) under `if`s, in which every expression has been closed over the function's inputs:
  * before anything else: helper procedures that exist on one side only are inlined at their call statements (parameters bound, locals renamed
    apart, single exit); the locals are renamed apart by def-use web (webs.py), so that reusing a name for an unrelated value does not matter;
    `x op= e` on a plain name is `x = x op e`;
  * straight-line dataflow: a local bound to a side-effect free expression is replaced by that expression at its uses (temporaries do not
    matter, nor does the order of independent pure assignments); unused pure bindings disappear; a name bound (possibly several times) inside
    a loop body, each time before it is read, is a temporary of that iteration;
  * whatever is about to change is settled first: before a variable is rebound, an object mutated (store; a mutating method called anywhere
    in a statement's own expressions -- `u = ms.pop()`, `return (ms.append(1), t)`, `if stack.pop():`, `[c.add(1) for c in both]`; a call made
    as a statement: the object it is a method of and everything it is given), or a loop / try / with entered that may do either, every pending
    expression that mentions it is bound to a variable of its own; an alias (`b = a`) keeps the value when `a` is rebound and stays an alias when
    the object is only mutated; the variable of a `for` loop may be (part of) anything the iterable holds -- a mutation through it settles what was
    read from the iterable's root, except the iterable path itself and its prefixes (`t.subgroup` is still that object); rebinding a name a
    nested function reads settles the results of earlier calls; the two arms of a conditional are explored from the same knowledge (what one arm
    makes uncertain or aliases is no business of the other) and both arms' uncertainties hold afterwards;
  * conditionals: tests are made positive (`not`, `!=`, `is not`, `not in` swap the arms; of a connective and its De Morgan dual the one with
    fewer negated operands is kept; comparisons of evidently integer values use `<` only; the truth value of a list display is `len != 0`);
    when an arm of an `if` can leave the block, or has effects and leaves different live bindings behind, the statements after the `if` are
    continued inside both arms (early return == else branch; a common tail is moved back out; `if A: (if B: X else R) else R` is `if A and B`);
    when the arms have no effects a name bound differently in the two arms becomes a conditional expression; every conditional expression
    is lifted out of the effect it occurs in; tests already decided on a path prune nested occurrences, and are forgotten as soon as
    something they mention changes;
  * loops that only build a list / dict, append every item, look for a witness (`return` inside, or `break` with `else`) are the
    comprehension / `extend` / `any` they spell out; `if c: continue` at the top of a loop body guards the rest; `min`/`max` of two values are
    the conditional expressions the builtins compute; `d.setdefault(k, v)` as a statement is `if k not in d: d[k] = v`;
  * a loop over a short literal display without break / continue / else is the sequence of its bodies; `for t in (E for x in S if c)` is the fused loop;
    `enumerate(S, k)` counts `j + k`; `for k, v in filter(itemgetter(1), X)` is `for k, v in X if v`; a conditional operand of an arithmetic operation is moved
    outwards (`(a if c else b) + r` is `(a + r) if c else (b + r)`); `try: return E` is `try: v = E` / else `return v`; imports are bindings;
  * arithmetic is flattened: a - b = a + (-1)*b, a / b = a * b**-1, numeric factors collected, operands of * sorted, operands of + sorted when
    the sum is evidently numeric (a number, product, power or quotient occurs in it); a > b is b < a;
  * calls to loop-free helper functions that exist on one side only, or are small and identical on both sides, are replaced by their value;
  * module-level names bound once to a number literal are replaced by the literal;
  * docstrings, `pass`, and the message text of `raise X(msg)` / `warnings.warn(msg)` are dropped (exception and warning *types* stay);
  * variables that stay variables are numbered by first occurrence in the finished form, comprehension variables by position.
Assumptions: evaluating an expression other than a call of a mutating method (MUTATORS, IMPURE_FUNCS) has no side effect whose order matters
and does not raise -- so it may be evaluated later, on another path, or (when nothing uses it) not at all; in particular a call whose *value is
used* (`u = g(ms)`, `self.refresh() + 1`) is taken not to change what other expressions read, and attribute / item reads are plain field reads
(no properties with effects); inside a `try` body with handlers the no-raise part is *not* assumed (every evaluation there is kept as an
effect in its place); `*` commutes (numbers, arrays, quantities); real-number algebra (re-association
may change the last bits of a floating point result); unpacking `a, b = e` reads e[0], e[1]; a generator expression is consumed where it is
written.  tools/nf_fuzz.py tests "equal normal forms => same behaviour" by executing generated programs; tools/nf_regress.py keeps the pairs
that were once conflated apart; tools/mutscan.py NFCHECK and tools/nf_twins.py probe it on the package's own functions.
"""
from __future__ import annotations

import ast
from fractions import Fraction
from typing import Dict, List, Optional

from . import webs

F = Fraction
OP = "\x00v:"   # prefix of a name that stays a variable

MUTATORS = {"append", "extend", "update", "pop", "remove", "add", "insert", "sort", "reverse", "clear", "setdefault", "popitem", "discard", "warn",
            "setParseAction", "setResultsName", "__setitem__", "write"}
IMPURE_FUNCS = {"next", "print", "setattr", "exec", "eval", "input", "open", "delattr", "\x00import", "\x00importfrom"}
CONSUMERS = {"tuple", "list", "set", "frozenset", "sum", "any", "all", "sorted", "min", "max", "dict", "OrderedDict", "reduce"}
SIZED_RESULT_METHODS = {"split", "rsplit", "splitlines", "findall", "keys", "values", "items", "strip", "lstrip", "rstrip", "partition", "rpartition"}   # results with a length: true iff not empty
NUMERIC_FUNCS = {"exp", "log", "log10", "log2", "sqrt", "float", "int", "sum", "len", "abs", "min", "max", "sin", "cos", "tanh", "atanh", "arctanh", "floor", "round", "Fraction"}
MAX_EFFECTS = 6000
MAX_EXPR_NODES = 10000
MAX_WORK = 200000    # statements walked (continuations are walked once per path)


class Unsupported(Exception):
    pass


def _const_key(v):
    return ("k", type(v).__name__, repr(v))


def _literal_seq(n):
    """elements of a literal tuple/list or the characters of a string constant (None otherwise)"""
    if isinstance(n, (ast.Tuple, ast.List)) and not any(isinstance(e, ast.Starred) for e in n.elts):
        return list(n.elts)
    if isinstance(n, ast.Constant) and isinstance(n.value, str):
        return [ast.Constant(value=ch) for ch in n.value]
    if isinstance(n, ast.Call) and isinstance(n.func, ast.Attribute) and n.func.attr == "split" and not n.args and not n.keywords \
            and isinstance(n.func.value, ast.Constant) and isinstance(n.func.value.value, str):
        return [ast.Constant(value=w) for w in n.func.value.value.split()]   # "M CM D".split()
    return None


def _bound_names(t) -> set:
    return {x.id for x in ast.walk(t) if isinstance(x, ast.Name)}


def _next_bound_index(benv):
    """index for a newly bound comprehension / lambda variable: above every index in use (counting the entries is not enough: an inner
    comprehension that re-uses the names of the outer one replaces their entries, and two of its variables would share an index)"""
    return 1 + max((x[1] for x in benv.values() if isinstance(x, tuple) and len(x) == 2 and x[0] == "c" and isinstance(x[1], int)), default=-1)


class Normaliser:
    def __init__(self, fn, module_consts: Optional[dict] = None, helpers: Optional[dict] = None, depth: int = 0, methods: Optional[dict] = None):
        self.methods = {k_: _prepassed_helper(h_) for k_, h_ in (methods or {}).items()} if depth == 0 else (methods or {})
        self.consts = module_consts or {}
        self.helpers = {k_: _prepassed_helper(h_) for k_, h_ in (helpers or {}).items()} if depth == 0 else (helpers or {})
        self.depth = depth
        self.n_eff = 0
        self.work = 0
        self.sunk = False
        self.in_try = 0      # > 0 while the body of a try with handlers is being walked: evaluating an expression there may be the point
        self.decided: Dict[str, bool] = {}   # path condition: key of a test's positive core (tkey) -> its value on the current path
        self._tkeys: Dict[str, tuple] = {}
        self._tk_by_id: Dict[int, tuple] = {}
        self._key_form: Dict[str, tuple] = {}
        self._names_cache: Dict[int, tuple] = {}
        self.live_stack: List[Optional[set]] = [set()]   # names read after the block being walked returns to its caller (None: unknown, all)
        self._inval: List[str] = []          # keys dropped from `decided` because something they mention changed
        self.vnum: Dict[str, tuple] = {}     # variables that stay variables are numbered in the order they are first bound
        fn = _imports_as_bindings(fn)
        fn = _unroll_literal_loops(fn)
        fn = inline_procedures(fn, self.helpers, self.methods) if depth == 0 else fn
        fn = webs.split(fn)
        fn = prepass(fn)
        self.fn = fn
        self.scope = _scope_names(fn)
        a_ = fn.args
        self.params = {p.arg for p in a_.posonlyargs + a_.args + a_.kwonlyargs} | ({a_.vararg.arg} if a_.vararg else set()) | ({a_.kwarg.arg} if a_.kwarg else set())
        self.captured = set()   # names read inside nested defs/classes: always emitted as bindings
        self.mutated = set()    # local names whose object is mutated (stores into it, mutator method calls)
        for n in ast.walk(fn):
            if isinstance(n, (ast.Global, ast.Nonlocal)):
                raise Unsupported("global/nonlocal")
            if isinstance(n, ast.Delete):
                raise Unsupported("del")
            if isinstance(n, (ast.FunctionDef, ast.AsyncFunctionDef, ast.ClassDef)) and n is not fn:
                if isinstance(n, ast.FunctionDef) and self.helpers.get(n.name) is not None and self._same_def(self.helpers[n.name], n):
                    continue   # a helper that exists on this side only: its calls are inlined
                seen = set()

                def names_of(node, lvl=0):
                    # what a nested function reads from the enclosing scopes: its free names (its own locals and parameters are its own business);
                    # for a nested class, conservatively, every name in it
                    free = _free_names(node) if isinstance(node, (ast.FunctionDef, ast.AsyncFunctionDef)) else {x.id for x in ast.walk(node) if isinstance(x, ast.Name)}
                    for nm_ in free:
                        self.captured.add(nm_)
                        h = self.helpers.get(nm_)
                        if h is not None and nm_ not in seen and lvl < 4 and _defined_in(fn, h):
                            seen.add(nm_)
                            names_of(h, lvl + 1)   # the nested function reads what a one-sided helper it calls reads
                names_of(n)
        for n in ast.walk(fn):
            if isinstance(n, (ast.Assign, ast.AugAssign, ast.AnnAssign)):
                tg = n.targets if isinstance(n, ast.Assign) else [n.target]
                for t in tg:
                    for x in ast.walk(t):
                        if isinstance(x, (ast.Subscript, ast.Attribute)):
                            r = self._root(x)
                            if r is not None:
                                self.mutated.add(r)
            elif isinstance(n, ast.Call) and isinstance(n.func, ast.Attribute) and n.func.attr in MUTATORS:
                r = self._root(n.func.value)
                if r is not None:
                    self.mutated.add(r)
        self.mutated |= _mutated_names(fn, self._root)
        self.alias: Dict[str, str] = {}   # dynamic: closed names that may denote the same object (union-find)
        self.item_paths: Dict[str, set] = {}   # closed loop variable -> dumps of the path it ranges over and of that path's prefixes

    def alias_find(self, x):
        a = self.alias
        a.setdefault(x, x)
        while a[x] != x:
            a[x] = a[a[x]]
            x = a[x]
        return x

    def alias_link(self, x, y):
        self.alias[self.alias_find(x)] = self.alias_find(y)

    def aliases_of(self, names) -> set:
        """the given closed names together with every name that may denote the same object"""
        if not self.alias:
            return set(names)
        roots = {self.alias_find(n_) for n_ in names if n_ in self.alias}
        if not roots:
            return set(names)
        return set(names) | {n_ for n_ in list(self.alias) if self.alias_find(n_) in roots}

    @staticmethod
    def _same_def(a, b):
        return a.name == b.name and getattr(a, "lineno", None) == getattr(b, "lineno", None)

    @staticmethod
    def _root(x):
        while isinstance(x, (ast.Subscript, ast.Attribute, ast.Call)):
            x = x.func if isinstance(x, ast.Call) else x.value
        return x.id if isinstance(x, ast.Name) else None

    def vform(self, name):
        """form of a local that stays a variable: numbered by first binding, unless a nested function refers to it by name"""
        if name in self.captured:
            return ("v", name)
        if name not in self.vnum:
            self.vnum[name] = ("v", len(self.vnum))
        return self.vnum[name]

    # ================================================================================================ substitution (AST level)
    def subst(self, node, env, bound=frozenset()):
        """copy of an expression with every local replaced by the (closed) expression it is bound to"""
        if node is None:
            return None
        if isinstance(node, ast.Name):
            if isinstance(node.ctx, ast.Load) and node.id not in bound and node.id in env:
                return env[node.id]
            if isinstance(node.ctx, ast.Load) and node.id not in bound and node.id in self.helpers and self.depth < 3:
                lam = self.helper_as_lambda(self.helpers[node.id], env)
                if lam is not None:
                    return lam   # a one-sided expression helper used as a value (e.g. handed to setParseAction) is the lambda it spells out
            return node
        if isinstance(node, ast.Constant):
            return node
        if isinstance(node, ast.Lambda):
            a = node.args
            names = {p.arg for p in a.posonlyargs + a.args + a.kwonlyargs} | ({a.vararg.arg} if a.vararg else set()) | ({a.kwarg.arg} if a.kwarg else set())
            new_args = ast.arguments(posonlyargs=a.posonlyargs, args=a.args, vararg=a.vararg, kwonlyargs=a.kwonlyargs,
                                     kw_defaults=[self.subst(d, env, bound) for d in a.kw_defaults], kwarg=a.kwarg,
                                     defaults=[self.subst(d, env, bound) for d in a.defaults])
            return ast.Lambda(args=new_args, body=self.subst(node.body, env, bound | names))
        if isinstance(node, (ast.ListComp, ast.SetComp, ast.GeneratorExp, ast.DictComp)):
            b = bound
            gens = []
            for g in node.generators:
                it = self.subst(g.iter, env, b)
                b = b | _bound_names(g.target)
                gens.append(ast.comprehension(target=g.target, iter=it, ifs=[self.subst(c, env, b) for c in g.ifs], is_async=g.is_async))
            if isinstance(node, ast.DictComp):
                out = ast.DictComp(key=self.subst(node.key, env, b), value=self.subst(node.value, env, b), generators=gens)
            else:
                out = type(node)(elt=self.subst(node.elt, env, b), generators=gens)
            return _Prepass()._flatten_gens(out)   # a temporary that held `tuple(y for y in S if c)` has just been put in place
        if isinstance(node, ast.NamedExpr):
            raise Unsupported("walrus")
        if isinstance(node, ast.Call) and self.depth < 3:
            f = node.func
            if isinstance(f, ast.Name) and f.id not in bound and isinstance(env.get(f.id), ast.Name) and env[f.id].id in self.helpers and env[f.id].id not in env:
                # a local that simply is a helper function (e.g. the parameter of an inlined procedure bound to it)
                f = env[f.id]
                node = ast.Call(func=f, args=node.args, keywords=node.keywords)
            helper, bself = None, None
            if isinstance(f, ast.Name) and f.id in self.helpers and f.id not in bound and f.id not in env:
                helper = self.helpers[f.id]
            elif isinstance(f, ast.Attribute) and isinstance(f.value, ast.Name) and f.value.id in ("self", "cls") and f.attr in self.methods:
                helper, bself = self.methods[f.attr], f.value
            if helper is not None:
                r = self.inline_ast(helper, node, env, bound, bself)
                if r is not None:
                    return r
        new = type(node)()
        for fld, val in ast.iter_fields(node):
            if isinstance(val, ast.AST):
                setattr(new, fld, self.subst(val, env, bound))
            elif isinstance(val, list):
                setattr(new, fld, [self.subst(x, env, bound) if isinstance(x, ast.AST) else x for x in val])
            else:
                setattr(new, fld, val)
        if isinstance(new, ast.Call) and isinstance(new.func, ast.Lambda):
            red = self.beta(new)
            if red is not None:
                return red
        return _hoist_ifexp(_fold_literal(new))

    def helper_as_lambda(self, helper, env):
        a = helper.args
        if a.vararg or a.kwarg or a.kwonlyargs or a.posonlyargs or a.defaults or helper.decorator_list or not _is_simple_helper(helper):
            return None
        if not _defined_in(self.fn, helper) and (_free_names(helper) & self.scope):
            return None
        params = [p_.arg for p_ in a.args]
        henv = {k: v for k, v in env.items() if k not in params} if _defined_in(self.fn, helper) else {}
        self.depth += 1
        try:
            body = self._value_of(_body(helper), henv)
        finally:
            self.depth -= 1
        if body is None:
            return None
        return ast.Lambda(args=ast.arguments(posonlyargs=[], args=[ast.arg(arg=p_) for p_ in params], vararg=None, kwonlyargs=[], kw_defaults=[], kwarg=None, defaults=[]), body=body)

    def beta(self, call):
        """(lambda p, q: body)(a, b) with plain positional parameters and side-effect free arguments is body[p := a, q := b]"""
        lam = call.func
        a = lam.args
        if a.vararg or a.kwarg or a.kwonlyargs or a.posonlyargs or a.defaults or call.keywords or len(a.args) != len(call.args) \
                or any(isinstance(x, ast.Starred) for x in call.args) or not all(self.pure(x) for x in call.args):
            return None
        params = [p_.arg for p_ in a.args]
        inner = set()
        for x in ast.walk(lam.body):
            if isinstance(x, ast.comprehension):
                inner |= _bound_names(x.target)
            elif isinstance(x, ast.Lambda):
                inner |= {p_.arg for p_ in x.args.posonlyargs + x.args.args + x.args.kwonlyargs}
        if any(isinstance(x, ast.Name) and x.id in inner for v in call.args for x in ast.walk(v)) or (set(params) & inner):
            return None   # an argument would be captured by a binder inside the body
        return self.subst(lam.body, dict(zip(params, call.args)))

    def inline_ast(self, helper, call, env, bound, bound_self=None):
        """the value of a call of a loop-free helper as an expression (None when the helper is not of that simple kind)"""
        a = helper.args
        if a.vararg or a.kwarg or a.kwonlyargs or a.posonlyargs:
            return None
        free = _free_names(helper)
        if free & bound:
            return None   # a name the helper reads is rebound by the comprehension / lambda the call sits in
        if not _defined_in(self.fn, helper) and (free & self.scope):
            return None   # a global the helper reads has the name of a local of the caller: substitution would capture it
        inner = set()     # names bound by comprehensions / lambdas inside the helper: an argument mentioning one of them would be captured
        for x in ast.walk(helper):
            if isinstance(x, ast.comprehension):
                inner |= _bound_names(x.target)
            elif isinstance(x, ast.Lambda):
                inner |= {p_.arg for p_ in x.args.posonlyargs + x.args.args + x.args.kwonlyargs}
        for x in ast.walk(helper):
            if x is not helper and isinstance(x, (ast.For, ast.While, ast.Try, ast.With, ast.Yield, ast.YieldFrom, ast.FunctionDef, ast.AsyncFunctionDef, ast.Raise, ast.Assert)):
                return None
        if any(isinstance(x, ast.Starred) for x in call.args) or any(k.arg is None for k in call.keywords):
            return None
        names = [p.arg for p in a.args]
        henv = dict(env)
        given = {}
        if bound_self is not None:
            if not names:
                return None
            given[names[0]] = bound_self
            names = names[1:]
        if len(call.args) > len(names):
            return None
        for p, v in zip(names, call.args):
            given[p] = self.subst(v, env, bound)
        for k in call.keywords:
            if k.arg not in names or k.arg in given:
                return None
            given[k.arg] = self.subst(k.value, env, bound)
        defaults = dict(zip([p.arg for p in a.args][len(a.args) - len(a.defaults):], a.defaults))
        for p in names:
            if p not in given:
                if p not in defaults:
                    return None
                given[p] = defaults[p]
        if inner and any(isinstance(x, ast.Name) and x.id in inner for v in given.values() for x in ast.walk(v)):
            return None
        henv.update(given)
        self.depth += 1
        try:
            return self._value_of(_body(helper), henv)
        finally:
            self.depth -= 1

    def _value_of(self, stmts, henv):
        for i, st in enumerate(stmts):
            if isinstance(st, ast.Pass) or (isinstance(st, ast.Expr) and isinstance(st.value, ast.Constant)):
                continue
            if isinstance(st, ast.Assign) and len(st.targets) == 1 and isinstance(st.targets[0], ast.Name) and self.pure(st.value):
                henv = dict(henv)
                henv[st.targets[0].id] = self.subst(st.value, henv)
                continue
            if isinstance(st, ast.Return):
                return self.subst(st.value, henv) if st.value is not None else ast.Constant(value=None)
            if isinstance(st, ast.If):
                rest = list(stmts[i + 1:])
                a_ = self._value_of(list(st.body) + rest, henv)
                b_ = self._value_of(list(st.orelse) + rest, henv)
                if a_ is None or b_ is None:
                    return None
                return ast.IfExp(test=self.subst(st.test, henv), body=a_, orelse=b_)
            return None
        return ast.Constant(value=None)

    # ================================================================================================ expressions -> forms
    def ex(self, n, benv=None) -> tuple:
        """form of a closed expression; benv maps names bound inside the expression (comprehension / lambda) to their forms"""
        benv = benv or {}
        if isinstance(n, ast.Constant):
            if isinstance(n.value, (int, float)) and not isinstance(n.value, bool):
                return self.alg(n, benv)
            return _const_key(n.value)
        if isinstance(n, ast.Name):
            if n.id in benv:
                return benv[n.id]
            if n.id.startswith(OP):
                return self.vform(n.id[len(OP):])
            if n.id in self.consts:
                return self.ex(self.consts[n.id], {})
            return ("n", n.id)
        if isinstance(n, ast.Attribute):
            return (".", self.ex(n.value, benv), n.attr)
        if isinstance(n, ast.Subscript):
            return ("[]", self.ex(n.value, benv), self.ex(n.slice, benv))
        if isinstance(n, ast.Slice):
            return ("slice", self.exo(n.lower, benv), self.exo(n.upper, benv), self.exo(n.step, benv))
        if isinstance(n, ast.Call):
            return self.call(n, benv)
        if isinstance(n, ast.BinOp):
            if isinstance(n.op, (ast.Add, ast.Sub, ast.Mult, ast.Div, ast.Pow)):
                return self.alg(n, benv)
            if isinstance(n.op, ast.Mod) and (isinstance(n.left, ast.Constant) and isinstance(n.left.value, str)):
                return ("fmt", self.ex(n.left, benv), self.ex(n.right, benv))
            return ("bin", type(n.op).__name__, self.ex(n.left, benv), self.ex(n.right, benv))
        if isinstance(n, ast.UnaryOp):
            if isinstance(n.op, (ast.USub, ast.UAdd)):
                return self.alg(n, benv)
            if isinstance(n.op, ast.Not):
                pos, t = self.test(n.operand, benv)
                return t if not pos else ("not", t)
            return ("un", type(n.op).__name__, self.ex(n.operand, benv))
        if isinstance(n, ast.Compare):
            pos, t = self.test(n, benv)
            return t if pos else ("not", t)
        if isinstance(n, ast.BoolOp):
            parts = [self.test(v, benv) for v in n.values]
            if all((not p_) or self.boolish(t_) for p_, t_ in parts):
                # every operand is a truth value: the connective yields a truth value, De Morgan applies
                pos, t = _bool_form(type(n.op).__name__, parts)
                return t if pos else ("not", t)
            # `a or b` / `a and b` as a value: one of the operands itself is the result -- only nesting is normalised
            flat = []
            for v in n.values:
                f_ = self.ex(v, benv)
                if isinstance(f_, tuple) and len(f_) == 3 and f_[0] in ("boolv", "bool") and f_[1] == type(n.op).__name__:
                    flat.extend(f_[2])   # (a or b) or c  ==  a or (b or c): the first truthy / falsy operand either way
                else:
                    flat.append(f_)
            return ("boolv", type(n.op).__name__, tuple(flat))
        if isinstance(n, ast.IfExp):
            pos, t = self.test(n.test, benv)
            a, b = self.ex(n.body, benv), self.ex(n.orelse, benv)
            if not pos:
                a, b = b, a
            return a if a == b else ("ifexp", t, a, b)
        if isinstance(n, (ast.Tuple, ast.List, ast.Set)):
            return (type(n).__name__, tuple(self.ex(e, benv) for e in n.elts))
        if isinstance(n, ast.Dict):
            return ("Dict", tuple((self.exo(k, benv), self.ex(v, benv)) for k, v in zip(n.keys, n.values)))
        if isinstance(n, ast.Starred):
            return ("*", self.ex(n.value, benv))
        if isinstance(n, (ast.ListComp, ast.SetComp, ast.GeneratorExp, ast.DictComp)):
            e2 = dict(benv)
            gens = []
            for g in n.generators:
                it = self.ex(g.iter, e2)
                tv = self.bind_target(g.target, e2)
                conds = []
                for c in g.ifs:   # `if a and b` is `if a if b`
                    pos_, t_ = self.test(c, e2)
                    if pos_ and isinstance(t_, tuple) and len(t_) == 3 and t_[0] == "bool" and t_[1] == "And":
                        conds.extend(t_[2])
                    elif not pos_ and isinstance(t_, tuple) and len(t_) == 3 and t_[0] == "bool" and t_[1] == "Or":
                        conds.extend(o_[1] if (isinstance(o_, tuple) and len(o_) == 2 and o_[0] == "not") else ("not", o_) for o_ in t_[2])   # not (a or b) is `if not a if not b`
                    else:
                        conds.append(t_ if pos_ else ("not", t_))
                gens.append((tv, it, tuple(conds)))
            if isinstance(n, ast.DictComp):
                return ("comp", "dict", ("kv", self.ex(n.key, e2), self.ex(n.value, e2)), tuple(gens))
            kind = {"ListComp": "list", "SetComp": "set", "GeneratorExp": "gen"}[type(n).__name__]
            return ("comp", kind, self.ex(n.elt, e2), tuple(gens))
        if isinstance(n, ast.Lambda):
            e2 = dict(benv)
            ps = []
            a = n.args
            for p in a.posonlyargs + a.args + a.kwonlyargs + ([a.vararg] if a.vararg else []) + ([a.kwarg] if a.kwarg else []):
                v = ("c", _next_bound_index(e2))
                e2[p.arg] = v
                ps.append(v)
            return ("lambda", tuple(ps), tuple(self.ex(d, benv) for d in a.defaults), self.ex(n.body, e2))
        if isinstance(n, ast.JoinedStr):
            return ("fstr", tuple(self.ex(v, benv) for v in n.values))
        if isinstance(n, ast.FormattedValue):
            return ("fval", self.ex(n.value, benv), n.conversion, self.exo(n.format_spec, benv))
        if isinstance(n, (ast.Yield, ast.YieldFrom, ast.Await)):
            raise Unsupported("yield/await inside an expression")
        raise Unsupported(type(n).__name__)

    def exo(self, n, benv):
        return None if n is None else self.ex(n, benv)

    def bind_target(self, t, benv):
        if isinstance(t, ast.Name):
            v = ("c", _next_bound_index(benv))
            benv[t.id] = v
            return v
        if isinstance(t, (ast.Tuple, ast.List)):
            return ("T", tuple(self.bind_target(e, benv) for e in t.elts))
        if isinstance(t, ast.Starred):
            return ("*", self.bind_target(t.value, benv))
        raise Unsupported("binding target")

    def call(self, n, benv):
        f = n.func
        if any(isinstance(a, ast.Starred) and isinstance(a.value, (ast.Tuple, ast.List)) for a in n.args):
            flat = []
            for a in n.args:   # f(*(a, b)) is f(a, b)
                flat.extend(a.value.elts if isinstance(a, ast.Starred) and isinstance(a.value, (ast.Tuple, ast.List)) else [a])
            n = ast.Call(func=n.func, args=flat, keywords=n.keywords)
        if len(n.args) >= 2 and any(getattr(a, "_unpack_arity", None) for a in n.args):
            # f(e[0], e[1]) with e[0], e[1] the items of `a, b = e` (all of them, in order) is f(*e): the unpacking already says that e has exactly these items
            new_args, i_ = [], 0
            while i_ < len(n.args):
                a0 = n.args[i_]
                k_ = getattr(a0, "_unpack_arity", None)
                if k_ and i_ + k_ <= len(n.args) and isinstance(a0, ast.Subscript):
                    run = n.args[i_:i_ + k_]
                    base = ast.dump(a0.value)
                    if all(isinstance(r_, ast.Subscript) and getattr(r_, "_unpack_arity", None) == k_ and isinstance(r_.slice, ast.Constant) and r_.slice.value == j_
                           and ast.dump(r_.value) == base for j_, r_ in enumerate(run)) and _ast_pure(a0.value):
                        new_args.append(ast.Starred(value=a0.value, ctx=ast.Load()))
                        i_ += k_
                        continue
                new_args.append(a0)
                i_ += 1
            if len(new_args) != len(n.args):
                n = ast.Call(func=n.func, args=new_args, keywords=n.keywords)
        if isinstance(f, ast.Name) and f.id == "map" and "map" not in benv:
            g = _map_as_genexp(n, self)
            if g is not n:
                return self.ex(g, benv)
        if isinstance(f, ast.Name) and f.id in self.helpers and f.id not in benv and self.depth < 3:
            r = self.inline(self.helpers[f.id], n, benv)
            if r is not None:
                return r
        if isinstance(f, ast.Attribute) and isinstance(f.value, ast.Name) and f.value.id in ("self", "cls") and f.attr in self.methods and not benv and self.depth < 3:
            r = self.inline(self.methods[f.attr], n, benv, bound_self=f.value)
            if r is not None:
                return r
        fname = f.id if isinstance(f, ast.Name) else None
        if fname == "zip" and n.args and not n.keywords:
            seqs = [_literal_seq(a) for a in n.args]
            if all(q is not None for q in seqs) and len({len(q) for q in seqs}) == 1:
                return ("Tuple", tuple(("Tuple", tuple(self.ex(e, benv) for e in row)) for row in zip(*seqs)))
        if fname == "all" and len(n.args) == 1 and not n.keywords and isinstance(n.args[0], (ast.GeneratorExp, ast.ListComp)):
            g = n.args[0]
            neg = ast.GeneratorExp(elt=ast.UnaryOp(op=ast.Not(), operand=g.elt), generators=g.generators)
            return ("not", self.ex(ast.Call(func=ast.Name(id="any", ctx=ast.Load()), args=[neg], keywords=[]), benv))
        args = [self.ex(a, benv) for a in n.args]
        if (fname in CONSUMERS or (isinstance(f, ast.Attribute) and f.attr == "join")) and args and isinstance(args[0], tuple) and args[0] and args[0][0] == "comp" and args[0][1] == "list":
            args[0] = ("comp", "gen") + args[0][2:]   # the consumer only iterates: a list comprehension and a generator expression coincide
        if fname == "reduce" and len(args) >= 2 and isinstance(args[1], tuple) and args[1] and args[1][0] == "comp" and args[1][1] == "list":
            args[1] = ("comp", "gen") + args[1][2:]   # reduce(f, [..]) only iterates its second argument
        if fname in ("isinstance", "issubclass") and len(args) == 2 and isinstance(args[1], tuple) and len(args[1]) == 2 and args[1][0] == "Tuple" and len(args[1][1]) == 1:
            args[1] = args[1][1][0]   # a one-element tuple of classes is that class
        if fname in ("list", "set") and fname not in benv and len(args) == 1 and not n.keywords and isinstance(args[0], tuple) and args[0] and args[0][0] == "comp" and args[0][1] in ("gen", "list"):
            return ("comp", fname) + args[0][2:]   # list(e for ...) is [e for ...]
        if fname in ("dict", "OrderedDict") and fname not in benv and len(args) == 1 and not n.keywords and isinstance(args[0], tuple) and len(args[0]) == 4 and args[0][0] == "comp":
            c_ = args[0]
            if c_[1] in ("gen", "list") and isinstance(c_[2], tuple) and len(c_[2]) == 2 and c_[2][0] == "Tuple" and len(c_[2][1]) == 2:
                # a mapping built from (key, value) pairs is the mapping built entry by entry: same keys, same order, the last value of a repeated key
                args[0] = c_ = ("comp", "dict", ("kv", c_[2][1][0], c_[2][1][1]), c_[3])
            if fname == "dict" and c_[1] == "dict":
                return c_     # dict({k: v for ...}) is a new dict with the same entries
        if isinstance(f, ast.Attribute) and f.attr == "fromkeys" and isinstance(f.value, ast.Name) and f.value.id == "dict" and "dict" not in benv \
                and len(n.args) in (1, 2) and not n.keywords and (len(n.args) == 1 or isinstance(n.args[1], ast.Constant)):
            # dict.fromkeys(s, c) with a constant c is {k: c for k in s}
            e2 = dict(benv)
            tv = self.bind_target(ast.Name(id="\x00fromkeys", ctx=ast.Store()), e2)
            return ("comp", "dict", ("kv", tv, self.ex(n.args[1], benv) if len(n.args) == 2 else self.ex(ast.Constant(value=None), benv)), ((tv, args[0], ()),))
        kws = [(k.arg, self.ex(k.value, benv)) for k in n.keywords]
        fn_form = self.ex(f, benv)
        if fn_form == (".", ("n", "warnings"), "warn") and args:
            args = [("msg",)] + args[1:]
        return ("call", fn_form, tuple(args), tuple(sorted(kws, key=repr)))

    def inline(self, helper, call, benv, bound_self=None):
        """value of a call of a loop-free helper that exists on this side only (None when it cannot be inlined)"""
        a = helper.args
        if a.vararg or a.kwarg or a.kwonlyargs or a.posonlyargs:
            return None
        if not _defined_in(self.fn, helper) and (_free_names(helper) & self.scope):
            return None
        for x in ast.walk(helper):
            if x is not helper and isinstance(x, (ast.For, ast.While, ast.Try, ast.With, ast.Yield, ast.YieldFrom, ast.FunctionDef, ast.AsyncFunctionDef)):
                return None
        if any(isinstance(x, ast.Starred) for x in call.args) or any(k.arg is None for k in call.keywords) or benv:
            return None
        names = [p.arg for p in a.args]
        env = {}
        if bound_self is not None:
            if not names:
                return None
            env[names[0]] = bound_self
            names = names[1:]
        if len(call.args) > len(names):
            return None
        for p, v in zip(names, call.args):
            env[p] = v
        for k in call.keywords:
            if k.arg not in names or k.arg in env:
                return None
            env[k.arg] = k.value
        defaults = dict(zip(names[len(names) - len(a.defaults):], a.defaults))
        for p in names:
            if p not in env:
                if p not in defaults:
                    return None
                env[p] = defaults[p]
        sub = Normaliser(helper, self.consts, self.helpers, self.depth + 1, self.methods)
        try:
            eff, _ = sub.block(_body(sub.fn), env, ())
        except Unsupported:
            return None
        return _as_value(eff)

    # ---------------------------------------------------------------------------------------------------------------- tests
    def test(self, n, benv=None):
        """(positive?, form of the positive version of the test)"""
        benv = benv or {}
        if isinstance(n, ast.UnaryOp) and isinstance(n.op, ast.Not):
            pos, t = self.test(n.operand, benv)
            return (not pos), t
        if isinstance(n, ast.Compare) and len(n.ops) == 1:
            l, r = self.ex(n.left, benv), self.ex(n.comparators[0], benv)
            op = type(n.ops[0]).__name__
            neg = {"NotEq": "Eq", "IsNot": "Is", "NotIn": "In"}
            pos = True
            if op in neg:
                op, pos = neg[op], False
            if op in ("Gt", "GtE"):
                op, l, r = {"Gt": "Lt", "GtE": "LtE"}[op], r, l
            if op == "Lt" and _len_of_set_and_list(l, r):
                op, pos = "Eq", not pos     # a set of the items is never larger than their list: `len(set) < len(list)` is `len(set) != len(list)`
            if op in ("Eq", "Is") and repr(l) > repr(r):
                l, r = r, l
            return pos, ("cmp", op, l, r)
        if isinstance(n, ast.Compare):
            parts = [self.ex(n.left, benv)]
            for op, c in zip(n.ops, n.comparators):
                parts.append(type(op).__name__)
                parts.append(self.ex(c, benv))
            return True, ("cmpchain", tuple(parts))
        if isinstance(n, ast.BoolOp):
            return _bool_form(type(n.op).__name__, [self.test(v, benv) for v in n.values])
        if isinstance(n, ast.IfExp) and any(isinstance(x, ast.Constant) and isinstance(x.value, bool) for x in (n.body, n.orelse)):
            # as a truth value: `True if a else b` is `a or b`, `False if a else b` is `not a and b`, `b if a else True` is `not a or b`, `b if a else False` is `a and b`
            neg = ast.UnaryOp(op=ast.Not(), operand=n.test)
            if isinstance(n.body, ast.Constant) and isinstance(n.body.value, bool):
                new = ast.BoolOp(op=ast.Or(), values=[n.test, n.orelse]) if n.body.value else ast.BoolOp(op=ast.And(), values=[neg, n.orelse])
            else:
                new = ast.BoolOp(op=ast.Or(), values=[neg, n.body]) if n.orelse.value else ast.BoolOp(op=ast.And(), values=[n.test, n.body])
            return self.test(new, benv)
        if isinstance(n, (ast.ListComp, ast.List, ast.Dict, ast.DictComp, ast.Set, ast.SetComp, ast.Tuple)) or \
                (isinstance(n, ast.Call) and isinstance(n.func, ast.Name) and n.func.id in ("list", "dict", "tuple", "set", "sorted", "frozenset") and n.func.id not in benv) or \
                (isinstance(n, ast.Call) and isinstance(n.func, ast.Attribute) and n.func.attr in SIZED_RESULT_METHODS):
            # the truth value of a list / dict / tuple / set is "not empty"
            pos, t = self.test(ast.Compare(left=ast.Call(func=ast.Name(id="len", ctx=ast.Load()), args=[n], keywords=[]), ops=[ast.Eq()], comparators=[ast.Constant(value=0)]), benv)
            return (not pos), t
        f = self.ex(n, benv)
        if isinstance(f, tuple) and f and f[0] == "not":
            return False, f[1]
        return True, f

    # -------------------------------------------------------------------------------------------------------------- algebra
    def alg(self, node, benv):
        numeric_hint = [False]

        def lift(n):
            if isinstance(n, ast.Constant) and isinstance(n.value, (int, float)) and not isinstance(n.value, bool):
                numeric_hint[0] = True
                v = n.value
                if isinstance(v, float) and (v != v or v in (float("inf"), float("-inf"))):
                    return [(F(1), {("k", "float", repr(v)): F(1)}, True)]
                return [(F(repr(v)) if isinstance(v, float) else F(v), {}, isinstance(v, float))]
            if isinstance(n, ast.Name) and n.id in self.consts and n.id not in benv:
                return lift(self.consts[n.id])
            if isinstance(n, ast.UnaryOp) and isinstance(n.op, ast.USub):
                numeric_hint[0] = True
                return [(-c, p, fl) for c, p, fl in lift(n.operand)]
            if isinstance(n, ast.UnaryOp) and isinstance(n.op, ast.UAdd):
                return lift(n.operand)
            if isinstance(n, ast.BinOp) and isinstance(n.op, (ast.Add, ast.Sub)):
                l, r = lift(n.left), lift(n.right)
                if isinstance(n.op, ast.Sub):
                    numeric_hint[0] = True
                    r = [(-c, p, fl) for c, p, fl in r]
                return l + r
            if isinstance(n, ast.BinOp) and isinstance(n.op, (ast.Mult, ast.Div)):
                seqlike = lambda x: (isinstance(x, ast.Constant) and isinstance(x.value, (str, bytes))) or isinstance(x, (ast.List, ast.Tuple, ast.JoinedStr))
                if seqlike(n.left) or seqlike(n.right):
                    return [(F(1), {("bin", type(n.op).__name__, self.ex(n.left, benv), self.ex(n.right, benv)): F(1)}, False)]   # "ab" * 3, [0] * n: a sequence
                numeric_hint[0] = True
                l, r = lift(n.left), lift(n.right)
                lt = l[0] if len(l) == 1 else (F(1), {self.sumform(l): F(1)}, False)
                rt = r[0] if len(r) == 1 else (F(1), {self.sumform(r): F(1)}, False)
                sgn = 1 if isinstance(n.op, ast.Mult) else -1
                if sgn == -1 and rt[0] == 0:
                    raise Unsupported("division by literal zero")
                coef = lt[0] * (rt[0] if sgn == 1 else 1 / rt[0])
                p = dict(lt[1])
                for a_, e_ in rt[1].items():
                    p[a_] = p.get(a_, F(0)) + sgn * e_
                return [(coef, {a_: e_ for a_, e_ in p.items() if e_ != 0}, lt[2] or rt[2] or sgn == -1)]
            if isinstance(n, ast.BinOp) and isinstance(n.op, ast.Pow):
                numeric_hint[0] = True
                b, e = lift(n.left), lift(n.right)
                if len(e) == 1 and not e[0][1]:
                    ex_ = e[0][0]
                    if len(b) == 1:
                        cb, pb, fl = b[0]
                        if ex_.denominator == 1 and abs(ex_) <= 64 and (cb != 0 or ex_ >= 0):
                            return [(cb ** int(ex_), {a_: e_ * ex_ for a_, e_ in pb.items()}, fl or e[0][2])]
                        if cb == 1:
                            return [(F(1), {a_: e_ * ex_ for a_, e_ in pb.items()}, fl)]
                    return [(F(1), {self.sumform(b): ex_}, False)]
                return [(F(1), {("pow", self.sumform(b), self.sumform(e)): F(1)}, False)]
            f = self.ex(n, benv)
            if isinstance(f, tuple) and f and f[0] == "call" and isinstance(f[1], tuple) and f[1][-1] in NUMERIC_FUNCS:
                numeric_hint[0] = True
            # an operand that turned out to be arithmetic itself (the value of an inlined helper) takes part in the flattening
            if isinstance(f, tuple) and len(f) == 4 and f[0] == "prod" and isinstance(f[2], tuple):
                numeric_hint[0] = True
                return [(f[1], dict(f[2]), f[3])]
            if isinstance(f, tuple) and len(f) == 3 and f[0] == "sum" and f[2] is True:
                numeric_hint[0] = True
                return [(c_, dict(k_), fl_) for c_, k_, fl_ in f[1]]
            return [(F(1), {f: F(1)}, False)]

        return self.sumform(lift(node), numeric_hint[0])

    def sumform(self, terms, numeric=True):
        if numeric or any((p and (len(p) > 1 or list(p.values())[0] != 1)) or c != 1 for c, p, _ in terms):
            acc, order = {}, []
            for c, p, fl in terms:
                key = tuple(sorted(p.items(), key=repr))
                if key not in acc:
                    acc[key] = [F(0), False]
                    order.append(key)
                acc[key][0] += c
                acc[key][1] = acc[key][1] or fl
            nt = tuple(sorted(((c, k, fl) for k, (c, fl) in acc.items() if c != 0 or k), key=repr))
            numeric = True
        else:
            nt = tuple((c, tuple(sorted(p.items(), key=repr)), fl) for c, p, fl in terms)  # possibly a concatenation: keep the order
        if len(nt) == 1:
            c, k, fl = nt[0]
            if c == 1 and len(k) == 1 and k[0][1] == 1:
                return k[0][0]
            return ("prod", c, k, fl and not k)
        if not nt:
            return ("prod", F(0), (), False)
        return ("sum", nt, numeric)

    # ================================================================================================ effects
    def find_ifexp(self, exprs):
        """an IfExp inside the expressions whose test does not depend on a name bound inside the expression around it"""
        def rec(n, bound):
            if isinstance(n, ast.IfExp):
                inner = rec(n.test, bound)
                if inner is not None:
                    return inner   # a conditional expression inside the test is decided first
                if not (_bound_names(n.test) & bound):
                    return n
            if isinstance(n, ast.Lambda):
                a = n.args
                b2 = bound | {p.arg for p in a.posonlyargs + a.args + a.kwonlyargs} | ({a.vararg.arg} if a.vararg else set()) | ({a.kwarg.arg} if a.kwarg else set())
                for d in a.defaults + [d for d in a.kw_defaults if d is not None]:
                    r = rec(d, bound)
                    if r is not None:
                        return r
                return rec(n.body, b2)
            if isinstance(n, (ast.ListComp, ast.SetComp, ast.GeneratorExp, ast.DictComp)):
                b2 = bound
                for g in n.generators:
                    r = rec(g.iter, b2)
                    if r is not None:
                        return r
                    b2 = b2 | _bound_names(g.target)
                    for c in g.ifs:
                        r = rec(c, b2)
                        if r is not None:
                            return r
                for e in ([n.key, n.value] if isinstance(n, ast.DictComp) else [n.elt]):
                    r = rec(e, b2)
                    if r is not None:
                        return r
                return None
            for ch in ast.iter_child_nodes(n):
                r = rec(ch, bound)
                if r is not None:
                    return r
            return None
        for e in exprs:
            if e is None:
                continue
            r = rec(e, frozenset())
            if r is not None:
                return r
        return None

    def tkey(self, test):
        """(key of the positive core of a test, is the test itself positive?) -- by construction the polarity and the core are those of `self.test`,
        so that `decided[key]` is the truth value of exactly the form that `mk_if` is given"""
        hit = self._tk_by_id.get(id(test))
        if hit is not None and hit[0] is test:
            return hit[1]
        d = ast.dump(test)
        got = self._tkeys.get(d)
        if got is None:
            pos, t = self.test(test, {})
            got = (repr(t), pos)
            self._tkeys[d] = got
            self._key_form[got[0]] = t
        self._tk_by_id[id(test)] = (test, got)
        return got

    def known(self, key):
        """truth value of the test with this key on the current path (None: open): decided itself, or excluded by a decided comparison of the same two
        operands (a < b excludes b < a and a == b; a == b excludes a < b and b < a)"""
        v = self.decided.get(key)
        if v is not None or not self.decided:
            return v
        t = self._key_form.get(key)
        if isinstance(t, tuple) and len(t) == 4 and t[0] == "cmp" and t[1] in ("Lt", "Eq"):
            a, b = t[2], t[3]
            eq = ("cmp", "Eq", a, b) if repr(a) <= repr(b) else ("cmp", "Eq", b, a)
            others = [("cmp", "Lt", b, a), eq] if t[1] == "Lt" else [("cmp", "Lt", a, b), ("cmp", "Lt", b, a)]
            for o in others:
                if self.decided.get(repr(o)) is True:
                    return False
        return None

    def choose(self, node, decided, bound=frozenset()):
        """copy of the expression in which every conditional expression on a decided test (one that does not depend on a name bound by a comprehension
        or lambda around it) is replaced by the arm that is taken"""
        if node is None or isinstance(node, (ast.Constant, ast.Name)):
            return node
        if isinstance(node, ast.IfExp) and not (bound and (_bound_names(node.test) & bound)):
            k, p = self.tkey(node.test)
            kv = self.known(k)
            if kv is not None:
                return self.choose(node.body if (kv == p) else node.orelse, decided, bound)
        if isinstance(node, ast.Lambda):
            a = node.args
            b2 = bound | {p_.arg for p_ in a.posonlyargs + a.args + a.kwonlyargs} | ({a.vararg.arg} if a.vararg else set()) | ({a.kwarg.arg} if a.kwarg else set())
            new_args = ast.arguments(posonlyargs=a.posonlyargs, args=a.args, vararg=a.vararg, kwonlyargs=a.kwonlyargs,
                                     kw_defaults=[self.choose(d_, decided, bound) for d_ in a.kw_defaults], kwarg=a.kwarg,
                                     defaults=[self.choose(d_, decided, bound) for d_ in a.defaults])
            return ast.Lambda(args=new_args, body=self.choose(node.body, decided, b2))
        if isinstance(node, (ast.ListComp, ast.SetComp, ast.GeneratorExp, ast.DictComp)):
            b2 = bound
            gens = []
            for g in node.generators:
                it = self.choose(g.iter, decided, b2)
                b2 = b2 | _bound_names(g.target)
                gens.append(ast.comprehension(target=g.target, iter=it, ifs=[self.choose(c, decided, b2) for c in g.ifs], is_async=g.is_async))
            if isinstance(node, ast.DictComp):
                return ast.DictComp(key=self.choose(node.key, decided, b2), value=self.choose(node.value, decided, b2), generators=gens)
            return type(node)(elt=self.choose(node.elt, decided, b2), generators=gens)
        new = type(node)()
        for fld, val in ast.iter_fields(node):
            if isinstance(val, ast.AST):
                setattr(new, fld, self.choose(val, decided, bound))
            elif isinstance(val, list):
                setattr(new, fld, [self.choose(x, decided, bound) if isinstance(x, ast.AST) else x for x in val])
            else:
                setattr(new, fld, val)
        if getattr(node, "_unpacked_item", False):
            new._unpacked_item = True
            new._unpack_arity = getattr(node, "_unpack_arity", None)
        return _hoist_ifexp(_fold_literal(new))

    def apply_decided(self, e):
        if e is None or not self.decided:
            return e
        self.work += 5
        if self.work > MAX_WORK:
            raise Unsupported("normal form too expensive")
        if not any(isinstance(x, ast.IfExp) for x in ast.walk(e)):
            return e
        return self.choose(e, self.decided)

    def under(self, key, val, thunk):
        """run thunk with the test `key` known to be `val`; what the thunk's effects made uncertain stays uncertain afterwards"""
        saved = dict(self.decided)
        mark = len(self._inval)
        self.decided[key] = val
        try:
            return thunk()
        finally:
            self.decided = saved
            for k in self._inval[mark:]:
                self.decided.pop(k, None)

    def fork(self, key, fa, fb):
        """run fa with the test `key` true and fb with it false, each from the present knowledge (what one alternative's effects make uncertain or
        alias is no business of the other: they are different paths); afterwards both alternatives' uncertainties hold"""
        saved = dict(self.decided)
        saved_alias = dict(self.alias)
        mark = len(self._inval)
        self.decided = dict(saved)
        self.decided[key] = True
        try:
            ra = fa()
            alias_a = self.alias
            self.alias = dict(saved_alias)
            self.decided = dict(saved)
            self.decided[key] = False
            rb = fb()
        finally:
            self.decided = saved
            for k in self._inval[mark:]:
                self.decided.pop(k, None)
        if alias_a != saved_alias:
            def find_a(x):
                while alias_a.get(x, x) != x:
                    x = alias_a[x]
                return x
            for x in list(alias_a):
                r = find_a(x)
                if r != x:
                    self.alias_link(x, r)
        return ra, rb

    def names_read(self, stmt_lists) -> set:
        """names that occur (in any role but a plain store) in the given statement lists; cached per list"""
        out = set()
        for lst in stmt_lists:
            key = id(lst)
            hit = self._names_cache.get(key)
            if hit is None or hit[0] is not lst:
                names = set()
                for st in lst:
                    for x in ast.walk(st):
                        if isinstance(x, ast.Name) and not isinstance(x.ctx, ast.Store):
                            names.add(x.id)
                        elif isinstance(x, ast.AugAssign) and isinstance(x.target, ast.Name):
                            names.add(x.target.id)   # read and written
                hit = (lst, names)
                self._names_cache[key] = hit
            out |= hit[1]
        return out

    def live_after(self, rest, cont):
        """names that may be read once the statements `rest` and the continuation have run, or by them (None: any)"""
        top = self.live_stack[-1]
        if top is None:
            return None
        return self.names_read((rest,) + tuple(cont)) | top

    def with_live(self, live, thunk):
        self.live_stack.append(live)
        try:
            return thunk()
        finally:
            self.live_stack.pop()

    def name_form(self, closed_name):
        """form of a name as it occurs in closed expressions"""
        return self.vform(closed_name[len(OP):]) if closed_name.startswith(OP) else ("n", closed_name)

    def invalidate(self, closed_names):
        """the named variables were rebound / the named objects were mutated: tests that mention them may evaluate differently from now on"""
        if not self.decided or not closed_names:
            return
        closed_names = self.aliases_of(closed_names)
        reps = [repr(self.name_form(nm)) for nm in closed_names]
        for k in list(self.decided):
            if any(r in k for r in reps):
                del self.decided[k]
                self._inval.append(k)

    def touched_by(self, stmts, env) -> set:
        """closed names of everything the statements may rebind or mutate: stored local names (as variables), roots of stores / mutator calls"""
        out, rebound = set(), set()
        # variables of comprehensions / inner loops stand for items of what they range over
        item_of: Dict[str, set] = {}
        for st in stmts:
            for n in ast.walk(st):
                if isinstance(n, (ast.comprehension, ast.For)):
                    src = _may_alias(n.iter)
                    for x in ast.walk(n.target):
                        if isinstance(x, ast.Name) and src:
                            item_of.setdefault(x.id, set()).update(src)
                elif isinstance(n, ast.Assign):
                    # a name bound inside these statements may stand for what its value is made of (`c_ = r` ... `c_[k] = v` changes r)
                    src = _may_alias(n.value)
                    for t_ in n.targets:
                        for x in ast.walk(t_):
                            if isinstance(x, ast.Name) and isinstance(x.ctx, ast.Store) and src - {x.id}:
                                item_of.setdefault(x.id, set()).update(src - {x.id})
        seen_roots = set()

        def closed_root(r):
            if r is None or r in seen_roots:
                return
            seen_roots.add(r)
            for src in item_of.get(r, ()):
                closed_root(src)
            if r in env:
                cr = self._root(env[r])
                if cr is not None:
                    out.add(cr)
                if not isinstance(env[r], ast.Name):
                    out.update(_may_alias(env[r]))   # the name stands for an expression (`both = (ms, ys)` kept as the display): what that may be or hold
            else:
                out.add(r)
            out.add(OP + r)
        for st in stmts:
            for n in ast.walk(st):
                if isinstance(n, ast.Name) and isinstance(n.ctx, (ast.Store, ast.Del)):
                    rebound.add(OP + n.id)
                elif isinstance(n, (ast.Subscript, ast.Attribute)) and isinstance(n.ctx, (ast.Store, ast.Del)):
                    closed_root(self._root(n))
                elif isinstance(n, ast.Expr) and isinstance(n.value, ast.Call):
                    closed_root(self._root(n.value.func))
                elif isinstance(n, ast.Call) and isinstance(n.func, ast.Attribute) and n.func.attr in MUTATORS:
                    closed_root(self._root(n.func.value))
                elif isinstance(n, ast.ExceptHandler) and n.name:
                    rebound.add(OP + n.name)
        return rebound, out

    def before_nested(self, stmts, env, eff):
        """a loop / try / with is about to run `stmts` an unknown number of times: whatever they may change is settled first"""
        rebound, mutated = self.touched_by(stmts, env)
        self.materialise(env, rebound, eff, rebinding=True)
        self.materialise(env, mutated, eff)
        self.invalidate(rebound | mutated)

    def to_variable(self, nm, env, eff):
        """the local `nm` becomes a variable from here on; the value it has so far (an expression, or the parameter of that name) is bound first"""
        cur = env.get(nm)
        if cur is not None and not (isinstance(cur, ast.Name) and cur.id == OP + nm):
            self.bind_var(nm, cur, env, eff)
        elif cur is None and nm in self.params:
            self.bind_var(nm, ast.Name(id=nm, ctx=ast.Load()), env, eff)
        env[nm] = ast.Name(id=OP + nm, ctx=ast.Load())

    BOOLISH = ("cmp", "cmpchain", "not", "bool")

    def boolish(self, t) -> bool:
        if not isinstance(t, tuple) or not t:
            return False
        if t[0] in ("cmp", "cmpchain"):
            return True
        if t[0] == "not":
            return True   # `not x` is always a bool
        if t[0] == "bool":
            return all(self.boolish(x) for x in t[2])
        if t[0] == "call" and t[1] in (("n", "isinstance"), ("n", "hasattr"), ("n", "any"), ("n", "all"), ("n", "callable"), ("n", "issubclass")):
            return True
        return False

    def mk_if(self, t, ea, eb):
        ea, eb = list(ea), list(eb)
        if ea == eb:
            return ea
        # what both arms end with happens after the if:  if t: A; S  else: B; S   ==   (if t: A else: B); S
        k = 0
        while k < len(ea) and k < len(eb) and ea[len(ea) - 1 - k] == eb[len(eb) - 1 - k]:
            k += 1
        if k:
            tail = ea[len(ea) - k:]
            ea, eb = ea[:len(ea) - k], eb[:len(eb) - k]
            return self.mk_if(t, ea, eb) + tail
        if len(ea) == 1 and len(eb) == 1 and ea[0][0] == "return" and eb[0][0] == "return" and self.boolish(t):
            T, Fa = ("k", "bool", "True"), ("k", "bool", "False")
            if (ea[0][1], eb[0][1]) == (T, Fa):
                return [("return", t)]
            if (ea[0][1], eb[0][1]) == (Fa, T):
                return [("return", ("not", t))]
        # a tree of comparisons of one evidently integer value with integer constants is the chain over its breakpoints
        chain = _int_case_chain(t, tuple(ea), tuple(eb))
        if chain is not None:
            return chain
        # an if nested alone in an arm of an if without other arm is one if on the conjunction:  if A: (if B: X)  ==  if A and B: X
        #   more generally, with R the other arm:  if A: (if B: X else: R) else: R  ==  if A and B: X else: R
        for outer_pos, arm, other in ((True, ea, eb), (False, eb, ea)):
            if len(arm) == 1 and arm[0][0] == "if" and arm[0][2] != arm[0][3] and tuple(other) in (arm[0][2], arm[0][3]):
                inner_pos = arm[0][3] == tuple(other)
                body = arm[0][2] if inner_pos else arm[0][3]
                pos, form = _bool_form("And", [(outer_pos, t), (inner_pos, arm[0][1])])
                return self.mk_if(form, body, other) if pos else self.mk_if(form, other, body)
        # a chain of mutually exclusive tests is ordered by the tests:  if a: X elif b: Y else: Z  ==  if b: Y elif a: X else: Z  when a and b exclude each other
        if len(eb) == 1 and eb[0][0] == "if" and _exclusive(t, eb[0][1]) and repr(eb[0][1]) < repr(t):
            t2, y, z = eb[0][1], eb[0][2], eb[0][3]
            return self.mk_if(t2, y, self.mk_if(t, ea, z))
        # canonical order of independent tests: `if a: (if b: X else: Y) else: (if b: Z else: W)` with b before a is rotated
        if len(ea) == 1 and len(eb) == 1 and ea[0][0] == "if" and eb[0][0] == "if" and ea[0][1] == eb[0][1] and repr(ea[0][1]) < repr(t):
            t2 = ea[0][1]
            x, y = ea[0][2], ea[0][3]
            z, w = eb[0][2], eb[0][3]
            return self.mk_if(t2, self.mk_if(t, x, z), self.mk_if(t, y, w))
        return [("if", t, tuple(ea), tuple(eb))]

    def emit(self, kind, exprs, make):
        """effects for one statement: conditional expressions inside `exprs` are lifted into `if` effects; `make(forms)` builds the effect"""
        self.n_eff += 1
        if self.n_eff > MAX_EFFECTS:
            raise Unsupported("normal form too large")
        exprs = [self.apply_decided(e) for e in exprs]
        ife = self.find_ifexp(exprs)
        if ife is None:
            made = make([self.exo(e, {}) for e in exprs])
            if made[0] in ("bind", "store") and made[1] == made[2] and _form_pure(made[1]):
                return []   # `x = x` / `d[k] = d[k]` does nothing (item and attribute reads are plain field reads)
            return [made]
        key, _ = self.tkey(ife.test)
        _, t = self.test(ife.test, {})
        a, b = self.fork(key, lambda: self.emit(kind, exprs, make), lambda: self.emit(kind, exprs, make))    # a: the positive core holds
        return self.mk_if(t, a, b)

    # ================================================================================================ statements
    @staticmethod
    def mentions(expr, names) -> bool:
        return any(isinstance(x, ast.Name) and x.id in names for x in ast.walk(expr))

    def materialise(self, env, names, eff, rebinding=False):
        exempt = None
        if not rebinding:
            given = [n_ for n_ in names if n_.startswith(OP)] or list(names)
            if given and all(n_ in self.item_paths for n_ in given):
                exempt = set.intersection(*[self.item_paths[n_] for n_ in given])   # mutated through loop variables only: their containers stay the objects they are
            names = self.aliases_of(names)   # mutating an object changes what every name for it shows
        self._materialise(env, names, eff, rebinding, exempt)

    def _materialise(self, env, names, eff, rebinding=False, exempt=None):
        """bindings whose value mentions something that is about to change become variables of their own.  rebinding=False: the named objects are
        about to be mutated -- a name that simply *is* one of them stays an alias (a later mutation through it is then seen as a mutation of the
        same object); rebinding=True: the named variables are about to be rebound -- an alias must keep the present value"""
        for nm in list(env):
            e = env[nm]
            if isinstance(e, ast.Name) and e.id == OP + nm:
                continue   # the variable's own entry
            if not rebinding and isinstance(e, ast.Name) and e.id in names:
                continue
            if exempt and isinstance(e, (ast.Attribute, ast.Subscript)) and ast.dump(e) in exempt:
                continue
            if not rebinding and _reference_structure(e):
                continue   # a tuple of names only refers to the objects: mutating them does not change which objects it holds
            if self.mentions(e, names):
                eff.extend(self.emit("bind", [e], lambda fs, nm=nm: ("bind", self.vform(nm), fs[0])))
                env[nm] = ast.Name(id=OP + nm, ctx=ast.Load())

    def stores_in(self, stmts) -> list:
        """names stored in the statements, in the order of their first store (depth first, in source order)"""
        out = []

        def rec(n):
            if isinstance(n, (ast.FunctionDef, ast.AsyncFunctionDef, ast.ClassDef)):
                if n.name not in out:
                    out.append(n.name)
                return
            if isinstance(n, ast.Name):
                if isinstance(n.ctx, ast.Store) and n.id not in out:
                    out.append(n.id)
                return
            if isinstance(n, (ast.Assign, ast.AugAssign, ast.AnnAssign)):
                # the value is evaluated before the target is bound
                if getattr(n, "value", None) is not None:
                    rec(n.value)
                for t in (n.targets if isinstance(n, ast.Assign) else [n.target]):
                    rec(t)
                return
            for ch in ast.iter_child_nodes(n):
                rec(ch)
        for s in stmts:
            rec(s)
        return out

    def helper_impure(self, helper, depth=0) -> bool:
        """does the body of a helper whose calls are seen through change anything (stores into objects, mutating methods, calls made for effect, impure builtins,
        other such helpers)?"""
        cache = self.__dict__.setdefault("_helper_impure", {})
        key = id(helper)
        if key in cache:
            return cache[key]
        cache[key] = True   # (recursion: assume the worst)
        res = False
        for x in ast.walk(helper):
            if isinstance(x, ast.Call) and isinstance(x.func, ast.Attribute) and x.func.attr in MUTATORS:
                res = True
            elif isinstance(x, ast.Call) and isinstance(x.func, ast.Name) and x.func.id in IMPURE_FUNCS:
                res = True
            elif isinstance(x, (ast.Subscript, ast.Attribute)) and isinstance(x.ctx, (ast.Store, ast.Del)):
                res = True
            elif isinstance(x, ast.Expr) and isinstance(x.value, ast.Call):
                res = True
            elif isinstance(x, (ast.Yield, ast.YieldFrom, ast.Await, ast.Global, ast.Nonlocal)):
                res = True
            elif isinstance(x, ast.Call) and depth < 4:
                h2 = self.called_helper(x)
                if h2 is not None and h2 is not helper and self.helper_impure(h2, depth + 1):
                    res = True
            if res:
                break
        cache[key] = res
        return res

    def called_helper(self, call):
        f = call.func
        if isinstance(f, ast.Name) and f.id in self.helpers:
            return self.helpers[f.id]
        if isinstance(f, ast.Attribute) and isinstance(f.value, ast.Name) and f.value.id in ("self", "cls") and f.attr in self.methods:
            return self.methods[f.attr]
        return None

    def calls_impure_helper(self, n) -> bool:
        if not self.helpers and not self.methods:
            return False
        for x in ast.walk(n):
            if isinstance(x, ast.Call):
                h = self.called_helper(x)
                if h is not None and self.helper_impure(h):
                    return True
        return False

    def pure(self, n) -> bool:
        if self.calls_impure_helper(n):
            return False
        for x in ast.walk(n):
            if isinstance(x, ast.Call) and isinstance(x.func, ast.Attribute) and x.func.attr in MUTATORS:
                return False
            if isinstance(x, ast.Call) and isinstance(x.func, ast.Name) and x.func.id in IMPURE_FUNCS:
                return False
            if isinstance(x, (ast.Yield, ast.YieldFrom, ast.Await)):
                return False
        return True

    def bind_var(self, nm, value, env, eff):
        """the local `nm` stays a variable: emit its (re)binding"""
        self.materialise(env, {OP + nm}, eff, rebinding=True)
        if nm in self.captured:
            # a nested function reads this name when it is *called*: results of calls made so far are settled before the name changes
            for other in list(env):
                e_ = env[other]
                if not (isinstance(e_, ast.Name) and e_.id == OP + other) and any(isinstance(x, ast.Call) for x in ast.walk(e_)):
                    eff.extend(self.emit("bind", [e_], lambda fs, other=other: ("bind", self.vform(other), fs[0])))
                    env[other] = ast.Name(id=OP + other, ctx=ast.Load())
        eff.extend(self.emit("bind", [value], lambda fs: ("bind", self.vform(nm), fs[0])))
        self.invalidate({OP + nm})
        for other in _may_alias(value):
            if other != OP + nm:
                self.alias_link(OP + nm, other)   # the new value may be (part of) an object that name denotes
        env[nm] = ast.Name(id=OP + nm, ctx=ast.Load())

    def assign(self, target, value, env, eff, pure):
        """value: closed expression"""
        n_nodes = sum(1 for _ in ast.walk(value))
        self.work += 1 + n_nodes // 20
        if n_nodes > MAX_EXPR_NODES:
            raise Unsupported("closed expression too large")
        if isinstance(target, ast.Name):
            nm = target.id
            cur = env.get(nm)
            is_var = isinstance(cur, ast.Name) and cur.id == OP + nm
            if nm in self.captured or nm in self.mutated or not pure or is_var:
                self.bind_var(nm, value, env, eff)
            else:
                if self.in_try and _may_raise(value):
                    eff.extend(self.emit("eval", [value], lambda fs: ("eval", fs[0])))   # in a try body the evaluation itself matters (it may be what raises)
                env[nm] = value
            return
        if isinstance(target, (ast.Tuple, ast.List)):
            if any(isinstance(e, ast.Starred) for e in target.elts):
                raise Unsupported("starred unpacking")
            if isinstance(value, (ast.Tuple, ast.List)) and len(value.elts) == len(target.elts):
                for t, v in zip(target.elts, value.elts):
                    self.assign(t, v, env, eff, pure)
                return
            src = value
            if not pure:
                tmp = "unpack%d" % self.n_eff
                self.bind_var(tmp, value, env, eff)
                src = env[tmp]
            n_t = len(target.elts)
            lo_hi = None
            if isinstance(src, ast.Subscript) and isinstance(src.slice, ast.Slice) and src.slice.step is None:
                lo, hi = src.slice.lower, src.slice.upper
                lo_v = 0 if lo is None else (lo.value if isinstance(lo, ast.Constant) and isinstance(lo.value, int) and lo.value >= 0 else None)
                hi_v = hi.value if isinstance(hi, ast.Constant) and isinstance(hi.value, int) and hi.value >= 0 else None
                if lo_v is not None and hi_v is not None and hi_v - lo_v == n_t:
                    lo_hi = lo_v
            for i, t in enumerate(target.elts):
                if lo_hi is not None:
                    item = ast.Subscript(value=src.value, slice=ast.Constant(value=lo_hi + i), ctx=ast.Load())   # a, b = x[1:3]: x[1], x[2]
                else:
                    item = ast.Subscript(value=src, slice=ast.Constant(value=i), ctx=ast.Load())   # a, b = e reads e[0], e[1] (stated assumption: e is a sequence of that length)
                item._unpacked_item = True
                item._unpack_arity = n_t if lo_hi is None else None
                self.assign(t, item, env, eff, True)
            return
        if isinstance(target, (ast.Subscript, ast.Attribute)):
            t2 = self.subst(target, env)
            r = self._root(t2)
            if r is not None:
                self.materialise(env, {r}, eff)
            eff.extend(self.emit("store", [t2, value], lambda fs: ("store", fs[0], fs[1])))
            if r is not None:
                self.invalidate({r})
                for other in _may_alias(value):
                    if other != r:
                        self.alias_link(r, other)   # the container now holds that object
            return
        raise Unsupported("assignment target %s" % type(target).__name__)

    @staticmethod
    def may_leave(stmts, in_loop=False) -> bool:
        """can control leave the enclosing block from inside these statements (return/raise anywhere, continue/break of the enclosing loop)?"""
        for s in stmts:
            if isinstance(s, (ast.Return, ast.Raise)):
                return True
            if isinstance(s, (ast.Continue, ast.Break)) and not in_loop:
                return True
            if isinstance(s, (ast.FunctionDef, ast.AsyncFunctionDef, ast.ClassDef)):
                continue
            if isinstance(s, (ast.For, ast.While)):
                if Normaliser.may_leave(s.body, True) or Normaliser.may_leave(s.orelse, in_loop):
                    return True
                continue
            for fld in ("body", "orelse", "finalbody"):
                sub = getattr(s, fld, None)
                if isinstance(sub, list) and sub and isinstance(sub[0], ast.stmt) and Normaliser.may_leave(sub, in_loop):
                    return True
            if isinstance(s, ast.Try):
                for h in s.handlers:
                    if Normaliser.may_leave(h.body, in_loop):
                        return True
        return False

    def iteration_temps(self, loop) -> set:
        """names bound at the top of every pass of the loop body before they are read, and not read outside the loop"""
        out = set()
        inside = {id(x) for x in ast.walk(loop)}
        for nm in self.stores_in(loop.body):
            if nm in self.captured or nm in self.mutated:
                continue
            if any(isinstance(x, ast.Name) and x.id == nm and id(x) not in inside for x in ast.walk(self.fn)):
                continue
            if self.block_local(loop, nm) or (self.assigned_first(loop.body, nm)
                                               and not any(isinstance(x, ast.Name) and x.id == nm for st_ in getattr(loop, "orelse", []) for x in ast.walk(st_))
                                               and not (isinstance(loop, ast.While) and any(isinstance(x, ast.Name) and x.id == nm for x in ast.walk(loop.test)))):
                out.add(nm)
        return out

    @staticmethod
    def assigned_first(body, nm) -> bool:
        """every pass of the loop body starts by binding `nm` (a plain top-level assignment whose value does not mention it) before anything looks at it"""
        for st in body:
            if isinstance(st, ast.Assign) and len(st.targets) == 1 and isinstance(st.targets[0], ast.Name) and st.targets[0].id == nm:
                return not any(isinstance(x, ast.Name) and x.id == nm for x in ast.walk(st.value))
            if isinstance(st, ast.If) and st.orelse and not any(isinstance(x, ast.Name) and x.id == nm for x in ast.walk(st.test)) \
                    and any(isinstance(x, ast.Name) and x.id == nm for x in ast.walk(st)):
                # both arms bind it first (an arm that leaves the iteration needs no binding)
                def arm_ok(arm):
                    return Normaliser.assigned_first(arm, nm) or (always_leaves(arm) and not any(isinstance(x, ast.Name) and x.id == nm for s_ in arm for x in ast.walk(s_)))
                return arm_ok(st.body) and arm_ok(st.orelse)
            if any(isinstance(x, ast.Name) and x.id == nm for x in ast.walk(st)):
                return False
        return False

    @staticmethod
    def block_local(holder, nm) -> bool:
        """every binding of `nm` inside `holder` is a plain assignment in some statement list, whose value does not mention `nm`; every read of `nm`
        sits in a later statement of that same list before the next binding of `nm` in that list; no binding is nested inside the statements another
        binding owns.  (Each binding then is a temporary of its own: which one a read sees does not depend on the path taken.)"""
        binds = []

        def scan(stmts):
            for i, st in enumerate(stmts):
                if isinstance(st, ast.Assign) and any(isinstance(x, ast.Name) and x.id == nm and isinstance(x.ctx, ast.Store) for t in st.targets for x in ast.walk(t)):
                    binds.append((stmts, i, st))
                for fld in ("body", "orelse", "finalbody"):
                    sub = getattr(st, fld, None)
                    if isinstance(sub, list) and sub and isinstance(sub[0], ast.stmt):
                        scan(sub)
                if isinstance(st, ast.Try):
                    for h in st.handlers:
                        scan(h.body)
        scan(holder.body + getattr(holder, "orelse", []))
        if not binds:
            return False
        owned, own_targets, bind_stmt_ids = set(), set(), {id(b[2]) for b in binds}
        for stmts, i, st in binds:
            if any(isinstance(x, ast.Name) and x.id == nm for x in ast.walk(st.value)):
                return False
            if not all(isinstance(t, ast.Name) for t in st.targets) and len(binds) > 1:
                return False   # several webs: only plain `nm = e` bindings
            j = len(stmts)
            for k in range(i + 1, len(stmts)):
                if id(stmts[k]) in bind_stmt_ids:
                    j = k
                    break
            rng = stmts[i + 1:j]
            for st2 in rng:
                for x in ast.walk(st2):
                    if id(x) in bind_stmt_ids:
                        return False   # another binding nested inside the statements this one owns
                    owned.add(id(x))
            own_targets |= {id(x) for t in st.targets for x in ast.walk(t) if isinstance(x, ast.Name) and isinstance(x.ctx, ast.Store)}
            if any(isinstance(x, ast.Name) and x.id == nm and isinstance(x.ctx, ast.Load) for t in st.targets for x in ast.walk(t)):
                return False   # nm = ... together with a store through nm in one statement
        for x in ast.walk(holder):
            if isinstance(x, ast.Name) and x.id == nm:
                if id(x) in own_targets:
                    continue
                if isinstance(x.ctx, ast.Store) or id(x) not in owned:
                    return False
        return True

    def block(self, stmts, env, cont=()):
        """effects of the statements followed by the continuation `cont` (a tuple of statement lists); -> (effects, env at the end)"""
        eff: List[tuple] = []
        stmts = list(stmts)
        i = 0
        while True:
            if i >= len(stmts):
                if cont:
                    stmts, cont, i = list(cont[0]), cont[1:], 0
                    continue
                return eff, env
            s = stmts[i]
            rest = stmts[i + 1:]
            self.work += 1
            if self.work > MAX_WORK:
                raise Unsupported("normal form too expensive")
            i += 1
            if isinstance(s, ast.Pass) or (isinstance(s, ast.Expr) and isinstance(s.value, ast.Constant)):
                continue
            if isinstance(s, (ast.Import, ast.ImportFrom)):
                eff.append(("import", ast.dump(s)))   # (only `from m import *` is left: the others were turned into bindings)
                continue
            hdr = _header_exprs(s)
            if hdr and any(self.calls_impure_helper(e_) for e_ in hdr):
                # a helper that is seen through changes something (possibly a variable it closes over): everything computed so far is settled first
                for nm_ in list(env):
                    e_ = env[nm_]
                    if not (isinstance(e_, ast.Name) and e_.id == OP + nm_) and not _reference_structure(e_) \
                            and any(isinstance(x, (ast.Call, ast.Attribute, ast.Subscript)) for x in ast.walk(e_)):
                        eff.extend(self.emit("bind", [e_], lambda fs, nm_=nm_: ("bind", self.vform(nm_), fs[0])))
                        env[nm_] = ast.Name(id=OP + nm_, ctx=ast.Load())
                self.decided = {}
            if hdr and any(isinstance(x, ast.Call) and isinstance(x.func, ast.Attribute) and x.func.attr in MUTATORS for e_ in hdr for x in ast.walk(e_)):
                # an expression of this statement mutates an object (`u = ms.pop()`, `return (ms.append(1), t)`, `if stack.pop():`, `[c.add(1) for c in both]`):
                # what was computed from that object so far is bound before it, not read from the changed object later
                _, mut_ = self.touched_by([ast.Expr(value=e_) for e_ in hdr], env)
                if mut_:
                    self.materialise(env, mut_, eff)
                    self.invalidate(self.aliases_of(mut_))
            if isinstance(s, ast.Assign):
                v = self.subst(s.value, env)
                pure = self.pure(s.value)
                first = s.targets[0]
                self.assign(first, v, env, eff, pure)
                for t in s.targets[1:]:
                    # a = b = e: e is evaluated once; what the first target got is what the others get
                    if isinstance(first, ast.Name):
                        self.assign(t, self.subst(ast.Name(id=first.id, ctx=ast.Load()), env), env, eff, True)
                    elif isinstance(v, (ast.Name, ast.Constant)):
                        self.assign(t, v, env, eff, True)
                    else:
                        raise Unsupported("chained assignment with a structured first target")
                continue
            if isinstance(s, ast.AnnAssign):
                if s.value is not None:
                    self.assign(s.target, self.subst(s.value, env), env, eff, self.pure(s.value))
                continue
            if isinstance(s, ast.AugAssign):
                if isinstance(s.target, ast.Name):
                    v = ast.BinOp(left=self.subst(ast.Name(id=s.target.id, ctx=ast.Load()), env), op=s.op, right=self.subst(s.value, env))
                    self.assign(s.target, v, env, eff, self.pure(s.value))
                else:
                    t2 = self.subst(s.target, env)
                    r = self._root(t2)
                    if r is not None:
                        self.materialise(env, {r}, eff)
                    val = ast.BinOp(left=t2, op=s.op, right=self.subst(s.value, env))
                    eff.extend(self.emit("store", [t2, val], lambda fs: ("store", fs[0], fs[1])))
                    if r is not None:
                        self.invalidate({r})
                continue
            if isinstance(s, ast.Expr):
                v = s.value
                if isinstance(v, (ast.Yield, ast.YieldFrom)):
                    k = "yield" if isinstance(v, ast.Yield) else "yieldfrom"
                    eff.extend(self.emit(k, [self.subst(v.value, env)], lambda fs, k=k: (k, fs[0])))
                else:
                    v2 = self.subst(v, env)
                    r = self._root(v2.func) if isinstance(v2, ast.Call) else None
                    # a call made for its effect: the effect is on the object it is a method of or on what it is given
                    roots = ({r} if r is not None else set())
                    if isinstance(v2, ast.Call) and not (isinstance(v2.func, ast.Name) and v2.func.id in NO_ARG_EFFECT) \
                            and not (isinstance(v2.func, ast.Attribute) and v2.func.attr in MUTATORS):
                        for a_ in list(v2.args) + [k_.value for k_ in v2.keywords]:
                            roots |= _may_alias(a_)
                    if roots:
                        self.materialise(env, roots, eff)
                    eff.extend(self.emit("do", [v2], lambda fs: ("do", fs[0])))
                    if roots:
                        self.invalidate(self.aliases_of(roots))
                continue
            if isinstance(s, ast.Return):
                eff.extend(self.emit("return", [self.subst(s.value, env)], lambda fs: ("return", fs[0])))
                return eff, env
            if isinstance(s, ast.Raise):
                exc = s.exc
                if exc is None:
                    eff.append(("raise", None))
                else:
                    t = exc.func if isinstance(exc, ast.Call) else exc
                    eff.extend(self.emit("raise", [self.subst(t, env)], lambda fs: ("raise", fs[0])))
                return eff, env
            if isinstance(s, ast.Continue):
                eff.append(("continue",))
                return eff, env
            if isinstance(s, ast.Break):
                eff.append(("break",))
                return eff, env
            if isinstance(s, ast.Assert):
                eff.extend(self.emit("assert", [self.subst(s.test, env)], lambda fs: ("assert", fs[0])))
                continue
            if isinstance(s, ast.If):
                test = self.subst(s.test, env)
                e_if, env, done = self.do_if(test, s.body, s.orelse, rest, env, cont)
                eff.extend(e_if)
                if done:
                    self.sunk = True   # everything after the if was continued inside its arms: the environment returned here is not "the state afterwards"
                    return eff, env
                continue
            if isinstance(s, (ast.For, ast.While)):
                la = self.live_after(rest, cont)
                inner = None if la is None else la | self.names_read((s.body, s.orelse)) | {x.id for x in ast.walk(s.test if isinstance(s, ast.While) else s.iter) if isinstance(x, ast.Name)}
                eff.extend(self.with_live(inner, lambda: self.do_loop(s, env)))
                continue
            if isinstance(s, ast.Try) and s.handlers and not s.orelse and not s.finalbody and s.body and isinstance(s.body[-1], ast.Return) \
                    and s.body[-1].value is not None \
                    and not any(isinstance(x, (ast.Return, ast.Break, ast.Continue)) for st_ in s.body[:-1] for x in ast.walk(st_)):
                # `try: ...; return E` is `try: ...; v = E` / else: `return v` -- returning a value that is already computed cannot raise
                val_ = s.body[-1].value
                if isinstance(val_, (ast.Name, ast.Constant)):
                    body2, ret2 = list(s.body[:-1]), ast.Return(value=val_)
                else:
                    self._tryret = getattr(self, "_tryret", 0) + 1
                    tmp = "\x01tr%d" % self._tryret
                    body2 = list(s.body[:-1]) + [ast.Assign(targets=[ast.Name(id=tmp, ctx=ast.Store())], value=val_)]
                    ret2 = ast.Return(value=ast.Name(id=tmp, ctx=ast.Load()))
                if body2:
                    s2 = ast.Try(body=body2, handlers=s.handlers, orelse=[ret2], finalbody=[])
                    s2._fn_last = bool(self.fn.body) and (s is self.fn.body[-1] or getattr(s, "_fn_last", False))
                else:
                    s2 = ret2      # nothing in the body that could raise
                ast.fix_missing_locations(ast.copy_location(s2, s))
                stmts = stmts[:i - 1] + [s2] + rest
                i -= 1
                continue
            if isinstance(s, ast.Try) and s.handlers and not s.finalbody and not rest and not cont and self.fn.body and (s is self.fn.body[-1] or getattr(s, "_fn_last", False)) \
                    and not all(always_leaves(h.body) for h in s.handlers) and s.orelse:
                # the last statement of the function: a handler that falls off its end returns None
                hs2 = [h if always_leaves(h.body) else ast.ExceptHandler(type=h.type, name=h.name, body=list(h.body) + [ast.Return(value=ast.Constant(value=None))]) for h in s.handlers]
                s = ast.fix_missing_locations(ast.copy_location(ast.Try(body=s.body, handlers=hs2, orelse=s.orelse, finalbody=[]), s))
            if isinstance(s, ast.Try) and s.orelse and s.handlers and all(always_leaves(h.body) for h in s.handlers) and not s.finalbody:
                s2 = ast.Try(body=s.body, handlers=s.handlers, orelse=[], finalbody=[])
                stmts = stmts[:i - 1] + [s2] + list(s.orelse) + rest
                i -= 1
                continue
            if isinstance(s, ast.Try):
                la = self.live_after(rest, cont)
                self.live_stack.append(None if la is None else la | self.names_read((s.body, s.orelse, s.finalbody) + tuple(h.body for h in s.handlers)))
                # what was computed before the try stays before it (an exception raised there is not the handlers' business)
                for nm in list(env):
                    e_ = env[nm]
                    if not (isinstance(e_, ast.Name) and e_.id == OP + nm) and any(isinstance(x, (ast.Call, ast.Subscript, ast.Attribute, ast.BinOp)) for x in ast.walk(e_)) \
                            and any(isinstance(x, ast.Name) and x.id == nm for st_ in [s] + rest for x in ast.walk(st_)):
                        self.bind_var(nm, e_, env, eff)
                parts = [s.body, s.orelse, s.finalbody] + [h.body for h in s.handlers]
                local_to_part = set()
                for part in parts:
                    inside = {id(x) for st_ in part for x in ast.walk(st_)}
                    names_here = {x.id for st_ in part for x in ast.walk(st_) if isinstance(x, ast.Name)}
                    outside = {x.id for x in ast.walk(self.fn) if isinstance(x, ast.Name) and id(x) not in inside}
                    local_to_part |= (names_here - outside)
                # (statements made by the normaliser itself are not part of self.fn: a name in two parts of this try is not local to one)
                seen_parts = {}
                for pi_, part in enumerate(parts):
                    for st_ in part:
                        for x in ast.walk(st_):
                            if isinstance(x, ast.Name):
                                seen_parts.setdefault(x.id, set()).add(pi_)
                local_to_part = {nm_ for nm_ in local_to_part if len(seen_parts.get(nm_, ())) <= 1}
                after_names = self.names_read((rest,) + tuple(cont))
                local_to_part -= after_names
                self.before_nested(s.body + s.orelse + s.finalbody + [x for h in s.handlers for x in h.body], env, eff)
                for nm in self.stores_in(s.body + s.orelse + s.finalbody + [x for h in s.handlers for x in h.body]):
                    if nm in local_to_part and nm not in self.captured and nm not in self.mutated and nm not in env and nm not in self.params:
                        continue   # bound and read inside one part of the try only: an ordinary temporary of that part
                    self.to_variable(nm, env, eff)
                prev_sunk = self.sunk
                self.in_try += 1 if s.handlers else 0
                try:
                    eb, _ = self.block(s.body, dict(env), ())
                finally:
                    self.in_try -= 1 if s.handlers else 0
                hs = []
                for h in s.handlers:
                    e2 = dict(env)
                    if h.name:
                        e2[h.name] = ast.Name(id=OP + h.name, ctx=ast.Load())
                    eh, _ = self.block(h.body, e2, ())
                    hs.append((self.exo(self.subst(h.type, env), {}), tuple(eh)))
                eo, _ = self.block(s.orelse, dict(env), ()) if s.orelse else ([], env)
                ef, _ = self.block(s.finalbody, dict(env), ()) if s.finalbody else ([], env)
                eff.append(("try", tuple(eb), tuple(hs), tuple(eo), tuple(ef)))
                self.sunk = prev_sunk
                self.live_stack.pop()
                continue
            if isinstance(s, ast.With):
                items = []
                for it_ in s.items:
                    cf = self.exo(self.subst(it_.context_expr, env), {})
                    if it_.optional_vars is not None:
                        if not isinstance(it_.optional_vars, ast.Name):
                            raise Unsupported("with target")
                        nm = it_.optional_vars.id
                        env[nm] = ast.Name(id=OP + nm, ctx=ast.Load())
                        items.append((cf, self.vform(nm)))
                    else:
                        items.append((cf, None))
                self.before_nested(s.body, env, eff)
                for nm in self.stores_in(s.body):
                    self.to_variable(nm, env, eff)
                prev_sunk = self.sunk
                la = self.live_after(rest, cont)
                eb, _ = self.with_live(None if la is None else la | self.names_read((s.body,)), lambda: self.block(s.body, dict(env), ()))
                self.sunk = prev_sunk
                eff.append(("with", tuple(items), tuple(eb)))
                continue
            if isinstance(s, ast.FunctionDef) and self.helpers.get(s.name) is not None and self._same_def(self.helpers[s.name], s):
                continue
            if isinstance(s, (ast.FunctionDef, ast.AsyncFunctionDef)):
                decs = tuple(self.exo(self.subst(d, env), {}) for d in s.decorator_list)
                defaults = tuple(self.exo(self.subst(d, env), {}) for d in s.args.defaults)
                eff.append(("def", s.name, tuple(a.arg for a in s.args.posonlyargs + s.args.args + s.args.kwonlyargs), defaults, decs))
                env.pop(s.name, None)
                continue
            if isinstance(s, ast.ClassDef):
                body = []
                for cs in s.body:
                    if isinstance(cs, ast.Expr) and isinstance(cs.value, ast.Constant):
                        continue
                    if isinstance(cs, ast.Assign):
                        body.append(("cassign", tuple(ast.dump(t) for t in cs.targets), self.exo(self.subst(cs.value, env), {})))
                    elif isinstance(cs, (ast.FunctionDef, ast.AsyncFunctionDef)):
                        body.append(("def", cs.name, tuple(a.arg for a in cs.args.posonlyargs + cs.args.args + cs.args.kwonlyargs),
                                     tuple(self.exo(self.subst(d, env), {}) for d in cs.args.defaults), tuple(self.exo(self.subst(d, env), {}) for d in cs.decorator_list)))
                    elif isinstance(cs, ast.Pass):
                        continue
                    else:
                        body.append(("raw", ast.dump(cs)))
                eff.append(("class", s.name, tuple(self.exo(self.subst(b, env), {}) for b in s.bases), tuple(body)))
                env.pop(s.name, None)
                continue
            raise Unsupported(type(s).__name__)

    def single_arm(self, arm, rest, env, cont):
        """an if of which only one arm exists on this path: the arm, then what follows"""
        if self.may_leave(arm):
            e, _ = self.block(arm, env, (rest,) + tuple(cont))
            return e, env, True
        live = self.live_after(rest, cont)
        self.sunk = False
        e, env2 = self.with_live(live, lambda: self.block(arm, dict(env), ()))
        if self.sunk:
            # an if inside the arm continued what follows it inside its own arms: the environment after the arm is not known here
            self.sunk = False
            e, _ = self.block(arm, env, (rest,) + tuple(cont))
            return e, env, True
        return e, env2, False

    def do_if(self, test, body, orelse, rest, env, cont):
        """-> (effects, env after, finished?)   finished: the continuation has been consumed inside the arms"""
        test = self.apply_decided(test)
        ife = self.find_ifexp([test])
        if ife is not None:
            # the test itself contains a conditional expression: decide it first
            key, kpos = self.tkey(ife.test)
            _, t = self.test(ife.test, {})
            # a: the positive core of the inner test holds; b: it does not
            (ea, enva, da), (eb, envb, db) = self.fork(key, lambda: self.do_if(test, body, orelse, rest, dict(env), cont),
                                                       lambda: self.do_if(test, body, orelse, rest, dict(env), cont))
            core = ife.test if kpos else ast.UnaryOp(op=ast.Not(), operand=ife.test)   # true exactly in alternative a
            if not da and not db:
                out = [] if (not ea and not eb) else self.mk_if(t, ea, eb)
                return out, self.merge_envs(core, enva, envb), False
            if not da:
                er, enva = self.under(key, True, lambda: self.block(rest, enva, cont))
                ea = ea + er
            if not db:
                er, envb = self.under(key, False, lambda: self.block(rest, envb, cont))
                eb = eb + er
            return self.mk_if(t, ea, eb), env, True
        if isinstance(test, ast.Constant) or (isinstance(test, ast.UnaryOp) and isinstance(test.op, ast.Not) and isinstance(test.operand, ast.Constant)):
            # a literal test: only one arm exists
            val = bool(test.value) if isinstance(test, ast.Constant) else not bool(test.operand.value)
            arm = body if val else orelse
            return self.single_arm(arm, rest, env, cont)
        pos, t = self.test(test, {})
        a_st, b_st = (body, orelse) if pos else (orelse, body)
        tkey, kpos = self.tkey(test)
        if self.known(tkey) is not None:
            # already decided on this path: only one arm exists
            arm = a_st if self.known(tkey) else b_st
            return self.single_arm(arm, rest, env, cont)
        if self.may_leave(a_st) or self.may_leave(b_st):
            (ea, _), (eb, _) = self.fork(tkey, lambda: self.block(a_st, dict(env), (rest,) + tuple(cont)), lambda: self.block(b_st, dict(env), (rest,) + tuple(cont)))
            return self.mk_if(t, ea, eb), env, True
        self.sunk = False
        live = self.live_after(rest, cont)

        def arm(st):
            def run():
                self.sunk = False
                r_ = self.with_live(live, lambda: self.block(st, dict(env), ()))
                s_, self.sunk = self.sunk, False
                return r_, s_
            return run
        ((ea, enva), sunk_a), ((eb, envb), sunk_b) = self.fork(tkey, arm(a_st), arm(b_st))
        if sunk_a or sunk_b:
            # an if nested in an arm continued what follows it inside its own arms: so must this one
            (ea, _), (eb, _) = self.fork(tkey, lambda: self.block(a_st, dict(env), (rest,) + tuple(cont)), lambda: self.block(b_st, dict(env), (rest,) + tuple(cont)))
            return self.mk_if(t, ea, eb), env, True
        # a name bound differently in the two arms matters only if something afterwards reads it
        differing = {k for k in set(enva) | set(envb) if not (k in enva and k in envb and (enva[k] is envb[k] or ast.dump(enva[k]) == ast.dump(envb[k])))}
        if differing and live is not None:
            for k in differing - live:
                enva.pop(k, None)
                envb.pop(k, None)
        same_env = enva.keys() == envb.keys() and all(enva[k] is envb[k] or ast.dump(enva[k]) == ast.dump(envb[k]) for k in enva)
        if ea == eb and same_env:
            if self.in_try and _may_raise(test):
                return self.emit("eval", [test], lambda fs: ("eval", fs[0])) + ea, enva, False
            return ea, enva, False
        if same_env:
            return self.mk_if(t, ea, eb), enva, False
        if not ea and not eb:
            # nothing happened in the arms: the test still has the value it had, a name bound differently becomes a conditional expression
            tpos = test if pos else ast.UnaryOp(op=ast.Not(), operand=test)
            return [], self.merge_envs(tpos, enva, envb), False
        # effects in an arm and different bindings afterwards: re-evaluating the test later could give another answer, so what follows
        # is continued inside both arms (mk_if moves a common tail back out)
        (ea, _), (eb, _) = self.fork(tkey, lambda: self.block(a_st, dict(env), (rest,) + tuple(cont)), lambda: self.block(b_st, dict(env), (rest,) + tuple(cont)))
        return self.mk_if(t, ea, eb), env, True

    @staticmethod
    def merge_envs(tpos, enva, envb):
        """environment after an if whose arms fell through: tpos is a test that is true exactly in arm a"""
        merged = {}
        for k in list(dict.fromkeys(list(enva) + list(envb))):
            va, vb = enva.get(k), envb.get(k)
            if va is not None and vb is not None and (va is vb or ast.dump(va) == ast.dump(vb)):
                merged[k] = va
            else:
                same = ast.Name(id=k, ctx=ast.Load())   # not rebound in that arm: still what it was (a parameter, or unbound)
                merged[k] = ast.IfExp(test=tpos, body=va if va is not None else same, orelse=vb if vb is not None else same)
        return merged

    def do_loop(self, s, env):
        prev_sunk = self.sunk
        try:
            return self._do_loop(s, env)
        finally:
            self.sunk = prev_sunk   # ifs inside the loop body continue the *body* inside their arms: no concern of the statements around the loop

    def _do_loop(self, s, env):
        eff = []
        temps = self.iteration_temps(s)
        assigned = [n for n in self.stores_in(s.body + s.orelse)]
        tnames = _bound_names(s.target) if isinstance(s, ast.For) else set()
        carried = [nm for nm in assigned if nm not in tnames and nm not in temps]
        if isinstance(s, ast.For):
            # the items are (parts of) what the iterable holds: a mutation through the loop variable is a mutation of those objects
            it_closed = self.subst(s.iter, env)
            for other in _may_alias(it_closed):
                for nm in tnames:
                    if other != OP + nm:
                        self.alias_link(OP + nm, other)
            # ... but not of the container itself: when the iterable is a plain path (`t.subgroup`), that path and the paths it goes through still denote
            # the same objects afterwards (attribute and item reads are taken to be plain field reads)
            prefixes = set()
            p_ = it_closed
            while isinstance(p_, (ast.Attribute, ast.Subscript, ast.Name)):
                if isinstance(p_, ast.Subscript) and not isinstance(p_.slice, ast.Constant):
                    prefixes = set()
                    break
                prefixes.add(ast.dump(p_))
                if isinstance(p_, ast.Name):
                    break
                p_ = p_.value
            else:
                prefixes = set()
            for nm in tnames:
                if prefixes and isinstance(s.target, ast.Name):
                    self.item_paths[OP + nm] = prefixes
                else:
                    self.item_paths.pop(OP + nm, None)
        # what the loop may change is settled before it starts: values computed so far from objects it mutates, tests decided about them
        self.before_nested([x_ for x_ in s.body + s.orelse] + ([ast.Assign(targets=[s.target], value=ast.Constant(value=None))] if isinstance(s, ast.For) else []), env, eff)
        # the values the loop starts from are bound first, in an order that does not depend on names or on the layout of the loop body
        start = [nm for nm in carried if (nm in env and not (isinstance(env[nm], ast.Name) and env[nm].id == OP + nm)) or (nm not in env and nm in self.params)]
        start.sort(key=lambda nm: ast.dump(env[nm]) if nm in env else "~" + nm)
        for nm in start:
            self.to_variable(nm, env, eff)
        for nm in carried:
            env[nm] = ast.Name(id=OP + nm, ctx=ast.Load())
        e2 = dict(env)
        for nm in temps:
            e2.pop(nm, None)
        if isinstance(s, ast.For):
            it = self.subst(s.iter, env)
            if isinstance(it, ast.Constant) and isinstance(it.value, str):
                it = ast.Tuple(elts=[ast.Constant(value=ch) for ch in it.value], ctx=ast.Load())
            for nm in tnames:
                e2[nm] = ast.Name(id=OP + nm, ctx=ast.Load())
            tform = self.loop_target(s.target)
            eb, _ = self.block(s.body, e2, ())
            eb = strip_tail(eb, "continue")
            eo, _ = self.block(s.orelse, dict(env), ()) if s.orelse else ([], env)
            eff.extend(self.emit("for", [it], lambda fs: ("for", tform, fs[0], tuple(eb), tuple(eo))))
        else:
            tst = self.subst(s.test, e2)
            eb, _ = self.block(s.body, e2, ())
            eb = strip_tail(eb, "continue")
            eo, _ = self.block(s.orelse, dict(env), ()) if s.orelse else ([], env)
            eff.extend(self.emit("while", [tst], lambda fs: ("while", fs[0], tuple(eb), tuple(eo))))
        for nm in list(assigned) + sorted(tnames):
            env[nm] = ast.Name(id=OP + nm, ctx=ast.Load())
        return eff

    def loop_target(self, t):
        if isinstance(t, ast.Name):
            return self.vform(t.id)
        if isinstance(t, (ast.Tuple, ast.List)):
            return ("T", tuple(self.loop_target(e) for e in t.elts))
        raise Unsupported("loop target")


class _Prepass(ast.NodeTransformer):
    """loops that only build a list / dict, append every item, or look for a witness are rewritten into the equivalent expression form"""

    def __init__(self, nonneg=frozenset(), leaking=frozenset(), read_outside=None):
        self.nonneg = nonneg   # names that evidently hold a non-negative int (index of an enumerate loop that is never rebound)
        self.leaking = leaking  # loop variables that are read outside the body of a loop that binds them
        self.read_outside = read_outside or {}   # id(for loop) -> names read somewhere outside that loop
        self.int_names = frozenset()             # names that only ever hold an element of a range(...)
        self.shadowed = frozenset()              # builtins' names stored somewhere in the function

    def _stmts(self, body):
        out = []
        i = 0
        body = [_setdefault_as_if(s) for s in body]
        body = [s2 for s in body for s2 in _split_tuple_assign(s)]
        body = [s2 for s in body for s2 in _name_fresh_items(s)]
        # pre-order: an empty container initialised right before an if whose arms fill it moves into the arms
        pre = []
        k = 0
        body = list(body)
        while k < len(body):
            s0 = body[k]
            n0 = body[k + 1] if k + 1 < len(body) else None
            if isinstance(s0, ast.Assign) and isinstance(n0, ast.If) and len(s0.targets) == 1 and isinstance(s0.targets[0], ast.Name) and n0.orelse \
                    and _is_empty_container(s0.value) and not _uses(n0.test, s0.targets[0].id) \
                    and isinstance(n0.body[0], ast.For) and isinstance(n0.orelse[0], ast.For):
                import copy
                pre.append(ast.copy_location(ast.If(test=n0.test, body=[copy.deepcopy(s0)] + n0.body, orelse=[copy.deepcopy(s0)] + n0.orelse), n0))
                k += 2
                continue
            pre.append(s0)
            k += 1
        body = [self.visit(s) for s in pre]
        flat = []
        for s in body:
            flat.extend(s if isinstance(s, list) else [s])
        body = [_merge_if_arms(s) for s in flat]
        while i < len(body):
            s = body[i]
            nxt = body[i + 1] if i + 1 < len(body) else None
            # x = [] ; for t in it: [if c:] x.append(e)      ->  x = [e for t in it if c]
            if isinstance(s, ast.Assign) and isinstance(nxt, ast.For):
                c = _loop_as_comprehension(s, nxt, self.read_outside.get(id(nxt)))
                if c is not None:
                    out.append(c)
                    i += 2
                    continue
            # x = [] ; x.extend(G)   ->  x = [e for ...] / list(G)
            if isinstance(s, ast.Assign) and len(s.targets) == 1 and isinstance(s.targets[0], ast.Name) and isinstance(s.value, ast.List) and not s.value.elts \
                    and isinstance(nxt, ast.Expr) and isinstance(nxt.value, ast.Call) and isinstance(nxt.value.func, ast.Attribute) and nxt.value.func.attr == "extend" \
                    and isinstance(nxt.value.func.value, ast.Name) and nxt.value.func.value.id == s.targets[0].id and len(nxt.value.args) == 1 \
                    and not _uses(nxt.value.args[0], s.targets[0].id):
                g = nxt.value.args[0]
                val = ast.ListComp(elt=g.elt, generators=g.generators) if isinstance(g, ast.GeneratorExp) else ast.Call(func=ast.Name(id="list", ctx=ast.Load()), args=[g], keywords=[])
                out.append(ast.copy_location(ast.Assign(targets=s.targets, value=val), s))
                i += 2
                continue
            # for t in it: if c: return K      followed by   return not K     ->  return any(...) / not any(...)
            if isinstance(s, ast.For) and isinstance(nxt, ast.Return):
                c = _loop_as_any(s, nxt, self.read_outside.get(id(s)))
                if c is not None:
                    out.append(c)
                    i += 2
                    continue
            # for t in it: if c: break    else: ELSE      ->   if not any(c for t in it): ELSE
            if isinstance(s, ast.For) and s.orelse and len(s.body) == 1 and isinstance(s.body[0], ast.If) and not s.body[0].orelse \
                    and len(s.body[0].body) == 1 and isinstance(s.body[0].body[0], ast.Break) \
                    and not (_bound_names(s.target) & self.leaking):
                gen = ast.GeneratorExp(elt=s.body[0].test, generators=[ast.comprehension(target=s.target, iter=s.iter, ifs=[], is_async=0)])
                anyc = ast.Call(func=ast.Name(id="any", ctx=ast.Load()), args=[gen], keywords=[])
                out.append(ast.fix_missing_locations(ast.copy_location(ast.If(test=ast.UnaryOp(op=ast.Not(), operand=anyc), body=s.orelse, orelse=[]), s)))
                i += 1
                continue
            # for t in it: if c: S; break        (S does not look at t, nothing else leaves the loop)     ->   if any(c for t in it): S
            if isinstance(s, ast.For) and not s.orelse and len(s.body) == 1 and isinstance(s.body[0], ast.If) and not s.body[0].orelse \
                    and len(s.body[0].body) >= 2 and isinstance(s.body[0].body[-1], ast.Break) and not (_bound_names(s.target) & self.leaking):
                inner = s.body[0]
                acts = inner.body[:-1]
                tnames = _bound_names(s.target)
                clean = not any(isinstance(x, (ast.Break, ast.Continue, ast.Return, ast.Yield, ast.YieldFrom)) for st_ in acts for x in ast.walk(st_)) \
                    and not any(isinstance(x, ast.Name) and x.id in tnames for st_ in acts for x in ast.walk(st_))
                if clean:
                    gen = ast.GeneratorExp(elt=inner.test, generators=[ast.comprehension(target=s.target, iter=s.iter, ifs=[], is_async=0)])
                    anyc = ast.Call(func=ast.Name(id="any", ctx=ast.Load()), args=[gen], keywords=[])
                    out.append(ast.fix_missing_locations(ast.copy_location(ast.If(test=anyc, body=acts, orelse=[]), s)))
                    i += 1
                    continue
            # for t in it: L.append(e)   ->  L.extend(e for t in it)      (L.extend(it) when e is t)
            if isinstance(s, ast.For):
                c = _loop_as_extend(s)
                if c is not None:
                    out.append(c)
                    i += 1
                    continue
            out.append(s)
            i += 1
        return out

    # ---- loops: `if c: continue` followed by R at the top level of a loop body is `if not c: R`
    @staticmethod
    def _guards(body):
        for i, st in enumerate(body):
            if isinstance(st, ast.If) and not st.orelse and len(st.body) == 1 and isinstance(st.body[0], ast.Continue):
                rest = _Prepass._guards(body[i + 1:])
                if not rest:
                    return body
                new = ast.If(test=ast.UnaryOp(op=ast.Not(), operand=st.test), body=rest, orelse=[])
                return body[:i] + [ast.fix_missing_locations(ast.copy_location(new, st))]
        return body

    _fused = [0]

    def visit_For(self, node):
        it = node.iter
        if isinstance(it, ast.GeneratorExp) and len(it.generators) == 1 and not it.generators[0].is_async \
                and not any(isinstance(x, (ast.Lambda, ast.NamedExpr, ast.Yield, ast.YieldFrom, ast.Await)) for x in ast.walk(it)):
            # `for t in (E for x in S if c): body` is `for x in S: if c: t = E; body` -- the generator is consumed item by item, right here
            import copy
            g = it.generators[0]
            _Prepass._fused[0] += 1
            mapping = {x.id: "\x01fz%d_%s" % (_Prepass._fused[0], x.id) for x in ast.walk(g.target) if isinstance(x, ast.Name)}
            ren = _Rename(mapping)
            body = [ast.Assign(targets=[node.target], value=ren.visit(copy.deepcopy(it.elt)))] + list(node.body)
            if g.ifs:
                conds = [ren.visit(copy.deepcopy(c)) for c in g.ifs]
                body = [ast.If(test=conds[0] if len(conds) == 1 else ast.BoolOp(op=ast.And(), values=conds), body=body, orelse=[])]
            node.target = ren.visit(copy.deepcopy(g.target))
            node.iter = g.iter
            node.body = body
            ast.fix_missing_locations(node)
        pre = None
        it = node.iter
        if isinstance(it, ast.Call) and isinstance(it.func, ast.Name) and it.func.id == "enumerate" and isinstance(node.target, (ast.Tuple, ast.List)) and len(node.target.elts) == 2 \
                and isinstance(node.target.elts[0], ast.Name) and not any(isinstance(a, ast.Starred) for a in it.args) \
                and ((len(it.args) == 2 and not it.keywords) or (len(it.args) == 1 and len(it.keywords) == 1 and it.keywords[0].arg == "start")):
            # `for i, x in enumerate(S, k)` counts from k: `for j, x in enumerate(S): i = j + k` with k evaluated once, before the loop
            _Prepass._fused[0] += 1
            start = it.args[1] if len(it.args) == 2 else it.keywords[0].value
            jn, kn = "\x01en%d_j" % _Prepass._fused[0], "\x01en%d_k" % _Prepass._fused[0]
            pre = ast.copy_location(ast.Assign(targets=[ast.Name(id=kn, ctx=ast.Store())], value=start), node)
            first = ast.Assign(targets=[ast.Name(id=node.target.elts[0].id, ctx=ast.Store())],
                               value=ast.BinOp(left=ast.Name(id=jn, ctx=ast.Load()), op=ast.Add(), right=ast.Name(id=kn, ctx=ast.Load())))
            node.iter = ast.Call(func=it.func, args=[it.args[0]], keywords=[])
            node.target = type(node.target)(elts=[ast.Name(id=jn, ctx=ast.Store()), node.target.elts[1]], ctx=ast.Store())
            node.body = [first] + list(node.body)
            ast.fix_missing_locations(pre)
            ast.fix_missing_locations(node)
        node.body = self._guards(list(node.body)) or [ast.Pass()]
        node = self.generic_visit(node)
        return [pre, node] if pre is not None else node

    def visit_While(self, node):
        node.body = self._guards(list(node.body)) or [ast.Pass()]
        return self.generic_visit(node)

    # ---- comprehensions: `for x in tuple(y for y in S if c)` inside a comprehension is `for x in S if c[y := x]`
    def _flatten_gens(self, node):
        for g in node.generators:
            it = g.iter
            # `for k, v in filter(itemgetter(1), X)` is `for k, v in X if v`; `for x in filter(None, X)` is `for x in X if x`; `filter(lambda t: P, X)` likewise
            if isinstance(it, ast.Call) and isinstance(it.func, ast.Name) and it.func.id == "filter" and len(it.args) == 2 and not it.keywords \
                    and "filter" not in self.shadowed and not g.is_async:
                pred, src = it.args
                cond = None
                if isinstance(pred, ast.Constant) and pred.value is None and isinstance(g.target, ast.Name):
                    cond = ast.Name(id=g.target.id, ctx=ast.Load())
                elif isinstance(pred, ast.Call) and isinstance(pred.func, ast.Name) and pred.func.id == "itemgetter" and "itemgetter" not in self.shadowed \
                        and len(pred.args) == 1 and not pred.keywords and isinstance(pred.args[0], ast.Constant) and isinstance(pred.args[0].value, int) \
                        and not isinstance(pred.args[0].value, bool) and isinstance(g.target, (ast.Tuple, ast.List)) \
                        and all(isinstance(e, ast.Name) for e in g.target.elts) and 0 <= pred.args[0].value < len(g.target.elts):
                    cond = ast.Name(id=g.target.elts[pred.args[0].value].id, ctx=ast.Load())
                elif isinstance(pred, ast.Lambda) and isinstance(g.target, ast.Name) and len(pred.args.args) == 1 and not pred.args.defaults and not pred.args.vararg \
                        and not pred.args.kwarg and not pred.args.kwonlyargs and not pred.args.posonlyargs \
                        and not any(isinstance(x, (ast.Lambda, ast.ListComp, ast.GeneratorExp, ast.SetComp, ast.DictComp)) for x in ast.walk(pred.body)) \
                        and (pred.args.args[0].arg == g.target.id or not any(isinstance(x, ast.Name) and x.id == g.target.id for x in ast.walk(pred.body))):
                    import copy
                    cond = _Rename({pred.args.args[0].arg: g.target.id}).visit(copy.deepcopy(pred.body)) if pred.args.args[0].arg != g.target.id else pred.body
                if cond is not None:
                    g.iter = src
                    g.ifs = [ast.fix_missing_locations(ast.copy_location(cond, it))] + list(g.ifs)
                    it = g.iter
            if isinstance(it, ast.Call) and isinstance(it.func, ast.Name) and it.func.id in ("tuple", "list") and len(it.args) == 1 and not it.keywords:
                it = it.args[0]
            if isinstance(it, (ast.GeneratorExp, ast.ListComp)) and len(it.generators) == 1 and isinstance(it.elt, ast.Name) and isinstance(it.generators[0].target, ast.Name) \
                    and it.elt.id == it.generators[0].target.id and isinstance(g.target, ast.Name) and not it.generators[0].is_async:
                inner = it.generators[0]
                ren = _Rename({inner.target.id: g.target.id})
                import copy
                if inner.target.id != g.target.id and (any(isinstance(x, ast.Name) and x.id == g.target.id for c in inner.ifs for x in ast.walk(c))
                                                       or any(isinstance(x, ast.Name) and x.id == g.target.id for x in ast.walk(inner.iter))):
                    continue
                g.iter = inner.iter
                g.ifs = [ren.visit(copy.deepcopy(c)) for c in inner.ifs] + list(g.ifs)
        return node

    def visit_ListComp(self, node):
        # a comprehension is a scope of its own: its variable over range(...) / its enumerate index is an int inside it whatever the name means elsewhere
        saved = self.int_names
        own_int, own_other = set(), set()
        for g in node.generators:
            it = g.iter
            if isinstance(g.target, ast.Name) and isinstance(it, ast.Call) and isinstance(it.func, ast.Name) and it.func.id == "range" and not it.keywords:
                own_int.add(g.target.id)
            elif isinstance(g.target, ast.Tuple) and len(g.target.elts) == 2 and isinstance(g.target.elts[0], ast.Name) and isinstance(it, ast.Call) \
                    and isinstance(it.func, ast.Name) and it.func.id == "enumerate" and len(it.args) == 1 and not it.keywords:
                own_int.add(g.target.elts[0].id)
                own_other |= {x.id for x in ast.walk(g.target.elts[1]) if isinstance(x, ast.Name)}
            else:
                own_other |= {x.id for x in ast.walk(g.target) if isinstance(x, ast.Name)}
        rebound_inside = {x.target.id for x in ast.walk(node) if isinstance(x, ast.NamedExpr) and isinstance(x.target, ast.Name)}
        nested_targets = {y.id for x in ast.walk(node) if isinstance(x, ast.comprehension) and x not in node.generators for y in ast.walk(x.target) if isinstance(y, ast.Name)}
        saved_nn = self.nonneg
        own_idx = {g.target.elts[0].id for g in node.generators if isinstance(g.target, ast.Tuple) and len(g.target.elts) == 2 and isinstance(g.target.elts[0], ast.Name)
                   and isinstance(g.iter, ast.Call) and isinstance(g.iter.func, ast.Name) and g.iter.func.id == "enumerate" and len(g.iter.args) == 1 and not g.iter.keywords}
        if "range" not in self.shadowed and "enumerate" not in self.shadowed:
            self.int_names = frozenset((set(saved) - own_other) | (own_int - own_other - rebound_inside - nested_targets))
            self.nonneg = frozenset((set(saved_nn) - own_other - (own_int - own_idx)) | (own_idx - own_other - rebound_inside - nested_targets))
        else:
            self.int_names = frozenset(set(saved) - own_other - own_int)
            self.nonneg = frozenset(set(saved_nn) - own_other - own_int)
        try:
            self.generic_visit(node)
        finally:
            self.int_names = saved
            self.nonneg = saved_nn
        return self._flatten_gens(node)

    visit_SetComp = visit_GeneratorExp = visit_DictComp = visit_ListComp

    # ---- expressions
    def visit_Compare(self, node):
        self.generic_visit(node)
        return _int_compare(node, self.nonneg)

    def visit_Call(self, node):
        self.generic_visit(node)
        node = _min_max_as_ifexp(node)
        if isinstance(node, ast.Call):
            node = _format_call_as_fstring(node)
        return node

    def visit_BinOp(self, node):
        self.generic_visit(node)
        return _percent_as_fstring(node, self.nonneg | self.int_names)

    def visit_JoinedStr(self, node):
        self.generic_visit(node)
        return _tidy_fstring(node, self.nonneg | self.int_names)

    def generic_visit(self, node):
        for fld, val in ast.iter_fields(node):
            if isinstance(val, list) and val and isinstance(val[0], ast.stmt):
                setattr(node, fld, self._stmts(val))
            elif isinstance(val, list):
                setattr(node, fld, [self.visit(x) if isinstance(x, ast.AST) else x for x in val])
            elif isinstance(val, ast.AST):
                setattr(node, fld, self.visit(val))
        return node


def _is_empty_container(v):
    return (isinstance(v, ast.List) and not v.elts) or (isinstance(v, ast.Dict) and not v.keys) or \
        (isinstance(v, ast.Call) and isinstance(v.func, ast.Name) and v.func.id in ("list", "dict", "OrderedDict") and not v.args and not v.keywords)


def _uses(node, nm):
    return any(isinstance(x, ast.Name) and x.id == nm for x in ast.walk(node))


class _Sub(ast.NodeTransformer):
    def __init__(self, name, value):
        self.name, self.value = name, value

    def visit_Name(self, node):
        if node.id == self.name and isinstance(node.ctx, ast.Load):
            return self.value
        return node


def _inline_leading_temps(body, keep=None):
    """`t = e ; <last statement using t>`  ->  the last statement with e in place of t (only plain single-name temporaries that nothing outside
    the loop reads; `keep`: names read outside, None when unknown)"""
    import copy
    body = list(body)
    while len(body) > 1:
        st = body[0]
        if not (isinstance(st, ast.Assign) and len(st.targets) == 1 and isinstance(st.targets[0], ast.Name)):
            return None
        nm = st.targets[0].id
        if keep is None or nm in keep:
            return None
        if _uses(st.value, nm) or any(isinstance(x, ast.Name) and x.id == nm and isinstance(x.ctx, ast.Store) for s2 in body[1:] for x in ast.walk(s2)):
            return None
        if any(isinstance(x, ast.Lambda) for s2 in body[1:] for x in ast.walk(s2)):
            return None
        # substituting into a comprehension is fine as long as the comprehension binds neither the temporary nor a name its value mentions
        val_names = {x.id for x in ast.walk(st.value) if isinstance(x, ast.Name)} | {nm}
        comp_bound = {y.id for s2 in body[1:] for x in ast.walk(s2) if isinstance(x, ast.comprehension) for y in ast.walk(x.target) if isinstance(y, ast.Name)}
        if comp_bound & val_names:
            return None
        body = [_Sub(nm, st.value).visit(copy.deepcopy(s2)) for s2 in body[1:]]
    return body


def _loop_as_comprehension(s, lp, read_outside=None):
    if len(s.targets) != 1 or not isinstance(s.targets[0], ast.Name) or lp.orelse:
        return None
    nm = s.targets[0].id
    v = s.value
    is_list = (isinstance(v, ast.List) and not v.elts) or (isinstance(v, ast.Call) and isinstance(v.func, ast.Name) and v.func.id == "list" and not v.args)
    is_dict = (isinstance(v, ast.Dict) and not v.keys) or (isinstance(v, ast.Call) and isinstance(v.func, ast.Name) and v.func.id in ("dict", "OrderedDict") and not v.args and not v.keywords)
    if not (is_list or is_dict):
        return None
    body, conds = lp.body, []
    for _ in range(12):   # conditions and temporaries of the iteration may alternate: `t = e; if c(t): u = f(t); if d(u): L.append(..)`
        if len(body) == 1 and isinstance(body[0], ast.If) and not body[0].orelse:
            conds.append(body[0].test)
            body = body[0].body
        elif len(body) > 1:
            body = _inline_leading_temps(body, read_outside)
            if body is None:
                return None
        else:
            break
    if body is None or len(body) != 1 or any(_uses(c, nm) for c in conds) or _uses(lp.iter, nm):
        return None
    b = body[0]
    gen = ast.comprehension(target=lp.target, iter=lp.iter, ifs=conds, is_async=0)
    if is_list and isinstance(b, ast.Expr) and isinstance(b.value, ast.Call) and isinstance(b.value.func, ast.Attribute) and b.value.func.attr == "append" \
            and isinstance(b.value.func.value, ast.Name) and b.value.func.value.id == nm and len(b.value.args) == 1 and not _uses(b.value.args[0], nm):
        return ast.copy_location(ast.Assign(targets=s.targets, value=ast.ListComp(elt=b.value.args[0], generators=[gen])), s)
    if is_dict and isinstance(b, ast.Assign) and len(b.targets) == 1 and isinstance(b.targets[0], ast.Subscript) and isinstance(b.targets[0].value, ast.Name) \
            and b.targets[0].value.id == nm and not _uses(b.value, nm) and not _uses(b.targets[0].slice, nm):
        comp = ast.DictComp(key=b.targets[0].slice, value=b.value, generators=[gen])
        val = comp if isinstance(v, ast.Dict) or v.func.id == "dict" else ast.Call(func=v.func, args=[comp], keywords=[])
        return ast.copy_location(ast.Assign(targets=s.targets, value=val), s)
    return None


def _loop_as_any(lp, ret, read_outside=None):
    body = lp.body
    if len(body) > 1:
        body = _inline_leading_temps(body, read_outside)   # temporaries of the iteration in front of the test
        if body is None:
            return None
    if lp.orelse or len(body) != 1 or not isinstance(body[0], ast.If) or body[0].orelse:
        return None
    inner = body[0]
    if len(inner.body) != 1 or not isinstance(inner.body[0], ast.Return):
        return None
    a, b = inner.body[0].value, ret.value
    if not (isinstance(a, ast.Constant) and isinstance(b, ast.Constant) and isinstance(a.value, bool) and isinstance(b.value, bool) and a.value != b.value):
        return None
    gen = ast.GeneratorExp(elt=inner.test, generators=[ast.comprehension(target=lp.target, iter=lp.iter, ifs=[], is_async=0)])
    anyc = ast.Call(func=ast.Name(id="any", ctx=ast.Load()), args=[gen], keywords=[])
    return ast.copy_location(ast.Return(value=anyc if a.value else ast.UnaryOp(op=ast.Not(), operand=anyc)), lp)


def _loop_as_extend(lp):
    """for t in it: [if c: [if c2:]] L.append(e)  ->  L.extend(e for t in it if c if c2)   (L.extend(it) when e is t and there is no condition);
    likewise S.add(e) -> S.update(...)"""
    if lp.orelse or len(lp.body) != 1:
        return None
    b = lp.body[0]
    conds = []
    while isinstance(b, ast.If) and not b.orelse and len(b.body) == 1:
        conds.append(b.test)
        b = b.body[0]
    if not (isinstance(b, ast.Expr) and isinstance(b.value, ast.Call) and isinstance(b.value.func, ast.Attribute) and b.value.func.attr in ("append", "add")
            and isinstance(b.value.func.value, ast.Name) and len(b.value.args) == 1 and not b.value.keywords):
        return None
    lst = b.value.func.value
    e = b.value.args[0]
    if _uses(lp.iter, lst.id) or _uses(e, lst.id) or lst.id in _bound_names(lp.target) or any(_uses(c, lst.id) for c in conds):
        return None
    if isinstance(e, ast.Name) and isinstance(lp.target, ast.Name) and e.id == lp.target.id and not conds:
        arg = lp.iter
    else:
        arg = ast.GeneratorExp(elt=e, generators=[ast.comprehension(target=lp.target, iter=lp.iter, ifs=conds, is_async=0)])
    meth = "extend" if b.value.func.attr == "append" else "update"
    return ast.fix_missing_locations(ast.copy_location(ast.Expr(value=ast.Call(func=ast.Attribute(value=lst, attr=meth, ctx=ast.Load()), args=[arg], keywords=[])), lp))


def _scope_names(fn) -> set:
    """parameters and names bound in fn (its own scope and, conservatively, nested function scopes; comprehension variables are scopes of their own)"""
    a = fn.args
    out = {p.arg for p in a.posonlyargs + a.args + a.kwonlyargs}
    if a.vararg:
        out.add(a.vararg.arg)
    if a.kwarg:
        out.add(a.kwarg.arg)

    def rec(n):
        for ch in ast.iter_child_nodes(n):
            if isinstance(ch, (ast.ListComp, ast.SetComp, ast.DictComp, ast.GeneratorExp)):
                continue
            if isinstance(ch, ast.Name) and isinstance(ch.ctx, (ast.Store, ast.Del)):
                out.add(ch.id)
            elif isinstance(ch, (ast.FunctionDef, ast.AsyncFunctionDef, ast.ClassDef)):
                out.add(ch.name)
            elif isinstance(ch, ast.alias):
                out.add((ch.asname or ch.name).split(".")[0])
            elif isinstance(ch, ast.ExceptHandler) and ch.name:
                out.add(ch.name)
            elif isinstance(ch, ast.arg):
                out.add(ch.arg)
            rec(ch)
    rec(fn)
    return out


def _helper_locals(helper) -> set:
    a = helper.args
    out = {p.arg for p in a.posonlyargs + a.args + a.kwonlyargs}
    if a.vararg:
        out.add(a.vararg.arg)
    if a.kwarg:
        out.add(a.kwarg.arg)

    def rec(n):
        for ch in ast.iter_child_nodes(n):
            if isinstance(ch, (ast.ListComp, ast.SetComp, ast.DictComp, ast.GeneratorExp, ast.Lambda)):
                continue   # own scope
            if isinstance(ch, ast.Name) and isinstance(ch.ctx, (ast.Store, ast.Del)):
                out.add(ch.id)
            elif isinstance(ch, ast.alias):
                out.add((ch.asname or ch.name).split(".")[0])
            elif isinstance(ch, ast.ExceptHandler) and ch.name:
                out.add(ch.name)
            rec(ch)
    rec(helper)
    return out


def _free_names(helper) -> set:
    """names a helper reads that are neither its own locals nor bound by an enclosing comprehension / lambda inside it"""
    loc = _helper_locals(helper)
    out = set()

    def rec(n, bound):
        if isinstance(n, ast.Name):
            if n.id not in bound:
                out.add(n.id)
            return
        if isinstance(n, (ast.ListComp, ast.SetComp, ast.DictComp, ast.GeneratorExp)):
            b = bound
            for g in n.generators:
                rec(g.iter, b)
                b = b | _bound_names(g.target)
                for c in g.ifs:
                    rec(c, b)
            if isinstance(n, ast.DictComp):
                rec(n.key, b)
                rec(n.value, b)
            else:
                rec(n.elt, b)
            return
        if isinstance(n, ast.Lambda):
            a = n.args
            names = {p.arg for p in a.posonlyargs + a.args + a.kwonlyargs} | ({a.vararg.arg} if a.vararg else set()) | ({a.kwarg.arg} if a.kwarg else set())
            for d in list(a.defaults) + [d for d in a.kw_defaults if d is not None]:
                rec(d, bound)
            rec(n.body, bound | names)
            return
        for ch in ast.iter_child_nodes(n):
            rec(ch, bound)
    rec(helper, frozenset(loc))
    return out


def _unroll_literal_loop(node):
    """`for t in (e1, e2, e3): body` without break / continue / else is `t = e1; body; t = e2; body; t = e3; body` (a short display only)"""
    import copy
    it = node.iter
    if isinstance(it, ast.Constant) and isinstance(it.value, str) and 0 < len(it.value) <= 4:
        elts = [ast.Constant(value=ch) for ch in it.value]
    elif isinstance(it, (ast.Tuple, ast.List)) and 0 < len(it.elts) <= 6 and not any(isinstance(e, ast.Starred) for e in it.elts):
        elts = list(it.elts)
    else:
        return None
    if node.orelse or not all(_ast_pure(e) for e in elts):
        return None

    def jumps(stmts):
        for st in stmts:
            if isinstance(st, (ast.Break, ast.Continue)):
                return True
            if isinstance(st, (ast.For, ast.While, ast.FunctionDef, ast.AsyncFunctionDef, ast.ClassDef)):
                if isinstance(st, (ast.For, ast.While)) and jumps(st.orelse):
                    return True
                continue
            for fld in ("body", "orelse", "finalbody"):
                if jumps(getattr(st, fld, None) or []):
                    return True
            if isinstance(st, ast.Try) and any(jumps(h.body) for h in st.handlers):
                return True
        return False
    if jumps(node.body) or sum(1 for st in node.body for _ in ast.walk(st)) * len(elts) > 1500:
        return None
    # a loop that only collects (`L.append(f(x))`, `d[k] = v`, possibly under conditions, after temporaries) is the comprehension it spells out: left to the pre-pass
    last = node.body[-1]
    while isinstance(last, ast.If) and not last.orelse and last.body:
        last = last.body[-1]
    collects = (isinstance(last, ast.Expr) and isinstance(last.value, ast.Call) and isinstance(last.value.func, ast.Attribute) and last.value.func.attr in ("append", "add", "extend", "update")) \
        or (isinstance(last, ast.Assign) and len(last.targets) == 1 and isinstance(last.targets[0], ast.Subscript))
    if collects and all(isinstance(st, ast.Assign) and len(st.targets) == 1 and isinstance(st.targets[0], ast.Name) for st in node.body[:-1]):
        return None
    if any(isinstance(x, (ast.FunctionDef, ast.AsyncFunctionDef, ast.ClassDef)) for st in node.body for x in ast.walk(st)):
        return None
    out = []
    for e in elts:
        out.append(ast.Assign(targets=[copy.deepcopy(node.target)], value=copy.deepcopy(e)))
        out.extend(copy.deepcopy(st) for st in node.body)
    for st in out:
        ast.copy_location(st, node)
        ast.fix_missing_locations(st)
    return out


def _unroll_literal_loops(fn):
    if not any(isinstance(x, ast.For) and isinstance(x.iter, (ast.Tuple, ast.List, ast.Constant)) for x in ast.walk(fn)):
        return fn
    import copy
    fn = copy.deepcopy(fn)

    class T(ast.NodeTransformer):
        def visit_For(self, node):
            self.generic_visit(node)
            r = _unroll_literal_loop(node)
            return node if r is None else r

        def visit_FunctionDef(self, node):
            return self.generic_visit(node) if node is fn else node

        def visit_Lambda(self, node):
            return node
    return T().visit(fn)


_PREPASSED: Dict[int, tuple] = {}


def _prepassed_helper(h):
    """the helper with the expression-level rewrites of the pre-pass applied to its body (comparisons of evident integers, min/max, formats ...): what is
    inlined from it then has the same spelling as when it is written in place.  Loops are left alone (a helper's loop is not turned into a comprehension here:
    whether the helper is loop-free decides how it is inlined)."""
    hit = _PREPASSED.get(id(h))
    if hit is not None and hit[0] is h:
        return hit[1]
    out = h
    try:
        if not any(isinstance(x, (ast.For, ast.While)) for x in ast.walk(h)):
            out = prepass(h)
            if getattr(h, "lineno", None) is not None:
                out.lineno = h.lineno
    except (Unsupported, RecursionError):
        out = h
    if len(_PREPASSED) > 4000:
        _PREPASSED.clear()
    _PREPASSED[id(h)] = (h, out)
    _PREPASSED[id(out)] = (out, out)
    return out


def _defined_in(fn, helper) -> bool:
    return any(isinstance(n, (ast.FunctionDef, ast.AsyncFunctionDef)) and n is not fn and Normaliser._same_def(n, helper) for n in ast.walk(fn))


_SIMPLE_BAN = (ast.For, ast.While, ast.Try, ast.With, ast.Yield, ast.YieldFrom, ast.FunctionDef, ast.AsyncFunctionDef, ast.Raise, ast.Assert)


def _is_simple_helper(helper) -> bool:
    """the expression-level inliner (Normaliser.inline_ast) takes it"""
    if any(x is not helper and isinstance(x, _SIMPLE_BAN) for x in ast.walk(helper)):
        return False

    def ok(stmts):
        for st in stmts:
            if isinstance(st, ast.Pass) or (isinstance(st, ast.Expr) and isinstance(st.value, ast.Constant)) or isinstance(st, ast.Return):
                continue
            if isinstance(st, ast.Assign) and len(st.targets) == 1 and isinstance(st.targets[0], ast.Name):
                continue
            if isinstance(st, ast.If) and ok(st.body) and ok(st.orelse):
                continue
            return False
        return True
    return ok(helper.body)


def _single_exit(stmts, ret):
    """the statements with every `return e` in tail position replaced by `ret = e` (continuation sunk into the arms of an if that returns); None when
    a return sits inside a loop / try / with"""
    out = []
    stmts = list(stmts)
    for i, st in enumerate(stmts):
        has_ret = any(isinstance(x, ast.Return) for x in ast.walk(st)) and not isinstance(st, (ast.FunctionDef, ast.AsyncFunctionDef, ast.ClassDef))
        if not has_ret:
            out.append(st)
            if isinstance(st, ast.Raise):
                return out
            continue
        if isinstance(st, ast.Return):
            out.append(ast.copy_location(ast.Assign(targets=[ast.Name(id=ret, ctx=ast.Store())], value=st.value or ast.Constant(value=None)), st))
            return out
        if isinstance(st, ast.If):
            rest = stmts[i + 1:]
            import copy
            a_ = _single_exit(list(st.body) + copy.deepcopy(rest), ret)
            b_ = _single_exit(list(st.orelse) + copy.deepcopy(rest), ret)
            if a_ is None or b_ is None:
                return None
            out.append(ast.copy_location(ast.If(test=st.test, body=a_ or [ast.Pass()], orelse=b_), st))
            return out
        return None
    out.append(ast.Assign(targets=[ast.Name(id=ret, ctx=ast.Store())], value=ast.Constant(value=None)))
    return out


class _Rename(ast.NodeTransformer):
    def __init__(self, mapping):
        self.mapping = mapping

    def visit_Name(self, node):
        if node.id in self.mapping:
            return ast.copy_location(ast.Name(id=self.mapping[node.id], ctx=node.ctx), node)
        return node

    def visit_ExceptHandler(self, node):
        self.generic_visit(node)
        if node.name in self.mapping:
            node.name = self.mapping[node.name]
        return node


def _unconditional_calls(expr):
    """Call nodes of an expression that are evaluated whenever the expression is (not under a conditional arm, a lambda or a comprehension body), in order"""
    out = []

    def rec(n):
        if isinstance(n, ast.Lambda):
            return
        if isinstance(n, ast.IfExp):
            rec(n.test)
            return
        if isinstance(n, ast.BoolOp):
            rec(n.values[0])
            return
        if isinstance(n, (ast.ListComp, ast.SetComp, ast.DictComp, ast.GeneratorExp)):
            rec(n.generators[0].iter)
            return
        for ch in ast.iter_child_nodes(n):
            rec(ch)
        if isinstance(n, ast.Call):
            out.append(n)
    rec(expr)
    return out


class _ReplaceNode(ast.NodeTransformer):
    def __init__(self, old, new):
        self.old, self.new = old, new

    def visit(self, node):
        if node is self.old:
            return self.new
        return self.generic_visit(node)


def inline_procedures(fn, helpers, methods):
    """Statement-level inlining: a call of a helper that exists on this side only and is more than an expression (loops, several statements, raises) is
    replaced by the helper's body -- parameters bound to the arguments, locals renamed apart, `return e` turned into a binding of the call's value --
    placed right before the statement that contains the call.  Only calls that the statement evaluates unconditionally are taken; everything else stays
    a call (and then simply does not match the other side)."""
    if not helpers and not methods:
        return fn
    import copy
    fn = copy.deepcopy(fn)
    scope = _scope_names(fn)
    counter = [0]

    def candidate(call):
        f = call.func
        helper, bself = None, None
        if isinstance(f, ast.Name) and f.id in helpers:
            helper = helpers[f.id]
            if f.id in scope and not _defined_in(fn, helper):
                return None   # the name is rebound locally: not (necessarily) the helper
        elif isinstance(f, ast.Attribute) and isinstance(f.value, ast.Name) and f.value.id in ("self", "cls") and f.attr in methods:
            helper, bself = methods[f.attr], f.value
        if helper is None or _is_simple_helper(helper):
            return None
        a = helper.args
        if a.vararg or a.kwarg or a.kwonlyargs or a.posonlyargs or helper.decorator_list and bself is None:
            return None
        if bself is not None and any(not (isinstance(d, ast.Name) and d.id in ("classmethod",)) for d in helper.decorator_list):
            return None
        for x in ast.walk(helper):
            if x is not helper and isinstance(x, (ast.Yield, ast.YieldFrom, ast.Await, ast.FunctionDef, ast.AsyncFunctionDef, ast.ClassDef, ast.Lambda, ast.Global, ast.Nonlocal, ast.Delete, ast.NamedExpr)):
                return None
        if any(isinstance(x, ast.Starred) for x in call.args) or any(k.arg is None for k in call.keywords):
            return None
        if not _defined_in(fn, helper) and (_free_names(helper) & scope):
            return None
        names = [p.arg for p in a.args]
        given = {}
        if bself is not None:
            if not names:
                return None
            given[names[0]] = bself
            names = names[1:]
        if len(call.args) > len(names):
            return None
        for p, v in zip(names, call.args):
            given[p] = v
        for k in call.keywords:
            if k.arg not in names or k.arg in given:
                return None
            given[k.arg] = k.value
        defaults = dict(zip([p.arg for p in a.args][len(a.args) - len(a.defaults):], a.defaults))
        for p in names:
            if p not in given:
                d = defaults.get(p)
                if d is None or not (isinstance(d, ast.Constant) or (isinstance(d, (ast.Name, ast.Attribute)) and Normaliser._root(d) not in scope)):
                    return None
                given[p] = d
        return helper, given, [p.arg for p in a.args]

    def expand(call, depth):
        """(statements, name holding the value) or None"""
        c = candidate(call)
        if c is None:
            return None
        helper, given, order = c
        counter[0] += 1
        pre = "_inl%d_" % counter[0]
        mapping = {nm: pre + nm for nm in _helper_locals(helper)}
        ret = pre + "return"
        body = _single_exit(copy.deepcopy(_body(helper)), ret)
        if body is None:
            return None
        body = [_Rename(mapping).visit(st) for st in body]
        # a generator expression handed to a parameter that the helper only iterates once, in a top-level loop, is consumed right there
        direct = set()
        for p_ in order:
            if isinstance(given[p_], ast.GeneratorExp):
                uses = [x for st in body for x in ast.walk(st) if isinstance(x, ast.Name) and x.id == mapping[p_]]
                loops = [st for st in body if isinstance(st, ast.For) and isinstance(st.iter, ast.Name) and st.iter.id == mapping[p_]]
                before = body[:body.index(loops[0])] if len(loops) == 1 else []
                quiet = all(isinstance(st, ast.Assign) and not any(isinstance(x, (ast.Call, ast.Yield, ast.YieldFrom, ast.Await, ast.NamedExpr)) for x in ast.walk(st)) for st in before)
                if len(uses) == 1 and len(loops) == 1 and uses[0] is loops[0].iter and quiet:
                    loops[0].iter = given[p_]
                    direct.add(p_)
        binds = [ast.Assign(targets=[ast.Name(id=mapping[p], ctx=ast.Store())], value=given[p]) for p in order if p not in direct]
        stmts = binds + body
        for st in stmts:
            ast.fix_missing_locations(st)
        if depth < 3:
            stmts = do_block(stmts, depth + 1)
        return stmts, ret

    def expand_in(exprs, depth):
        """inline the unconditional helper calls of the given expression holders [(node, field)]; returns the statements to put in front"""
        front = []
        for holder, fld in exprs:
            for _ in range(8):
                e = getattr(holder, fld)
                if e is None:
                    break
                done = False
                for call in _unconditional_calls(e):
                    r = expand(call, depth)
                    if r is None:
                        continue
                    stmts, ret = r
                    front.extend(stmts)
                    new = ast.Name(id=ret, ctx=ast.Load())
                    setattr(holder, fld, new if e is call else _ReplaceNode(call, new).visit(e))
                    done = True
                    break
                if not done:
                    break
        return front

    def do_block(stmts, depth):
        out = []
        for st in stmts:
            if isinstance(st, (ast.FunctionDef, ast.AsyncFunctionDef, ast.ClassDef)):
                out.append(st)
                continue
            front = []
            if isinstance(st, (ast.Assign, ast.AugAssign, ast.AnnAssign, ast.Expr, ast.Return)):
                front = expand_in([(st, "value")], depth)
            elif isinstance(st, ast.If):
                front = expand_in([(st, "test")], depth)
            elif isinstance(st, ast.For):
                front = expand_in([(st, "iter")], depth)
            for fld in ("body", "orelse", "finalbody"):
                lst = getattr(st, fld, None)
                if isinstance(lst, list) and lst and isinstance(lst[0], ast.stmt):
                    setattr(st, fld, do_block(lst, depth))
            if isinstance(st, ast.Try):
                for h in st.handlers:
                    h.body = do_block(h.body, depth)
            out.extend(front)
            if front and isinstance(st, ast.Expr) and isinstance(st.value, ast.Name) and st.value.id.startswith("_inl") and st.value.id.endswith("_return"):
                continue   # the call was the whole statement: its value is not used
            out.append(st)
        return out

    fn.body = do_block(fn.body, 0)
    return fn


def _reference_structure(e) -> bool:
    if isinstance(e, (ast.Name, ast.Constant)):
        return True
    if isinstance(e, ast.Tuple):
        return all(_reference_structure(x) for x in e.elts)
    return False


_FRESH = [0]


def _name_fresh_items(s):
    """`t = ([], {})` (also as the last link of `t = a, b = [], {}`): the new containers get names of their own first and the tuple is a tuple of those names.
    A tuple cannot be changed, so only its items matter; named, they are the same objects whichever way they are reached (`t[0]`, `a`, `for c in t`)."""
    if not (isinstance(s, ast.Assign) and isinstance(s.value, ast.Tuple) and not any(isinstance(e, ast.Starred) for e in s.value.elts)):
        return [s]
    fresh = (ast.List, ast.Dict, ast.Set, ast.ListComp, ast.DictComp, ast.SetComp)
    if not any(isinstance(e, fresh) for e in s.value.elts) or not all(isinstance(e, fresh + (ast.Name, ast.Constant)) for e in s.value.elts):
        return [s]
    if len(s.targets) == 1 and isinstance(s.targets[0], (ast.Tuple, ast.List)):
        return [s]    # plain unpacking: nothing keeps the tuple
    _FRESH[0] += 1
    out, elts = [], []
    for i, e in enumerate(s.value.elts):
        if isinstance(e, fresh):
            nm = "\x01tp%d_%d" % (_FRESH[0], i)
            out.append(ast.fix_missing_locations(ast.copy_location(ast.Assign(targets=[ast.Name(id=nm, ctx=ast.Store())], value=e), s)))
            elts.append(ast.Name(id=nm, ctx=ast.Load()))
        else:
            elts.append(e)
    new = ast.Assign(targets=s.targets, value=ast.Tuple(elts=elts, ctx=ast.Load()))
    out.append(ast.fix_missing_locations(ast.copy_location(new, s)))
    return out


def _split_tuple_assign(s):
    """`a, b = x, y` with neither name occurring in x or y is `a = x; b = y`"""
    if isinstance(s, ast.Assign) and len(s.targets) == 1 and isinstance(s.targets[0], ast.Tuple) and isinstance(s.value, ast.Tuple) \
            and len(s.targets[0].elts) == len(s.value.elts) and all(isinstance(t, ast.Name) for t in s.targets[0].elts):
        names = {t.id for t in s.targets[0].elts}
        if len(names) == len(s.targets[0].elts) and not any(isinstance(x, ast.Name) and x.id in names for v in s.value.elts for x in ast.walk(v)) \
                and not any(isinstance(x, (ast.Lambda, ast.Starred)) for v in s.value.elts for x in ast.walk(v)):
            return [ast.fix_missing_locations(ast.copy_location(ast.Assign(targets=[ast.Name(id=t.id, ctx=ast.Store())], value=v), s)) for t, v in zip(s.targets[0].elts, s.value.elts)]
    return [s]


def _setdefault_as_if(s):
    """`d.setdefault(k, v)` as a statement  ->  `if k not in d: d[k] = v`"""
    if isinstance(s, ast.Expr) and isinstance(s.value, ast.Call) and isinstance(s.value.func, ast.Attribute) and s.value.func.attr == "setdefault" \
            and len(s.value.args) == 2 and not s.value.keywords and isinstance(s.value.func.value, ast.Name):
        d, (k, v) = s.value.func.value, s.value.args
        tgt = ast.Subscript(value=ast.Name(id=d.id, ctx=ast.Load()), slice=k, ctx=ast.Store())
        new = ast.If(test=ast.Compare(left=k, ops=[ast.NotIn()], comparators=[ast.Name(id=d.id, ctx=ast.Load())]), body=[ast.Assign(targets=[tgt], value=v)], orelse=[])
        return ast.fix_missing_locations(ast.copy_location(new, s))
    return s


def _merge_if_arms(s):
    """`if t: X.m(a) else: X.m(b)` -> `X.m(a if t else b)`;  `if t: X[k] = a else: X[k] = b` -> `X[k] = a if t else b`  (one statement per arm, same shape)"""
    if not (isinstance(s, ast.If) and len(s.body) == 1 and len(s.orelse) == 1):
        return s
    a, b = s.body[0], s.orelse[0]
    if isinstance(a, ast.Expr) and isinstance(b, ast.Expr) and isinstance(a.value, ast.Call) and isinstance(b.value, ast.Call):
        ca, cb = a.value, b.value
        if ast.dump(ca.func) == ast.dump(cb.func) and len(ca.args) == len(cb.args) and not any(isinstance(x, ast.Starred) for x in ca.args + cb.args) \
                and [ast.dump(k) for k in ca.keywords] == [ast.dump(k) for k in cb.keywords] and isinstance(ca.func, ast.Attribute):
            diff = [i for i, (x, y) in enumerate(zip(ca.args, cb.args)) if ast.dump(x) != ast.dump(y)]
            if len(diff) == 1 and diff[0] == 0 or (len(diff) == 1 and all(isinstance(x, (ast.Name, ast.Constant)) for x in ca.args[:diff[0]])):
                i = diff[0]
                args = list(ca.args)
                args[i] = ast.IfExp(test=s.test, body=ca.args[i], orelse=cb.args[i])
                return ast.fix_missing_locations(ast.copy_location(ast.Expr(value=ast.Call(func=ca.func, args=args, keywords=ca.keywords)), s))
    if isinstance(a, ast.Assign) and isinstance(b, ast.Assign) and len(a.targets) == 1 and len(b.targets) == 1 \
            and isinstance(a.targets[0], (ast.Subscript, ast.Attribute)) and ast.dump(a.targets[0]) == ast.dump(b.targets[0]):
        return ast.fix_missing_locations(ast.copy_location(ast.Assign(targets=a.targets, value=ast.IfExp(test=s.test, body=a.value, orelse=b.value)), s))
    return s


def _map_as_genexp(node, prepass_obj):
    """map(f, xs[, ys ...]) with f a plain (dotted) name is the generator expression (f(x) for x in xs) / (f(x, y) for x, y in zip(xs, ys)): both are lazy
    and call f once per item, in order"""
    f = node.func
    if not (isinstance(f, ast.Name) and f.id == "map" and len(node.args) >= 2 and not node.keywords and not any(isinstance(a, ast.Starred) for a in node.args)):
        return node
    fn = node.args[0]
    probe = fn
    while isinstance(probe, ast.Attribute):
        probe = probe.value
    if not isinstance(probe, ast.Name):
        return node
    prepass_obj.n_map = getattr(prepass_obj, "n_map", 0) + 1
    names = ["_map%d_%d" % (prepass_obj.n_map, i) for i in range(len(node.args) - 1)]
    if len(names) == 1:
        target = ast.Name(id=names[0], ctx=ast.Store())
        it = node.args[1]
    else:
        target = ast.Tuple(elts=[ast.Name(id=n_, ctx=ast.Store()) for n_ in names], ctx=ast.Store())
        it = ast.Call(func=ast.Name(id="zip", ctx=ast.Load()), args=list(node.args[1:]), keywords=[])
    elt = ast.Call(func=fn, args=[ast.Name(id=n_, ctx=ast.Load()) for n_ in names], keywords=[])
    return ast.fix_missing_locations(ast.copy_location(ast.GeneratorExp(elt=elt, generators=[ast.comprehension(target=target, iter=it, ifs=[], is_async=0)]), node))


def _min_max_as_ifexp(node):
    """min(a, b[, key=k]) / max(a, b[, key=k]) with exactly two positional arguments: the conditional expression the builtin computes"""
    f = node.func
    if not (isinstance(f, ast.Name) and f.id in ("min", "max") and len(node.args) == 2 and not any(isinstance(x, ast.Starred) for x in node.args)):
        return node
    if any(k.arg != "key" for k in node.keywords) or len(node.keywords) > 1:
        return node
    a, b = node.args
    import copy
    ka, kb = copy.deepcopy(a), copy.deepcopy(b)
    if node.keywords:
        key = node.keywords[0].value
        ka = ast.Call(func=key, args=[ka], keywords=[])
        kb = ast.Call(func=copy.deepcopy(key), args=[kb], keywords=[])
    # min: the later argument wins only when strictly smaller; max: only when strictly greater
    test = ast.Compare(left=kb, ops=[ast.Lt()], comparators=[ka]) if f.id == "min" else ast.Compare(left=ka, ops=[ast.Lt()], comparators=[kb])
    return ast.fix_missing_locations(ast.copy_location(ast.IfExp(test=test, body=b, orelse=a), node))


_INT_FUNCS = {"len", "int"}
_INT_METHODS = {"count", "index", "find", "rfind", "bit_length"}
_NONNEG_METHODS = {"count", "index"}


def _int_evident(e, nonneg) -> bool:
    if isinstance(e, ast.Constant):
        return isinstance(e.value, int) and not isinstance(e.value, bool)
    if isinstance(e, ast.Name):
        return e.id in nonneg
    if isinstance(e, ast.Call):
        if isinstance(e.func, ast.Name) and e.func.id in _INT_FUNCS and len(e.args) == 1 and not e.keywords:
            return True
        return isinstance(e.func, ast.Attribute) and e.func.attr in _INT_METHODS
    if isinstance(e, ast.BinOp) and isinstance(e.op, (ast.Add, ast.Sub, ast.Mult)):
        return _int_evident(e.left, nonneg) and _int_evident(e.right, nonneg)
    if isinstance(e, ast.UnaryOp) and isinstance(e.op, ast.USub):
        return _int_evident(e.operand, nonneg)
    return False


def _nonneg_evident(e, nonneg) -> bool:
    if isinstance(e, ast.Constant):
        return isinstance(e.value, int) and not isinstance(e.value, bool) and e.value >= 0
    if isinstance(e, ast.Name):
        return e.id in nonneg
    if isinstance(e, ast.Call):
        if isinstance(e.func, ast.Name) and e.func.id == "len" and len(e.args) == 1 and not e.keywords:
            return True
        return isinstance(e.func, ast.Attribute) and e.func.attr in _NONNEG_METHODS
    if isinstance(e, ast.BinOp) and isinstance(e.op, (ast.Add, ast.Mult)):
        return _nonneg_evident(e.left, nonneg) and _nonneg_evident(e.right, nonneg)
    return False


def _const_int(e):
    if isinstance(e, ast.Constant) and isinstance(e.value, int) and not isinstance(e.value, bool):
        return e.value
    if isinstance(e, ast.UnaryOp) and isinstance(e.op, ast.USub) and isinstance(e.operand, ast.Constant) and isinstance(e.operand.value, int) and not isinstance(e.operand.value, bool):
        return -e.operand.value
    return None


def _int_compare(node, nonneg):
    """an ordering comparison of two evidently integer values in canonical form: only `<` (under `not` where needed), a constant on the right,
    `n < 1` for an evidently non-negative n is `n == 0`.  Integers are totally ordered, so `a <= b` is `not (b < a)`."""
    if len(node.ops) != 1 or not isinstance(node.ops[0], (ast.Lt, ast.LtE, ast.Gt, ast.GtE)):
        return node
    a, b = node.left, node.comparators[0]
    if not (_int_evident(a, nonneg) and _int_evident(b, nonneg)):
        return node
    op = type(node.ops[0])
    neg = False
    if op is ast.Gt:
        a, b = b, a
    elif op is ast.GtE:
        neg = True                      # a >= b  ==  not (a < b)
    elif op is ast.LtE:
        a, b, neg = b, a, True          # a <= b  ==  not (b < a)
    # now:  [not] (a < b)
    ca, cb = _const_int(a), _const_int(b)
    if ca is not None and cb is None:
        # c < x  ==  not (x < c + 1)
        a, b, neg = b, ast.Constant(value=ca + 1), not neg
        cb = ca + 1
    core = ast.Compare(left=a, ops=[ast.Lt()], comparators=[b])
    if cb is not None and _const_int(a) is None and _nonneg_evident(a, nonneg):
        if cb == 1:
            core = ast.Compare(left=a, ops=[ast.Eq()], comparators=[ast.Constant(value=0)])
    out = ast.UnaryOp(op=ast.Not(), operand=core) if neg else core
    return ast.fix_missing_locations(ast.copy_location(out, node))


def _enumerate_indices(fn) -> frozenset:
    """names bound only as the index of `for i, x in enumerate(seq)` loops / comprehension clauses (no start argument) of fn"""
    stores, good = {}, set()
    in_comp = {id(x) for c in ast.walk(fn) if isinstance(c, ast.comprehension) for x in ast.walk(c.target)}   # comprehension variables are the comprehension's own
    for n in ast.walk(fn):
        if isinstance(n, ast.Name) and isinstance(n.ctx, (ast.Store, ast.Del)) and id(n) not in in_comp:
            stores[n.id] = stores.get(n.id, 0) + 1
        elif isinstance(n, ast.arg):
            stores[n.arg] = stores.get(n.arg, 0) + 10
    cand = {}
    for n in ast.walk(fn):
        tgt, it = None, None
        if isinstance(n, ast.For):
            tgt, it = n.target, n.iter
        if tgt is None:
            continue
        if isinstance(tgt, ast.Tuple) and len(tgt.elts) == 2 and isinstance(tgt.elts[0], ast.Name) and isinstance(it, ast.Call) and isinstance(it.func, ast.Name) \
                and it.func.id == "enumerate" and len(it.args) == 1 and not it.keywords:
            cand[tgt.elts[0].id] = cand.get(tgt.elts[0].id, 0) + 1
    for nm, k in cand.items():
        if stores.get(nm) == k and nm != "enumerate":
            good.add(nm)
    if any(isinstance(n, ast.Name) and n.id == "enumerate" and isinstance(n.ctx, ast.Store) for n in ast.walk(fn)):
        return frozenset()
    return frozenset(good)


def _leaking_loop_names(fn) -> frozenset:
    """targets of for loops that are read somewhere outside the body of a loop binding them (after the loop, in its else part, in a nested function)"""
    targets = set()
    for n in ast.walk(fn):
        if isinstance(n, ast.For):
            targets |= _bound_names(n.target)
    leaking = set()

    def rec(n, inside):
        if isinstance(n, ast.Name):
            if isinstance(n.ctx, ast.Load) and n.id in targets and n.id not in inside:
                leaking.add(n.id)
            return
        if isinstance(n, ast.For):
            rec(n.iter, inside)
            rec(n.target, inside)
            b = inside | _bound_names(n.target)
            for st in n.body:
                rec(st, b)
            for st in n.orelse:
                rec(st, inside)
            return
        if isinstance(n, (ast.ListComp, ast.SetComp, ast.DictComp, ast.GeneratorExp)):
            b = inside
            for g in n.generators:
                rec(g.iter, b)
                b = b | _bound_names(g.target)
                for c in g.ifs:
                    rec(c, b)
            for part in ([n.key, n.value] if isinstance(n, ast.DictComp) else [n.elt]):
                rec(part, b)
            return
        if isinstance(n, (ast.FunctionDef, ast.AsyncFunctionDef, ast.Lambda, ast.ClassDef)) and n is not fn:
            for ch in ast.iter_child_nodes(n):
                rec(ch, frozenset())
            return
        for ch in ast.iter_child_nodes(n):
            rec(ch, inside)
    rec(fn, frozenset())
    return frozenset(leaking)


def _reads_outside_loops(fn) -> dict:
    """id(for loop) -> names with a read (Load) somewhere in fn outside that loop"""
    total = {}
    for n in ast.walk(fn):
        if isinstance(n, ast.Name) and isinstance(n.ctx, ast.Load):
            total[n.id] = total.get(n.id, 0) + 1
    out = {}
    for lp in ast.walk(fn):
        if isinstance(lp, ast.For):
            inside = {}
            for n in ast.walk(lp):
                if isinstance(n, ast.Name) and isinstance(n.ctx, ast.Load):
                    inside[n.id] = inside.get(n.id, 0) + 1
            out[id(lp)] = {nm for nm, k in total.items() if k > inside.get(nm, 0)}
    return out


def _range_vars(fn) -> frozenset:
    """names bound only as the variable of `for i in range(...)` loops / comprehension clauses of fn"""
    stores, cand = {}, {}
    in_comp = {id(x) for c in ast.walk(fn) if isinstance(c, ast.comprehension) for x in ast.walk(c.target)}   # comprehension variables are the comprehension's own
    for n in ast.walk(fn):
        if isinstance(n, ast.Name) and isinstance(n.ctx, (ast.Store, ast.Del)) and id(n) not in in_comp:
            stores[n.id] = stores.get(n.id, 0) + 1
        elif isinstance(n, ast.arg):
            stores[n.arg] = stores.get(n.arg, 0) + 10
        if isinstance(n, ast.For) and isinstance(n.target, ast.Name) and isinstance(n.iter, ast.Call) and isinstance(n.iter.func, ast.Name) \
                and n.iter.func.id == "range" and not n.iter.keywords:
            cand[n.target.id] = cand.get(n.target.id, 0) + 1
    if any(isinstance(n, ast.Name) and n.id == "range" and isinstance(n.ctx, ast.Store) for n in ast.walk(fn)):
        return frozenset()
    return frozenset(nm for nm, k in cand.items() if stores.get(nm) == k)


def _fval(expr, conversion=-1, spec=None):
    return ast.FormattedValue(value=expr, conversion=conversion, format_spec=spec)


def _percent_as_fstring(node, int_names):
    """'..%s..%r..%d..' % (a, b, c) with only bare %s / %r / %d (the latter for evidently integer values) / %% is the f-string f'..{a}..{b!r}..{c}..'"""
    import re
    if not (isinstance(node.op, ast.Mod) and isinstance(node.left, ast.Constant) and isinstance(node.left.value, str)):
        return node
    tmpl = node.left.value
    parts = re.split(r"(%[^%]|%%)", tmpl)
    specs = [p_ for p_ in parts if len(p_) == 2 and p_[0] == "%" and p_ != "%%"]
    if not specs or any(p_ not in ("%s", "%r", "%d") for p_ in specs) or re.search(r"%(?![srd])", tmpl.replace("%%", "")):
        return node
    right = node.right
    if isinstance(right, ast.Tuple):
        args = list(right.elts)
    elif len(specs) == 1 and not isinstance(right, (ast.Dict, ast.Starred)):
        args = [right]
    else:
        return node
    if len(args) != len(specs) or any(isinstance(a, ast.Starred) for a in args):
        return node
    values = []
    k = 0
    for p_ in parts:
        if p_ == "%%":
            values.append(ast.Constant(value="%"))
        elif len(p_) == 2 and p_[0] == "%":
            a = args[k]
            k += 1
            if p_ == "%d":
                if not _int_evident(a, int_names):
                    return node
                values.append(_fval(a))
            else:
                values.append(_fval(a, 114 if p_ == "%r" else -1))
        elif p_:
            values.append(ast.Constant(value=p_))
    return _tidy_fstring(ast.fix_missing_locations(ast.copy_location(ast.JoinedStr(values=values), node)), int_names)


def _format_call_as_fstring(node):
    """'.. {} .. {} ..'.format(a, b) with only auto-numbered bare fields is f'.. {a} .. {b} ..'"""
    import re
    f = node.func
    if not (isinstance(f, ast.Attribute) and f.attr == "format" and isinstance(f.value, ast.Constant) and isinstance(f.value.value, str) and not node.keywords
            and not any(isinstance(a, ast.Starred) for a in node.args)):
        return node
    tmpl = f.value.value
    parts = re.split(r"(\{\{|\}\}|\{\}|\{!r\}|\{!s\})", tmpl)
    if any(("{" in p_ or "}" in p_) and p_ not in ("{{", "}}", "{}", "{!r}", "{!s}") for p_ in parts):
        return node
    fields = [p_ for p_ in parts if p_ in ("{}", "{!r}", "{!s}")]
    if len(fields) != len(node.args) or not fields:
        return node
    values, k = [], 0
    for p_ in parts:
        if p_ in ("{{", "}}"):
            values.append(ast.Constant(value=p_[0]))
        elif p_ in ("{}", "{!r}", "{!s}"):
            values.append(_fval(node.args[k], 114 if p_ == "{!r}" else -1))
            k += 1
        elif p_:
            values.append(ast.Constant(value=p_))
    return _tidy_fstring(ast.fix_missing_locations(ast.copy_location(ast.JoinedStr(values=values), node)), frozenset())


def _tidy_fstring(node, int_names):
    """{x!s} is {x}; {str(x)} is {x}; {i:d} for an evidently integer i is {i}; neighbouring literal pieces are one piece"""
    values = []
    for v in node.values:
        if isinstance(v, ast.FormattedValue):
            conv, spec, val = v.conversion, v.format_spec, v.value
            if conv == 115:
                conv = -1
            if conv == -1 and spec is None and isinstance(val, ast.Call) and isinstance(val.func, ast.Name) and val.func.id == "str" and len(val.args) == 1 and not val.keywords:
                val = val.args[0]
            if spec is not None and isinstance(spec, ast.JoinedStr) and len(spec.values) == 1 and isinstance(spec.values[0], ast.Constant) and spec.values[0].value == "d" \
                    and conv == -1 and _int_evident(val, int_names):
                spec = None
            v = ast.FormattedValue(value=val, conversion=conv, format_spec=spec)
        if isinstance(v, ast.Constant) and values and isinstance(values[-1], ast.Constant) and isinstance(v.value, str) and isinstance(values[-1].value, str):
            values[-1] = ast.Constant(value=values[-1].value + v.value)
        else:
            values.append(v)
    return ast.fix_missing_locations(ast.copy_location(ast.JoinedStr(values=values), node))


def prepass(fn):
    import copy
    fn2 = copy.deepcopy(fn)
    pp = _Prepass(_enumerate_indices(fn2), _leaking_loop_names(fn2), _reads_outside_loops(fn2))
    pp.int_names = _range_vars(fn2)
    pp.shadowed = frozenset(x.id for x in ast.walk(fn2) if isinstance(x, ast.Name) and isinstance(x.ctx, (ast.Store, ast.Del))) | frozenset(x.arg for x in ast.walk(fn2) if isinstance(x, ast.arg))
    pp.generic_visit(fn2)
    return fn2


def always_leaves(stmts) -> bool:
    if not stmts:
        return False
    last = stmts[-1]
    if isinstance(last, (ast.Return, ast.Raise, ast.Continue, ast.Break)):
        return True
    if isinstance(last, ast.If):
        return bool(last.orelse) and always_leaves(last.body) and always_leaves(last.orelse)
    return False


def strip_tail(effs, what):
    """drop a trailing `continue` (end of a loop pass) / `return None` (end of a function): falling off the end does the same"""
    effs = list(effs)
    while effs:
        last = effs[-1]
        if what == "continue" and last == ("continue",):
            effs.pop()
            continue
        if what == "return" and last[0] == "return" and last[1] in (None, ("k", "NoneType", "None")):
            effs.pop()
            continue
        if last[0] == "try" and not last[4]:
            body = tuple(strip_tail(last[1], what)) if not last[3] else last[1]
            hs = tuple((t_, tuple(strip_tail(e_, what))) for t_, e_ in last[2])
            effs[-1] = ("try", body, hs, tuple(strip_tail(last[3], what)), last[4])
            break
        if last[0] == "if":
            a, b = strip_tail(last[2], what), strip_tail(last[3], what)
            if not a and not b:
                effs.pop()
                continue
            effs[-1] = ("if", last[1], tuple(a), tuple(b))
        break
    return effs


def _body(fn):
    b = fn.body
    if b and isinstance(b[0], ast.Expr) and isinstance(b[0].value, ast.Constant) and isinstance(b[0].value.value, str):
        return b[1:]
    return b


def _as_value(eff):
    """value of an inlined loop-free helper: its effects must be returns only (possibly under ifs)"""
    if len(eff) == 1 and eff[0][0] == "return":
        return eff[0][1]
    if len(eff) == 1 and eff[0][0] == "if":
        a, b = _as_value(list(eff[0][2])), _as_value(list(eff[0][3]))
        if a is None or b is None:
            return None
        return ("ifexp", eff[0][1], a, b)
    return None


def _literal_tuple(v, depth=0) -> bool:
    return isinstance(v, ast.Tuple) and depth < 3 and all(
        (isinstance(e, ast.Constant) and isinstance(e.value, (int, float, str)) and not isinstance(e.value, bool)) or _literal_tuple(e, depth + 1) for e in v.elts)


def module_consts(tree) -> dict:
    """module-level names bound exactly once to a number literal or to a tuple of number / string literals"""
    counts, vals = {}, {}
    for n in ast.walk(tree):
        if isinstance(n, ast.Name) and isinstance(n.ctx, ast.Store):
            counts[n.id] = counts.get(n.id, 0) + 1
        elif isinstance(n, ast.arg):
            counts[n.arg] = counts.get(n.arg, 0) + 1
    for s in tree.body:
        if isinstance(s, ast.Assign) and len(s.targets) == 1 and isinstance(s.targets[0], ast.Name):
            v = s.value
            if isinstance(v, ast.UnaryOp) and isinstance(v.op, ast.USub):
                v = v.operand
            if isinstance(v, ast.Constant) and isinstance(v.value, (int, float)) and not isinstance(v.value, bool) and counts.get(s.targets[0].id) == 1:
                vals[s.targets[0].id] = s.value
            elif counts.get(s.targets[0].id) == 1 and isinstance(s.value, ast.Tuple) and s.value.elts and _literal_tuple(s.value):
                vals[s.targets[0].id] = s.value   # an immutable tuple of literals (possibly of such tuples)
    return vals


def _own_nodes(fn):
    """nodes of fn's own body (nested functions, lambdas and classes are scopes of their own)"""
    stack = list(fn.body)
    while stack:
        n = stack.pop()
        yield n
        for c in ast.iter_child_nodes(n):
            if not isinstance(c, (ast.FunctionDef, ast.AsyncFunctionDef, ast.Lambda, ast.ClassDef)):
                stack.append(c)


def normal_form(fn, consts=None, helpers=None, methods=None):
    nz = Normaliser(fn, consts, helpers, methods=methods)
    fn = nz.fn
    a = fn.args
    defaults = tuple(nz.exo(d, {}) for d in a.defaults) + tuple(nz.exo(d, {}) for d in a.kw_defaults)
    sig = (tuple(p.arg for p in a.posonlyargs + a.args), a.vararg.arg if a.vararg else None, tuple(p.arg for p in a.kwonlyargs), a.kwarg.arg if a.kwarg else None,
           defaults, tuple(nz.exo(d, {}) for d in fn.decorator_list))
    eff, _ = nz.block(_body(fn), {}, ())
    is_gen = any(isinstance(x, (ast.Yield, ast.YieldFrom)) for x in _own_nodes(fn))
    sig = sig + (("generator",) if is_gen else ())   # a yield anywhere in the body, reachable or not, makes the function a generator function
    return (sig, _renumber(_sink_fresh_binds(_prune_evals(_drop_dead_binds(_inline_single_use(_drop_alias_binds(tuple(strip_tail(eff, "return")) if not is_gen else tuple(eff))))))))


def _int_const(x):
    if isinstance(x, tuple) and len(x) == 4 and x[0] == "prod" and x[2] == () and isinstance(x[1], Fraction) and x[1].denominator == 1:
        return int(x[1])
    return None


def _int_subject(x):
    """(is an evidently integer value, is evidently non-negative) for a form"""
    if isinstance(x, tuple) and len(x) == 4 and x[0] == "call":
        f = x[1]
        if f == ("n", "len") and len(x[2]) == 1:
            return True, True
        if f == ("n", "int") and len(x[2]) == 1:
            return True, False
        if isinstance(f, tuple) and len(f) == 3 and f[0] == "." and f[2] in ("count", "index"):
            return True, True
    return False, False


def _int_test(t):
    """(subject form, predicate on an int) for a positive test form that compares an evidently integer value with an integer constant"""
    if not (isinstance(t, tuple) and len(t) == 4 and t[0] == "cmp" and t[1] in ("Lt", "Eq")):
        return None
    a, b = t[2], t[3]
    ka, kb = _int_const(a), _int_const(b)
    if kb is not None and ka is None and _int_subject(a)[0]:
        return (a, (lambda v, k=kb: v < k)) if t[1] == "Lt" else (a, (lambda v, k=kb: v == k)), kb
    if ka is not None and kb is None and _int_subject(b)[0]:
        return (b, (lambda v, k=ka: k < v)) if t[1] == "Lt" else (b, (lambda v, k=ka: v == k)), ka
    return None


def _int_case_chain(t, ea, eb):
    """`if`-effects for a decision tree that tests one evidently integer subject against integer constants only (at least two tests): the canonical
    chain `if X < b1: L0 elif X < b2: L1 ... else: Lk` over the breakpoints at which the outcome changes (for a non-negative subject, values below 0 do
    not exist and `X < 1` is written `X == 0` as elsewhere); None when the tree is not of that kind"""
    first = _int_test(t)
    if first is None:
        return None
    subject = first[0][0]
    consts = []
    n_tests = [0]

    def outcome(tt, a, b, v):
        """leaf (effects tuple) reached for the subject value v"""
        it = _int_test(tt)
        arm = a if it[0][1](v) else b
        if len(arm) == 1 and arm[0][0] == "if" and len(arm[0]) == 4:
            it2 = _int_test(arm[0][1])
            if it2 is not None and it2[0][0] == subject:
                return outcome(arm[0][1], arm[0][2], arm[0][3], v)
        return arm

    def collect(tt, a, b):
        it = _int_test(tt)
        consts.append(it[1])
        n_tests[0] += 1
        for arm in (a, b):
            if len(arm) == 1 and arm[0][0] == "if" and len(arm[0]) == 4:
                it2 = _int_test(arm[0][1])
                if it2 is not None and it2[0][0] == subject:
                    collect(arm[0][1], arm[0][2], arm[0][3])
    collect(t, ea, eb)
    if n_tests[0] < 2:
        return None
    nonneg = _int_subject(subject)[1]
    points = sorted({k + d for k in consts for d in (0, 1)})
    lo = 0 if nonneg else points[0] - 1
    reps = sorted({lo} | {p_ for p_ in points if p_ > lo})
    leaves = [(r, outcome(t, ea, eb, r)) for r in reps]
    # merge neighbouring cells with the same outcome: cell i starts at leaves[i][0]
    cells = []
    for r, leaf in leaves:
        if cells and cells[-1][1] == leaf:
            continue
        cells.append((r, leaf))
    if len(cells) == 1:
        return list(cells[0][1])

    def konst(k):
        return ("prod", Fraction(k), (), False)

    def build(i):
        if i == len(cells) - 1:
            return cells[i][1]
        bound = cells[i + 1][0]
        if nonneg and bound == 1:
            l, r = subject, konst(0)
            if repr(l) > repr(r):
                l, r = r, l
            test = ("cmp", "Eq", l, r)
        else:
            test = ("cmp", "Lt", subject, konst(bound))
        return (("if", test, tuple(cells[i][1]), tuple(build(i + 1))),)
    return list(build(0))


def _is_const_form(x) -> bool:
    return isinstance(x, tuple) and bool(x) and (x[0] == "k" or (x[0] == "prod" and len(x) == 4 and x[2] == ()))


def _exclusive(t1, t2) -> bool:
    """can the two (positive) test forms never hold together?  comparisons of the same two operands (a < b, b < a, a == b), equality of one operand with
    two different constants"""
    if not (isinstance(t1, tuple) and isinstance(t2, tuple) and len(t1) == 4 and len(t2) == 4 and t1[0] == "cmp" and t2[0] == "cmp"):
        return False
    o1, o2 = t1[1], t2[1]
    if o1 not in ("Lt", "Eq") or o2 not in ("Lt", "Eq") or t1 == t2:
        return False
    if {t1[2], t1[3]} == {t2[2], t2[3]}:
        if o1 == "Lt" and o2 == "Lt":
            return t1[2] == t2[3] and t1[3] == t2[2]
        return not (o1 == "Eq" and o2 == "Eq")
    if o1 == "Eq" and o2 == "Eq":
        for x1, k1 in ((t1[2], t1[3]), (t1[3], t1[2])):
            for x2, k2 in ((t2[2], t2[3]), (t2[3], t2[2])):
                if x1 == x2 and _is_const_form(k1) and _is_const_form(k2) and k1 != k2 and k1[0] == k2[0]:
                    return True
    return False


def _bool_form(op, parts):
    """(polarity, form) of `p1 op p2 op ...` for parts given as (polarity, positive form): nested connectives of the same kind are flattened; De Morgan: of a
    connective and its dual the one with fewer negated operands is kept (`and` on a tie)"""
    dual_of = {"And": "Or", "Or": "And"}
    flat = []
    for pos, t in parts:
        if isinstance(t, tuple) and len(t) == 3 and t[0] == "bool" and ((pos and t[1] == op) or (not pos and t[1] == dual_of[op])):
            # (a op b) op c ;  not (a dual b) op c  ==  (not a op not b) op c
            for sub in t[2]:
                neg = isinstance(sub, tuple) and len(sub) == 2 and sub[0] == "not"
                core = sub[1] if neg else sub
                flat.append(((not neg) if pos else neg, core))
        else:
            flat.append((pos, t))
    n_neg = sum(1 for p_, _ in flat if not p_)
    if 2 * n_neg > len(flat) or (2 * n_neg == len(flat) and op == "Or"):
        return False, ("bool", dual_of[op], tuple(("not", t_) if p_ else t_ for p_, t_ in flat))
    return True, ("bool", op, tuple(t_ if p_ else ("not", t_) for p_, t_ in flat))


def _may_raise(e) -> bool:
    """anything but names, constants and displays of them"""
    return any(not isinstance(x, (ast.Name, ast.Constant, ast.Tuple, ast.List, ast.Load, ast.Store, ast.expr_context)) for x in ast.walk(e))


def _alg_atoms(e, out):
    """the non-arithmetic operands of an arithmetic form (sum / prod / pow), recursively"""
    if isinstance(e, tuple) and e and e[0] == "sum":
        for term in e[1]:
            for atom, _p in term[1]:
                _alg_atoms(atom, out)
    elif isinstance(e, tuple) and e and e[0] == "prod":
        for atom, _p in e[2]:
            _alg_atoms(atom, out)
    elif isinstance(e, tuple) and e and e[0] == "pow":
        _alg_atoms(e[1], out)
        _alg_atoms(e[2], out)
    else:
        out.append(e)
    return out


def _evaluates(form, e) -> bool:
    """does evaluating `form` always evaluate the sub-form `e`? (conditional arms, later operands of and/or, comprehension bodies do not count; an
    arithmetic combination counts as evaluated when all its operands are: arithmetic is re-associated freely by this normal form anyway)"""
    if form == e:
        return True
    if isinstance(e, tuple) and e and e[0] in ("sum", "prod", "pow"):
        atoms = _alg_atoms(e, [])
        if all(not (isinstance(a_, tuple) and a_ and a_[0] in ("sum", "prod", "pow")) for a_ in atoms):
            return all(_evaluates(form, a_) for a_ in atoms if isinstance(a_, tuple) and a_ and a_[0] not in ("n", "v", "c", "k"))
    if not isinstance(form, tuple) or not form:
        return False
    h = form[0]
    if h == "ifexp":
        return _evaluates(form[1], e)
    if h == "bool":
        return bool(form[2]) and _evaluates(form[2][0], e)
    if h == "comp":
        gens = form[-1]
        return bool(gens) and isinstance(gens[0], tuple) and len(gens[0]) >= 2 and _evaluates(gens[0][1], e)
    if h == "lambda":
        return False
    return any(_evaluates(y, e) for y in form if isinstance(y, tuple))


def _len_of_set_and_list(l, r) -> bool:
    """l = len({e for ...}) / len(set(x)), r = len([e for ...]) / len(x) over the same items"""
    def is_len(x):
        return isinstance(x, tuple) and len(x) == 4 and x[0] == "call" and x[1] == ("n", "len") and len(x[2]) == 1 and x[3] == ()
    if not (is_len(l) and is_len(r)):
        return False
    a, b = l[2][0], r[2][0]
    if isinstance(a, tuple) and isinstance(b, tuple) and len(a) == 4 and len(b) == 4 and a[0] == b[0] == "comp" and a[1] == "set" and b[1] in ("list", "gen") and a[2:] == b[2:]:
        return True
    if isinstance(a, tuple) and len(a) == 4 and a[0] == "call" and a[1] == ("n", "set") and a[2] == (b,) and a[3] == ():
        return True
    return False


def _test_cannot_raise(t) -> bool:
    """truth test of a plain name, constant or lambda, identity comparisons and and/or/not of such: evaluating it cannot raise"""
    if not isinstance(t, tuple) or not t:
        return False
    if t[0] in ("n", "v", "k", "c", "lambda"):
        return True
    if t[0] == "not" and len(t) == 2:
        return _test_cannot_raise(t[1])
    if t[0] == "bool" and len(t) == 3:
        return all(_test_cannot_raise(x) for x in t[2])
    if t[0] == "cmp" and len(t) == 4 and t[1] == "Is":
        return _test_cannot_raise(t[2]) and _test_cannot_raise(t[3])
    return False


def _effect_evaluates(eff, e) -> bool:
    k = eff[0]
    if k in ("do", "return", "raise", "yield", "yieldfrom", "eval"):
        return _evaluates(eff[1], e)
    if k in ("bind", "store"):
        return _evaluates(eff[1], e) or _evaluates(eff[2], e)
    if k in ("if", "while"):
        if _evaluates(eff[1], e):
            return True
        if k == "if" and _test_cannot_raise(eff[1]) and eff[2] and eff[3]:
            return _effect_evaluates(eff[2][0], e) and _effect_evaluates(eff[3][0], e)   # the test is a plain name: whichever arm runs evaluates e first
        return False
    if k == "for":
        return _evaluates(eff[2], e)
    return False


def _prune_evals(effs):
    """('eval', e) directly followed (other evals aside) by an effect that always evaluates e says nothing new"""
    def rec(x):
        if not isinstance(x, tuple):
            return x
        x = tuple(rec(y) for y in x)
        if x and all(isinstance(y, tuple) and y and isinstance(y[0], str) for y in x) and any(y[0] == "eval" for y in x):
            out = []
            for i, y in enumerate(x):
                if y[0] == "eval":
                    j = i + 1
                    covered = False
                    while j < len(x):
                        if _effect_evaluates(x[j], y[1]):
                            covered = True
                            break
                        if x[j][0] != "eval":
                            break
                        j += 1
                    if covered:
                        continue
                out.append(y)
            x = tuple(out)
        return x
    return rec(effs)


def _mutated_names(fn, root_of) -> set:
    """local names whose object may be mutated somewhere in fn (they have to stay variables: a display or call bound to such a name denotes ONE object).
    Three relations over names are collected syntactically: same(a, b) -- may be the same object (`a = b`, chained targets, arms of a conditional, a call's
    result and its arguments); holds(c, x) -- x was put into c (displays, `c[k] = x`, `c.append(x)`); elem(c, e) -- e was taken out of c (`e = c[k]`,
    `for e in c`, unpacking).  A mutation event has a root name and a depth (`r.append(..)`, `r[k] = v`: the object r itself; `r[k].append(..)`,
    `r[k][j] = v`: something inside r).  Mutating an object taken out of c may be mutating any object put into c."""
    from collections import defaultdict
    parent: Dict[str, str] = {}

    def find(x):
        parent.setdefault(x, x)
        while parent[x] != x:
            parent[x] = parent[parent[x]]
            x = parent[x]
        return x

    def same(a, b):
        parent[find(a)] = find(b)
    holds, elems, derived = defaultdict(set), defaultdict(set), defaultdict(set)
    events = []   # (root, depth)
    # names only ever bound to values that cannot be changed (number / string / bool / None literals, comparisons, f-strings): handing them to a call changes nothing
    n_stores, n_literal = defaultdict(int), defaultdict(int)
    for n in ast.walk(fn):
        if isinstance(n, ast.Name) and isinstance(n.ctx, (ast.Store, ast.Del)):
            n_stores[n.id] += 1
        elif isinstance(n, ast.arg):
            n_stores[n.arg] += 1
        if isinstance(n, ast.Assign) and len(n.targets) == 1 and isinstance(n.targets[0], ast.Name):
            v_ = n.value
            if isinstance(v_, ast.UnaryOp) and isinstance(v_.op, (ast.USub, ast.Not)):
                v_ = v_.operand
            if isinstance(v_, (ast.Constant, ast.Compare, ast.JoinedStr)):
                n_literal[n.targets[0].id] += 1
    immutable_only = {x for x, c_ in n_stores.items() if c_ > 0 and n_literal.get(x) == c_}

    def depth_root(e):
        d = -1
        while isinstance(e, (ast.Subscript, ast.Attribute, ast.Call)):
            if not isinstance(e, ast.Call):
                d += 1
            e = e.func if isinstance(e, ast.Call) else e.value
        return (e.id, d) if isinstance(e, ast.Name) else (None, d)

    def bind(t, v):
        """target t receives the value of expression v"""
        if isinstance(t, (ast.Tuple, ast.List)):
            if isinstance(v, (ast.Tuple, ast.List)) and len(v.elts) == len(t.elts) and not any(isinstance(x, ast.Starred) for x in list(t.elts) + list(v.elts)):
                for te, ve in zip(t.elts, v.elts):
                    bind(te, ve)
            else:
                for c in _may_alias(v):
                    for te in ast.walk(t):
                        if isinstance(te, ast.Name):
                            elems[c].add(te.id)
            return
        if isinstance(t, ast.Starred):
            bind(t.value, v)
            return
        if isinstance(t, (ast.Subscript, ast.Attribute)):
            r, _d = depth_root(t)
            if r is not None:
                holds[r] |= _may_alias(v)
            return
        if not isinstance(t, ast.Name):
            return
        if isinstance(v, ast.Name):
            same(t.id, v.id)
        elif isinstance(v, (ast.IfExp, ast.BoolOp)):
            for arm in ([v.body, v.orelse] if isinstance(v, ast.IfExp) else v.values):
                bind(t, arm)
        elif isinstance(v, (ast.Attribute, ast.Subscript)):
            for c in _may_alias(v):
                elems[c].add(t.id)
        elif isinstance(v, (ast.Tuple, ast.List, ast.Set, ast.Dict)):
            holds[t.id] |= _may_alias(v)
        elif isinstance(v, ast.Call):
            derived[t.id] |= _may_alias(v)   # the result may be (or hold) an argument: mutating the result may mutate them -- not the other way round
        elif isinstance(v, ast.NamedExpr):
            bind(t, v.value)

    for n in ast.walk(fn):
        if isinstance(n, ast.Assign):
            names = [t for t in n.targets if isinstance(t, ast.Name)]
            for a_, b_ in zip(names, names[1:]):
                same(a_.id, b_.id)
            for t in n.targets:
                bind(t, n.value)
                if names and isinstance(t, (ast.Tuple, ast.List)):
                    for te in ast.walk(t):
                        if isinstance(te, ast.Name):
                            elems[names[0].id].add(te.id)    # yes_no = yes, no = ...
        elif isinstance(n, ast.AnnAssign) and n.value is not None:
            bind(n.target, n.value)
        elif isinstance(n, (ast.For, ast.comprehension)):
            it = n.iter
            if isinstance(it, (ast.Tuple, ast.List, ast.Set)):
                for e_ in it.elts:
                    bind(n.target, e_)
            else:
                for c in _may_alias(it):
                    for te in ast.walk(n.target):
                        if isinstance(te, ast.Name):
                            elems[c].add(te.id)
        elif isinstance(n, ast.withitem) and n.optional_vars is not None:
            bind(n.optional_vars, n.context_expr)
        if isinstance(n, (ast.Assign, ast.AugAssign, ast.AnnAssign)):
            for t in (n.targets if isinstance(n, ast.Assign) else [n.target]):
                for x in ast.walk(t):
                    if isinstance(x, (ast.Subscript, ast.Attribute)) and isinstance(x.ctx, (ast.Store, ast.Del)):
                        r, d = depth_root(x)
                        if r is not None:
                            events.append((r, d))
        elif isinstance(n, ast.Delete):
            for t in n.targets:
                if isinstance(t, (ast.Subscript, ast.Attribute)):
                    r, d = depth_root(t)
                    if r is not None:
                        events.append((r, d))
        elif isinstance(n, ast.Call) and isinstance(n.func, ast.Attribute) and n.func.attr in MUTATORS:
            r, d = depth_root(n.func.value)
            if r is not None:
                events.append((r, d + 1))
                holds[r] |= set().union(*[_may_alias(a) for a in n.args]) if n.args else set()
        if isinstance(n, ast.Expr) and isinstance(n.value, ast.Call) and not (isinstance(n.value.func, ast.Name) and n.value.func.id in NO_ARG_EFFECT) \
                and not (isinstance(n.value.func, ast.Attribute) and n.value.func.attr in MUTATORS):   # (append & co. change their receiver only: handled above)
            # a call made for its effect may change what it is given (and the object it is a method of)
            for a_ in list(n.value.args) + [k_.value for k_ in n.value.keywords]:
                for nm_ in _may_alias(a_):
                    if nm_ not in immutable_only:
                        events.append((nm_, 0))
            if isinstance(n.value.func, ast.Attribute):
                r, d = depth_root(n.value.func.value)
                if r is not None:
                    events.append((r, max(d, 0)))
    # propagate
    def cls(x):
        r = find(x)
        return {y for y in list(parent) if find(y) == r} | {x}
    mutated, inside = set(), set()   # objects mutated themselves / names something inside which is mutated
    held_mutated = set()             # containers an item of which is mutated through another name
    work = [("obj", r) for r, d in events] + [("in", r) for r, d in events if d > 0]   # the root stays one object in either case
    while work:
        kind, x = work.pop()
        if kind == "obj":
            if x in mutated:
                continue
            for y in cls(x):
                mutated.add(y)
            for y in cls(x):
                for z in derived.get(y, ()):
                    if z not in mutated:
                        work.append(("obj", z))
            # x may have been taken out of a container: it may be anything put into that container -- and the container is one object holding the
            # mutated one (`yes_no = yes, no = [], []`: the display must be built once, not once per name)
            for c, es in list(elems.items()):
                if es & cls(x):
                    for c2 in cls(c):
                        if c2 not in mutated and c2 not in held_mutated:
                            held_mutated.add(c2)
                        for y in holds.get(c2, ()):
                            if y not in mutated:
                                work.append(("obj", y))
        else:
            if x in inside:
                continue
            for y in cls(x):
                inside.add(y)
                for z in derived.get(y, ()):
                    work.append(("in", z))
            for c2 in cls(x):
                for y in set(holds.get(c2, ())) | set(elems.get(c2, ())):
                    work.append(("obj", y))
                    work.append(("in", y))
    # a name that is only ever bound by `name = other_name` is a pure alias: it needs no variable of its own (the environment keeps it as another
    # spelling of `other_name`, mutations through it are mutations of that object, and a rebinding of `other_name` snapshots it)
    stores, alias_stores = defaultdict(int), defaultdict(int)
    for n in ast.walk(fn):
        if isinstance(n, ast.Name) and isinstance(n.ctx, (ast.Store, ast.Del)):
            stores[n.id] += 1
        elif isinstance(n, ast.arg):
            stores[n.arg] += 1
        if isinstance(n, ast.Assign) and len(n.targets) == 1 and isinstance(n.targets[0], ast.Name) and isinstance(n.value, ast.Name):
            alias_stores[n.targets[0].id] += 1
    # a container only ever bound to a tuple display of plain names / constants need not be one object: the items are named, the tuple cannot change
    tuple_of_names = defaultdict(int)
    for n in ast.walk(fn):
        if isinstance(n, ast.Assign) and isinstance(n.value, ast.Tuple) and all(isinstance(e, (ast.Name, ast.Constant)) for e in n.value.elts):
            for t in n.targets:
                if isinstance(t, ast.Name):
                    tuple_of_names[t.id] += 1
    held_mutated = {x for x in held_mutated if not (stores.get(x, 0) > 0 and stores.get(x) == tuple_of_names.get(x))}
    # ... nor does a name that only ever stands for a path from another name (`t = tokens[0]`: read again, the path gives the same object)
    made_here = set()
    for n in ast.walk(fn):
        if isinstance(n, (ast.Assign, ast.AnnAssign)) and n.value is not None:
            v = n.value
            while isinstance(v, (ast.Attribute, ast.Subscript)):
                v = v.value
            if not isinstance(v, ast.Name):
                for t in (n.targets if isinstance(n, ast.Assign) else [n.target]):
                    for x in ast.walk(t):
                        if isinstance(x, ast.Name):
                            made_here.add(x.id)
    held_mutated &= made_here
    return {x for x in mutated | held_mutated if not (stores.get(x, 0) > 0 and stores.get(x) == alias_stores.get(x))}


def _ast_pure(e) -> bool:
    """no call of a mutating method / impure builtin, no yield / await / walrus in the expression (dropping its evaluation loses nothing, by the stated assumption)"""
    for x in ast.walk(e):
        if isinstance(x, ast.Call) and isinstance(x.func, ast.Attribute) and x.func.attr in MUTATORS:
            return False
        if isinstance(x, ast.Call) and isinstance(x.func, ast.Name) and x.func.id in IMPURE_FUNCS:
            return False
        if isinstance(x, (ast.Yield, ast.YieldFrom, ast.Await, ast.NamedExpr)):
            return False
    return True


def _hoist_ifexp(n):
    """`(a if c else b) + r` is `(a + r) if c else (b + r)` (r side-effect free): a conditional operand of an arithmetic operation is moved outwards, so that
    `t = a if c else b; return t + r` and `if c: return a + r` / `return b + r` meet in one spelling also where they cannot be lifted out of the expression
    (inside a comprehension)"""
    if not (isinstance(n, ast.BinOp) and isinstance(n.op, (ast.Add, ast.Sub, ast.Mult, ast.Div))):
        return n
    l, r = n.left, n.right
    if isinstance(l, ast.IfExp) == isinstance(r, ast.IfExp):
        return n
    import copy
    cond, other = (l, r) if isinstance(l, ast.IfExp) else (r, l)
    if not _ast_pure(other) or sum(1 for _ in ast.walk(other)) > 60:
        return n
    if isinstance(l, ast.IfExp):
        a = ast.BinOp(left=cond.body, op=n.op, right=other)
        b = ast.BinOp(left=cond.orelse, op=n.op, right=copy.deepcopy(other))
    else:
        a = ast.BinOp(left=other, op=n.op, right=cond.body)
        b = ast.BinOp(left=copy.deepcopy(other), op=n.op, right=cond.orelse)
    return ast.IfExp(test=cond.test, body=a, orelse=b)


def _fold_literal(n):
    """len / constant subscript of a list or tuple display (whose other elements are side-effect free), comparison of two number literals: their values"""
    if isinstance(n, ast.Call) and isinstance(n.func, ast.Name) and n.func.id == "len" and len(n.args) == 1 and not n.keywords \
            and isinstance(n.args[0], (ast.List, ast.Tuple)) and not any(isinstance(e, ast.Starred) for e in n.args[0].elts) and all(_ast_pure(e) for e in n.args[0].elts):
        return ast.Constant(value=len(n.args[0].elts))
    if isinstance(n, ast.Subscript) and isinstance(n.value, (ast.List, ast.Tuple)) and isinstance(n.slice, ast.Constant) and isinstance(n.slice.value, int) \
            and not isinstance(n.slice.value, bool) and not any(isinstance(e, ast.Starred) for e in n.value.elts) and -len(n.value.elts) <= n.slice.value < len(n.value.elts) \
            and isinstance(n.ctx, ast.Load) and all(_ast_pure(e) for e in n.value.elts):
        return n.value.elts[n.slice.value]
    if isinstance(n, ast.Compare) and len(n.ops) == 1 and isinstance(n.left, ast.Constant) and isinstance(n.comparators[0], ast.Constant):
        a, b = n.left.value, n.comparators[0].value
        if isinstance(a, (int, float)) and isinstance(b, (int, float)) and not isinstance(a, bool) and not isinstance(b, bool):
            op = type(n.ops[0])
            table = {ast.Eq: a == b, ast.NotEq: a != b, ast.Lt: a < b, ast.LtE: a <= b, ast.Gt: a > b, ast.GtE: a >= b}
            if op in table:
                return ast.Constant(value=table[op])
    return n


NO_ARG_EFFECT = {"print", "len", "isinstance", "repr", "str", "int", "float", "bool", "id", "type", "hash", "sorted", "sum", "min", "max", "any", "all", "abs", "round"}


def _imports_as_bindings(fn):
    """an import binds a name to a module / one of its attributes: `import numpy as backend; return backend` is `import numpy; return numpy`.
    The statement becomes the assignment it is (the value is an opaque, impure call, so it stays where it is and is never dropped)."""
    if not any(isinstance(x, (ast.Import, ast.ImportFrom)) for x in ast.walk(fn)):
        return fn
    import copy
    fn = copy.deepcopy(fn)

    class T(ast.NodeTransformer):
        def visit_Import(self, node):
            out = []
            for a_ in node.names:
                nm_ = a_.asname or a_.name.split(".")[0]
                args_ = [ast.Constant(value=a_.name), ast.Constant(value=bool(a_.asname) or "." not in a_.name)]   # `import a.b` binds a, `import a.b as c` binds a.b
                out.append(ast.Assign(targets=[ast.Name(id=nm_, ctx=ast.Store())], value=ast.Call(func=ast.Name(id="\x00import", ctx=ast.Load()), args=args_, keywords=[])))
            return [ast.fix_missing_locations(ast.copy_location(x, node)) for x in out]

        def visit_ImportFrom(self, node):
            if any(a_.name == "*" for a_ in node.names):
                return node
            out = []
            for a_ in node.names:
                val_ = ast.Call(func=ast.Name(id="\x00importfrom", ctx=ast.Load()), args=[ast.Constant(value=node.module), ast.Constant(value=node.level), ast.Constant(value=a_.name)], keywords=[])
                out.append(ast.Assign(targets=[ast.Name(id=a_.asname or a_.name, ctx=ast.Store())], value=val_))
            return [ast.fix_missing_locations(ast.copy_location(x, node)) for x in out]
    return T().visit(fn)


def _header_exprs(s):
    """the expressions a statement evaluates itself (those of nested blocks are the blocks' business)"""
    if isinstance(s, ast.Assign):
        return [s.value] + [t for t in s.targets if not isinstance(t, ast.Name)]
    if isinstance(s, ast.AugAssign):
        return [s.value] + ([s.target] if not isinstance(s.target, ast.Name) else [])
    if isinstance(s, ast.AnnAssign):
        return ([s.value] if s.value is not None else []) + ([s.target] if not isinstance(s.target, ast.Name) else [])
    if isinstance(s, (ast.Expr, ast.Return)):
        return [s.value] if s.value is not None else []
    if isinstance(s, ast.Raise):
        return [x for x in (s.exc, s.cause) if x is not None]
    if isinstance(s, ast.Assert):
        return [x for x in (s.test, s.msg) if x is not None]
    if isinstance(s, (ast.If, ast.While)):
        return [s.test]
    if isinstance(s, ast.For):
        return [s.iter]
    if isinstance(s, ast.With):
        return [i.context_expr for i in s.items]
    return []


def _may_alias(e) -> set:
    """names whose object the value of the expression may be, contain or be part of: a name, an attribute / element of it, either arm of a conditional or
    of and/or, the elements of a display, whatever a call is given (its result may be one of its arguments or hold them); arithmetic, comparisons,
    comprehensions and literals make new objects"""
    if isinstance(e, ast.Name):
        return {e.id}
    if isinstance(e, (ast.Attribute, ast.Subscript, ast.Starred)):
        return _may_alias(e.value)
    if isinstance(e, ast.IfExp):
        return _may_alias(e.body) | _may_alias(e.orelse)
    if isinstance(e, ast.BoolOp):
        return set().union(*[_may_alias(v) for v in e.values])
    if isinstance(e, (ast.Tuple, ast.List, ast.Set)):
        return set().union(*[_may_alias(v) for v in e.elts]) if e.elts else set()
    if isinstance(e, ast.Dict):
        return set().union(*[_may_alias(v) for v in e.values]) if e.values else set()
    if isinstance(e, ast.Call):
        out = set()
        if isinstance(e.func, ast.Attribute):
            out |= _may_alias(e.func.value)
        for a in e.args:
            out |= _may_alias(a)
        for k in e.keywords:
            out |= _may_alias(k.value)
        return out
    return set()


def _inline_single_use(effs):
    """`bind v = E` (E side-effect free, v numbered, bound once and read once in the whole form) directly followed by the effect that reads v in a part it
    evaluates first and once (the expressions of do / return / raise / yield / store / bind / eval, the test of an if, the iterable of a for, the items of
    a with): E takes the place of v.  Nothing happens between the two evaluations of E, so the variable was only a name for an intermediate value."""
    def is_var(x):
        return isinstance(x, tuple) and len(x) == 2 and x[0] == "v" and isinstance(x[1], int)

    def count_reads(x, v, acc):
        if isinstance(x, tuple):
            if x == v:
                acc[0] += 1
                return
            if len(x) == 3 and x[0] == "bind" and x[1] == v:
                acc[1] += 1
                count_reads(x[2], v, acc)
                return
            for y in x:
                count_reads(y, v, acc)

    def first_part(eff):
        k = eff[0]
        if k in ("do", "return", "raise", "yield", "yieldfrom", "eval"):
            return [1]
        if k in ("store", "bind"):
            return [1, 2] if k == "store" else [2]
        if k == "if":
            return [1]
        if k == "for":
            return [2]
        if k == "with":
            return [1]
        return []

    def subst(x, v, e):
        if isinstance(x, tuple):
            if x == v:
                return e
            return tuple(subst(y, v, e) for y in x)
        return x

    def contains(x, v):
        if isinstance(x, tuple):
            return x == v or any(contains(y, v) for y in x)
        return False

    changed = True
    rounds = 0
    while changed and rounds < 30:
        changed = False
        rounds += 1

        def rec(x):
            nonlocal changed
            if not isinstance(x, tuple):
                return x
            x = tuple(rec(y) for y in x)
            if x and all(isinstance(y, tuple) and y and isinstance(y[0], str) for y in x):
                out = list(x)
                i = 0
                while i < len(out) - 1:
                    b, nxt = out[i], out[i + 1]
                    if len(b) == 3 and b[0] == "bind" and is_var(b[1]) and _form_pure(b[2]) and not contains(b[2], b[1]):
                        acc = [0, 0]
                        count_reads(effs_ref[0], b[1], acc)
                        parts = first_part(nxt)
                        if acc == [1, 1] and parts and any(contains(nxt[p_], b[1]) for p_ in parts) and isinstance(nxt, tuple) \
                                and all(_form_pure(nxt[p_]) for p_ in parts):   # (a mutating call in the same expression may come before the read)
                            new = list(nxt)
                            for p_ in parts:
                                new[p_] = subst(nxt[p_], b[1], b[2])
                            if new[0] == "bind" and contains(new[1], b[1]):
                                i += 1
                                continue
                            out[i:i + 2] = [tuple(new)]
                            changed = True
                            continue
                    i += 1
                x = tuple(out)
            return x
        effs_ref = [effs]
        effs = rec(effs)
    return effs


def _sink_fresh_binds(effs):
    """`bind v = <a fresh empty container or a constant>` (v numbered, bound once) happens right before the first effect of its list that mentions v: where
    exactly an empty list is created before it is first looked at cannot be observed"""
    def is_var(x):
        return isinstance(x, tuple) and len(x) == 2 and x[0] == "v" and isinstance(x[1], int)

    def fresh(val):
        if isinstance(val, tuple) and val:
            if val[0] in ("List", "Dict", "Set", "Tuple") and len(val) == 2 and val[1] == ():
                return True
            if val[0] == "k":
                return True
            if val[0] == "prod" and len(val) == 4 and val[2] == ():
                return True
            if val[0] == "call" and len(val) == 4 and val[1] in (("n", "set"), ("n", "dict"), ("n", "list"), ("n", "OrderedDict")) and val[2] == () and val[3] == ():
                return True
        return False

    def contains(x, v):
        if isinstance(x, tuple):
            return x == v or any(contains(y, v) for y in x)
        return False
    counts = {}

    def count(x):
        if isinstance(x, tuple):
            if len(x) == 3 and x[0] == "bind" and is_var(x[1]):
                counts[x[1][1]] = counts.get(x[1][1], 0) + 1
            for y in x:
                count(y)
    count(effs)

    def rec(x):
        if not isinstance(x, tuple):
            return x
        x = tuple(rec(y) for y in x)
        if x and all(isinstance(y, tuple) and y and isinstance(y[0], str) for y in x):
            out = list(x)
            i = len(out) - 1
            while i >= 0:
                b = out[i]
                if len(b) == 3 and b[0] == "bind" and is_var(b[1]) and counts.get(b[1][1]) == 1 and fresh(b[2]):
                    j = i + 1
                    while j < len(out) and not contains(out[j], b[1]):
                        j += 1
                    if j > i + 1:
                        out.insert(j, b)     # before the first effect that mentions it (or at the end)
                        del out[i]
                i -= 1
            x = tuple(out)
        return x
    return rec(effs)


def _drop_alias_binds(effs):
    """`bind vA = vB` where each of the two numbered variables is bound exactly once in the whole form, neither inside a loop nor as a loop / with
    target: vA is just another name for vB -- it is replaced by vB and the binding dropped"""
    def is_var(x):
        return isinstance(x, tuple) and len(x) == 2 and x[0] == "v" and isinstance(x[1], int)

    for _ in range(20):
        count, in_loop, targets = {}, set(), set()

        def note_targets(t):
            if is_var(t):
                targets.add(t[1])
            elif isinstance(t, tuple):
                for y in t:
                    note_targets(y)

        def scan(x, loop):
            if not isinstance(x, tuple) or not x:
                return
            if x[0] == "bind" and len(x) == 3 and is_var(x[1]):
                count[x[1][1]] = count.get(x[1][1], 0) + 1
                if loop:
                    in_loop.add(x[1][1])
                scan(x[2], loop)
                return
            if x[0] == "for" and len(x) == 5:
                note_targets(x[1])
                scan(x[2], loop)
                scan(x[3], True)
                scan(x[4], loop)
                return
            if x[0] == "while" and len(x) == 4:
                scan(x[1], True)
                scan(x[2], True)
                scan(x[3], loop)
                return
            if x[0] == "with" and len(x) == 3:
                for it in x[1]:
                    if isinstance(it, tuple) and len(it) == 2:
                        note_targets(it[1])
            for y in x:
                scan(y, loop)
        scan(effs, False)
        found = None

        def find(x):
            nonlocal found
            if found is not None or not isinstance(x, tuple) or not x:
                return
            if x[0] == "bind" and len(x) == 3 and is_var(x[1]) and is_var(x[2]) and x[1] != x[2]:
                a, b = x[1][1], x[2][1]
                if count.get(a) == 1 and count.get(b) == 1 and a not in in_loop and b not in in_loop and a not in targets and b not in targets:
                    found = (a, b)
                    return
            for y in x:
                find(y)
        find(effs)
        if found is None:
            return effs
        a, b = found

        def repl(x):
            if isinstance(x, tuple):
                if is_var(x) and x[1] == a:
                    return ("v", b)
                y = tuple(repl(z) for z in x)
                if y and all(isinstance(z, tuple) for z in y):
                    y = tuple(z for z in y if not (len(z) == 3 and z[0] == "bind" and z[1] == z[2]))
                return y
            return x
        effs = repl(effs)
    return effs


def _form_pure(x) -> bool:
    if isinstance(x, tuple):
        if len(x) >= 2 and x[0] == "call":
            f = x[1]
            if isinstance(f, tuple) and len(f) == 3 and f[0] == "." and f[2] in MUTATORS:
                return False
            if isinstance(f, tuple) and len(f) == 2 and f[0] == "n" and f[1] in IMPURE_FUNCS:
                return False
        if x and x[0] in ("yield", "yieldfrom", "await"):
            return False
        return all(_form_pure(y) for y in x)
    return True


def _drop_dead_binds(effs):
    """a numbered variable that is bound to side-effect free values only and never read is not there (the binding was materialised because something its
    value mentions was about to change, but nothing looked at it afterwards)"""
    for _ in range(10):
        reads, impure = {}, set()

        def scan(x, binding=None):
            if isinstance(x, tuple):
                if len(x) == 3 and x[0] == "bind" and isinstance(x[1], tuple) and len(x[1]) == 2 and x[1][0] == "v" and isinstance(x[1][1], int):
                    if not _form_pure(x[2]):
                        impure.add(x[1][1])
                    scan(x[2])
                    return
                if len(x) == 2 and x[0] == "v" and isinstance(x[1], int):
                    reads[x[1]] = reads.get(x[1], 0) + 1
                    return
                for y in x:
                    scan(y)
        scan(effs)
        bound = set()

        def binds(x):
            if isinstance(x, tuple):
                if len(x) == 3 and x[0] == "bind" and isinstance(x[1], tuple) and len(x[1]) == 2 and x[1][0] == "v" and isinstance(x[1][1], int):
                    bound.add(x[1][1])
                for y in x:
                    binds(y)
        binds(effs)
        dead = {v for v in bound if v not in reads and v not in impure}
        if not dead:
            return effs

        def strip(x, in_try=False):
            if isinstance(x, tuple):
                if x and all(isinstance(y, tuple) for y in x) and any(len(y) == 3 and y[0] == "bind" for y in x if y):
                    is_dead = lambda y: len(y) == 3 and y[0] == "bind" and isinstance(y[1], tuple) and y[1][0] == "v" and y[1][1] in dead   # noqa: E731
                    if in_try:
                        x = tuple(("eval", y[2]) if is_dead(y) else y for y in x)   # in a try body the evaluation stays
                    else:
                        x = tuple(y for y in x if not is_dead(y))
                if len(x) == 5 and x[0] == "try":
                    out = ("try", strip(x[1], bool(x[2])), strip(x[2], in_try), strip(x[3], in_try), strip(x[4], in_try))
                else:
                    out = tuple(strip(y, in_try) for y in x)
                if out and all(isinstance(y, tuple) for y in out):
                    empty_if = lambda y: len(y) == 4 and y[0] == "if" and y[2] == () and y[3] == ()   # noqa: E731
                    out = tuple(("eval", y[1]) if (empty_if(y) and in_try) else y for y in out if not (empty_if(y) and not in_try))
                return out
            return x
        effs = strip(effs)
    return effs


def _renumber(form):
    """numbered variables are renumbered in the order of their first *binding* occurrence in the finished form (bind, loop target, with item; effects are
    ordered, so this does not depend on how commutative operands happened to be sorted), the rest by first occurrence; afterwards the operands of
    commutative nodes, which were sorted under the old numbers, are sorted again"""
    mapping = {}

    def is_var(x):
        return isinstance(x, tuple) and len(x) == 2 and x[0] == "v" and isinstance(x[1], int)

    def note(x):
        if is_var(x) and x[1] not in mapping:
            mapping[x[1]] = len(mapping)

    def targets(t):
        if is_var(t):
            note(t)
        elif isinstance(t, tuple):
            for y in t:
                targets(y)

    def binders(x):
        if not isinstance(x, tuple) or not x:
            return
        if x[0] == "bind" and len(x) == 3:
            note(x[1])
        elif x[0] == "for" and len(x) == 5:
            targets(x[1])
        elif x[0] == "with" and len(x) == 3:
            for it in x[1]:
                if isinstance(it, tuple) and len(it) == 2:
                    note(it[1])
        for y in x:
            binders(y)
    binders(form)

    def others(x):
        if is_var(x):
            note(x)
        elif isinstance(x, tuple):
            for y in x:
                others(y)
    others(form)

    def rec(x):
        if isinstance(x, tuple):
            if is_var(x):
                return ("v", mapping[x[1]])
            y = tuple(rec(z) for z in x)
            if len(y) == 4 and y[0] == "prod" and isinstance(y[2], tuple):
                return ("prod", y[1], tuple(sorted(y[2], key=repr)), y[3])
            if len(y) == 3 and y[0] == "sum" and isinstance(y[1], tuple):
                terms = tuple((t_[0], tuple(sorted(t_[1], key=repr)), t_[2]) if isinstance(t_, tuple) and len(t_) == 3 and isinstance(t_[1], tuple) else t_ for t_ in y[1])
                return ("sum", tuple(sorted(terms, key=repr)) if y[2] is True else terms, y[2])
            if len(y) == 4 and y[0] == "cmp" and y[1] in ("Eq", "Is") and repr(y[2]) > repr(y[3]):
                return ("cmp", y[1], y[3], y[2])
            return y
        return x
    return rec(form)
